#!/bin/sh
# usage: check.sh <property id> [quick|thorough]
# Rebuilds the analyser if its sources changed, then analyses /repo's current
# working tree for one property. Exit 0 = held; exit 1 + VIOLATION line otherwise.
set -u
ID="$1"; TIER="${2:-${VERIF_TIER:-quick}}"
export GOTOOLCHAIN=local GOFLAGS=-mod=mod GOPROXY=off GOSUMDB=off PATH=/opt/veriftools/go1.26.8/bin:$PATH
unset GOWORK
cd /verif/checker || { echo "VIOLATION property=$ID replay=none reason=no-checker"; exit 1; }
if ! go build -o /verif/bin/rqcheck ./cmd/rqcheck; then
  echo "rqcheck: build failed"; echo "VIOLATION property=$ID replay=none reason=checker-build-failed"; exit 1
fi
cd /verif && exec /verif/bin/rqcheck -prop "$ID" -tier "$TIER" -repo "${RQ_REPO:-/repo}" -verif /verif
