// rqcheck decides structural necessary conditions of the rqlite properties in
// /verif/properties.jsonl by static analysis of /repo's current working tree.
package main

import (
	"encoding/json"
	"flag"
	"fmt"
	"os"
	"path/filepath"
	"runtime/debug"
	"sort"
	"strings"
	"time"

	"rqverif/checker/internal/core"
	"rqverif/checker/internal/props"
)

func main() {
	prop := flag.String("prop", "", "property id (C01..C38), comma separated, or 'all'")
	tier := flag.String("tier", "quick", "quick|thorough")
	repo := flag.String("repo", "/repo", "repository to analyse")
	verif := flag.String("verif", "/verif", "verification directory (evidence, known findings)")
	list := flag.Bool("list", false, "list registered properties")
	explain := flag.String("explain", "", "replay file: re-derive that obligation and print it")
	flag.Parse()

	reg := props.Registry()
	if *list {
		ids := make([]string, 0, len(reg))
		for id := range reg {
			ids = append(ids, id)
		}
		sort.Strings(ids)
		for _, id := range ids {
			if os.Getenv("RQCHECK_LIST_JSON") != "" {
				b, _ := json.Marshal(map[string]any{"id": id, "title": reg[id].Title, "explanation": reg[id].Explanation, "not_covered": reg[id].NotCovered})
				fmt.Printf("%s\n", b)
				continue
			}
			fmt.Printf("%s\t%s\n", id, reg[id].Title)
		}
		return
	}
	if env := os.Getenv("VERIF_TIER"); env != "" && !flagSet("tier") {
		*tier = env
	}
	if *tier != "quick" && *tier != "thorough" {
		*tier = "quick"
	}
	if *explain != "" {
		b, err := os.ReadFile(*explain)
		if err != nil {
			fmt.Fprintln(os.Stderr, err)
			os.Exit(2)
		}
		fmt.Printf("%s\n", b)
		base := filepath.Base(*explain)
		if i := strings.Index(base, "-"); i > 0 && *prop == "" {
			*prop = base[:i]
		}
	}
	var ids []string
	if *prop == "all" {
		for id := range reg {
			ids = append(ids, id)
		}
		sort.Strings(ids)
	} else {
		for _, id := range strings.Split(*prop, ",") {
			id = strings.TrimSpace(id)
			if id == "" {
				continue
			}
			if _, ok := reg[id]; !ok {
				fmt.Printf("rqcheck: no check registered for %s\n", id)
				fmt.Printf("VIOLATION property=%s replay=none\n", id)
				os.Exit(1)
			}
			ids = append(ids, id)
		}
	}
	if len(ids) == 0 {
		fmt.Fprintln(os.Stderr, "usage: rqcheck -prop <id>|all [-tier quick|thorough]")
		os.Exit(2)
	}
	os.Unsetenv("GOWORK")
	os.Setenv("RQCHECK_VERIF", *verif)
	ff, err := core.LoadFindings(filepath.Join(*verif, "known_findings.json"))
	if err != nil {
		fail(ids, "known_findings.json unreadable: "+err.Error())
	}

	t0 := time.Now()
	// self-test of the rule primitives on the fixtures; a primitive that
	// stopped matching its positive control would pass vacuously.
	if msg := props.SelfTest(filepath.Join(*verif, "checker", "testdata", "fixtures")); msg != "" {
		fail(ids, "checker broken (fixture self-test): "+msg)
	}
	stS := time.Since(t0).Seconds()

	p, err := core.Load(core.LoadOpts{Dir: *repo, MinRoots: 50})
	if err != nil {
		fail(ids, "load failed: "+err.Error())
	}
	fmt.Printf("rqcheck: loaded %d module packages (%d total) from %s in %.1fs; fixtures %.1fs\n", len(p.Roots), len(p.ByPath), *repo, p.LoadS, stS)

	failures := 0
	for _, id := range ids {
		ch := reg[id]
		t1 := time.Now()
		c := core.NewCtx(p, ch, *tier)
		func() {
			defer func() {
				if r := recover(); r != nil {
					c.Unk(id, "PANIC", "checker", "", fmt.Sprintf("checker panicked: %v\n%s", r, debug.Stack()))
				}
			}()
			props.SetStepPolicy(c)
			ch.Run(c)
			props.RunImports(c)
			if *tier == "thorough" {
				props.Thorough(c, *repo)
			}
		}()
		wall := time.Since(t1).Seconds() + p.LoadS/float64(len(ids)) + stS/float64(len(ids))
		failures += c.Finish(*verif, ff, wall, map[string]any{"load_s": p.LoadS, "fixture_selftest": "passed"})
	}
	if failures > 0 {
		os.Exit(1)
	}
}

func flagSet(name string) bool {
	set := false
	flag.Visit(func(f *flag.Flag) {
		if f.Name == name {
			set = true
		}
	})
	return set
}

func fail(ids []string, msg string) {
	fmt.Println("rqcheck: " + msg)
	for _, id := range ids {
		fmt.Printf("VIOLATION property=%s replay=none reason=undecided\n", id)
	}
	os.Exit(1)
}
