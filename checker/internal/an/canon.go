package an

import (
	"fmt"
	"go/token"
	"go/types"
	"strings"

	"golang.org/x/tools/go/ssa"
)

// Canon prints an SSA value as an expression tree over resolved objects:
// parameters by name, fields by name, callees by FuncID, constants by value.
// Local variable names do not occur (SSA substitutes definitions). phi nodes
// print as phi(...) unless resolved by the caller.
func Canon(v ssa.Value) string { return canon(v, 0, nil) }

// canonPositional makes parameters print as p0, p1, … (receiver first)
// instead of by name. The checker is single-threaded.
var canonPositional bool

// CanonPos is Canon with positional parameter names: insensitive to renaming
// of parameters and receivers.
func CanonPos(v ssa.Value) string {
	canonPositional = true
	defer func() { canonPositional = false }()
	return canon(v, 0, nil)
}

// CanonWith prints with phi nodes resolved through sub (path-sensitive use).
func CanonWith(v ssa.Value, sub func(*ssa.Phi) ssa.Value) string { return canon(v, 0, sub) }

func canon(v ssa.Value, depth int, sub func(*ssa.Phi) ssa.Value) string {
	if v == nil {
		return "<nil>"
	}
	if depth > 12 {
		return "…"
	}
	r := func(x ssa.Value) string { return canon(x, depth+1, sub) }
	switch x := v.(type) {
	case *ssa.Const:
		if x.Value == nil {
			return "nil"
		}
		return x.Value.ExactString()
	case *ssa.Parameter:
		if canonPositional && x.Parent() != nil {
			for i, p := range x.Parent().Params {
				if p == x {
					return "p" + string(rune('0'+i))
				}
			}
		}
		return x.Name()
	case *ssa.FreeVar:
		return "free:" + x.Name()
	case *ssa.Global:
		return strings.TrimPrefix(x.Pkg.Pkg.Path(), modPrefix) + "." + x.Name()
	case *ssa.Function:
		return "func:" + shortFn(x)
	case *ssa.Builtin:
		return x.Name()
	case *ssa.Alloc:
		if x.Comment != "" {
			return "local:" + x.Comment
		}
		return "alloc"
	case *ssa.FieldAddr:
		_, f, base, _ := FieldOf(x)
		return "&" + r(base) + "." + f
	case *ssa.Field:
		_, f, base, _ := FieldOf(x)
		return r(base) + "." + f
	case *ssa.UnOp:
		switch x.Op {
		case token.MUL:
			s := r(x.X)
			if _, isG := x.X.(*ssa.Global); isG {
				return s
			}
			if strings.HasPrefix(s, "&") {
				return s[1:]
			}
			return "*" + s
		case token.NOT:
			return "!" + r(x.X)
		case token.ARROW:
			return "<-" + r(x.X)
		default:
			return x.Op.String() + r(x.X)
		}
	case *ssa.BinOp:
		return "(" + r(x.X) + " " + x.Op.String() + " " + r(x.Y) + ")"
	case *ssa.Call:
		return canonCall(x, r)
	case *ssa.Extract:
		return r(x.Tuple) + "#" + fmt.Sprint(x.Index)
	case *ssa.Phi:
		if sub != nil {
			if y := sub(x); y != nil {
				return r(y)
			}
		}
		var parts []string
		for _, e := range x.Edges {
			if e == x {
				continue
			}
			parts = append(parts, canon(e, depth+3, sub))
		}
		return "phi(" + strings.Join(parts, "|") + ")"
	case *ssa.ChangeType:
		return r(x.X)
	case *ssa.Convert:
		return typeShort(x.Type()) + "(" + r(x.X) + ")"
	case *ssa.MakeInterface:
		return r(x.X)
	case *ssa.ChangeInterface:
		return r(x.X)
	case *ssa.TypeAssert:
		return r(x.X) + ".(" + typeShort(x.AssertedType) + ")"
	case *ssa.IndexAddr:
		return "&" + r(x.X) + "[" + r(x.Index) + "]"
	case *ssa.Index:
		return r(x.X) + "[" + r(x.Index) + "]"
	case *ssa.Lookup:
		return r(x.X) + "[" + r(x.Index) + "]"
	case *ssa.Slice:
		s := r(x.X) + "["
		if x.Low != nil {
			s += r(x.Low)
		}
		s += ":"
		if x.High != nil {
			s += r(x.High)
		}
		return s + "]"
	case *ssa.MakeClosure:
		return "closure:" + shortFn(x.Fn.(*ssa.Function))
	case *ssa.MakeSlice:
		return "make(" + typeShort(x.Type()) + "," + r(x.Len) + ")"
	case *ssa.MakeMap:
		return "make(" + typeShort(x.Type()) + ")"
	case *ssa.MakeChan:
		return "make(" + typeShort(x.Type()) + ")"
	case *ssa.Next:
		return "next(" + r(x.Iter) + ")"
	case *ssa.Range:
		return "range(" + r(x.X) + ")"
	case *ssa.Select:
		return "select"
	}
	return fmt.Sprintf("?%T", v)
}

func canonCall(x *ssa.Call, r func(ssa.Value) string) string {
	cc := x.Common()
	var args []string
	for _, a := range cc.Args {
		args = append(args, r(a))
	}
	if cc.IsInvoke() {
		return r(cc.Value) + "." + cc.Method.Name() + "(" + strings.Join(args, ",") + ")"
	}
	if b, ok := cc.Value.(*ssa.Builtin); ok {
		return b.Name() + "(" + strings.Join(args, ",") + ")"
	}
	if id := CalleeID(x); id != "" {
		// methods: print receiver first
		if sc := cc.StaticCallee(); sc != nil && sc.Signature.Recv() != nil && len(args) > 0 {
			return args[0] + "." + sc.Name() + "(" + strings.Join(args[1:], ",") + ")"
		}
		return id + "(" + strings.Join(args, ",") + ")"
	}
	return "call:" + r(cc.Value) + "(" + strings.Join(args, ",") + ")"
}

func typeShort(t types.Type) string {
	return types.TypeString(t, func(p *types.Package) string {
		return strings.TrimPrefix(p.Path(), modPrefix)
	})
}
