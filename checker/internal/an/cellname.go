package an

import "golang.org/x/tools/go/ssa"

// cellName keys a memory cell for the path interpreter: local allocations by
// their unique register name, fields by the canonical access path.
func cellName(addr ssa.Value) string {
	if al, ok := addr.(*ssa.Alloc); ok {
		return "alloc:" + al.Name()
	}
	if fa, ok := addr.(*ssa.FieldAddr); ok {
		if al, ok := fa.X.(*ssa.Alloc); ok {
			_, f, _, _ := FieldOf(fa)
			return "alloc:" + al.Name() + "." + f
		}
	}
	return Canon(addr)
}
