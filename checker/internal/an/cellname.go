package an

import "golang.org/x/tools/go/ssa"

// cellName keys a memory cell for the path interpreter: local allocations by
// their unique register name, fields by the canonical access path.
func cellName(addr ssa.Value) string {
	if al, ok := addr.(*ssa.Alloc); ok {
		return "alloc:" + fnKey(al.Parent()) + ":" + al.Name()
	}
	if fa, ok := addr.(*ssa.FieldAddr); ok {
		if al, ok := fa.X.(*ssa.Alloc); ok {
			_, f, _, _ := FieldOf(fa)
			return "alloc:" + fnKey(al.Parent()) + ":" + al.Name() + "." + f
		}
	}
	return Canon(addr)
}

func fnKey(f *ssa.Function) string {
	if f == nil {
		return "?"
	}
	return f.String()
}

// cellNameR is cellName with the base of a field address resolved first, so
// that a field reached through a helper's parameter and the same field reached
// through the caller's value name one cell.
func cellNameR(addr ssa.Value, resolve func(ssa.Value) ssa.Value) string {
	if fa, ok := addr.(*ssa.FieldAddr); ok {
		if _, isAlloc := fa.X.(*ssa.Alloc); !isAlloc {
			base := resolve(fa.X)
			_, f, _, _ := FieldOf(fa)
			return "field:" + Canon(base) + "." + f
		}
	}
	return cellName(addr)
}
