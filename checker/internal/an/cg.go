package an

import (
	"sort"
	"strings"

	"golang.org/x/tools/go/callgraph"
	"golang.org/x/tools/go/ssa"
)

// Reach computes the functions reachable from roots in cg. follow decides
// whether the edges out of a function are followed (e.g. only module code).
func Reach(cg *callgraph.Graph, roots []*ssa.Function, follow func(*ssa.Function) bool) map[*ssa.Function]*callgraph.Edge {
	// value = the edge by which the function was first reached (nil for roots)
	out := map[*ssa.Function]*callgraph.Edge{}
	var q []*ssa.Function
	for _, r := range roots {
		if r == nil {
			continue
		}
		if _, ok := out[r]; !ok {
			out[r] = nil
			q = append(q, r)
		}
	}
	for len(q) > 0 {
		f := q[0]
		q = q[1:]
		if follow != nil && !follow(f) {
			continue
		}
		n := cg.Nodes[f]
		if n == nil {
			continue
		}
		for _, e := range n.Out {
			cal := e.Callee.Func
			if _, ok := out[cal]; !ok {
				out[cal] = e
				q = append(q, cal)
			}
		}
		// closures defined in f are considered reachable when f is (they
		// may be stored and called later through paths VTA also sees; this
		// keeps who-may-call conservative).
		for _, a := range f.AnonFuncs {
			if _, ok := out[a]; !ok {
				out[a] = &callgraph.Edge{Caller: n, Callee: cg.CreateNode(a)}
				q = append(q, a)
			}
		}
	}
	return out
}

// PathTo renders the call chain by which fn was reached in a Reach result.
func PathTo(reach map[*ssa.Function]*callgraph.Edge, fn *ssa.Function) string {
	var parts []string
	cur := fn
	for i := 0; i < 40 && cur != nil; i++ {
		parts = append(parts, shortFn(cur))
		e := reach[cur]
		if e == nil {
			break
		}
		cur = e.Caller.Func
	}
	for i, j := 0, len(parts)-1; i < j; i, j = i+1, j-1 {
		parts[i], parts[j] = parts[j], parts[i]
	}
	return strings.Join(parts, " → ")
}

func shortFn(f *ssa.Function) string {
	return strings.ReplaceAll(f.String(), modPrefix, "")
}

// Callers returns the direct callers of fn.
func Callers(cg *callgraph.Graph, fn *ssa.Function) []*ssa.Function {
	n := cg.Nodes[fn]
	if n == nil {
		return nil
	}
	seen := map[*ssa.Function]bool{}
	var out []*ssa.Function
	for _, e := range n.In {
		if !seen[e.Caller.Func] {
			seen[e.Caller.Func] = true
			out = append(out, e.Caller.Func)
		}
	}
	sort.Slice(out, func(i, j int) bool { return out[i].String() < out[j].String() })
	return out
}

// TransCallers returns every function from which fn is reachable, following
// only callers accepted by follow.
func TransCallers(cg *callgraph.Graph, fn *ssa.Function, follow func(*ssa.Function) bool) map[*ssa.Function]bool {
	out := map[*ssa.Function]bool{}
	q := []*ssa.Function{fn}
	for len(q) > 0 {
		f := q[0]
		q = q[1:]
		n := cg.Nodes[f]
		if n == nil {
			continue
		}
		for _, e := range n.In {
			c := e.Caller.Func
			if out[c] {
				continue
			}
			if follow != nil && !follow(c) {
				continue
			}
			out[c] = true
			q = append(q, c)
		}
		// a closure is "called" by its parent for attribution purposes
		if p := f.Parent(); p != nil && !out[p] {
			if follow == nil || follow(p) {
				out[p] = true
				q = append(q, p)
			}
		}
	}
	return out
}

// TopFunc returns the outermost enclosing named function of a closure.
func TopFunc(f *ssa.Function) *ssa.Function {
	for f.Parent() != nil {
		f = f.Parent()
	}
	return f
}
