package an

import (
	"go/token"

	"golang.org/x/tools/go/ssa"
)

// SenseEdgesOfCmp returns both out-edges of every branch whose condition
// compares a value satisfying pred with the integer constant k (any
// relational operator). It answers "is this quantity tested against k?".
func SenseEdgesOfCmp(fn *ssa.Function, pred func(ssa.Value) bool, k int64) map[Edge]bool {
	out := map[Edge]bool{}
	for _, b := range fn.Blocks {
		if len(b.Instrs) == 0 {
			continue
		}
		ifi, ok := b.Instrs[len(b.Instrs)-1].(*ssa.If)
		if !ok {
			continue
		}
		bo, ok := ifi.Cond.(*ssa.BinOp)
		if !ok {
			continue
		}
		switch bo.Op {
		case token.EQL, token.NEQ, token.LSS, token.LEQ, token.GTR, token.GEQ:
		default:
			continue
		}
		match := false
		if c, ok := ConstInt(bo.Y); ok && c == k && pred(bo.X) {
			match = true
		}
		if c, ok := ConstInt(bo.X); ok && c == k && pred(bo.Y) {
			match = true
		}
		if match {
			out[Edge{b, b.Succs[0]}] = true
			out[Edge{b, b.Succs[1]}] = true
		}
	}
	return out
}
