package an

import (
	"fmt"
	"go/token"

	"golang.org/x/tools/go/ssa"
)

// Edge is a CFG edge between two blocks of one function.
type Edge struct{ From, To *ssa.BasicBlock }

// Sense is the truth a gate value must have on an edge.
type Sense int

const (
	IsNil Sense = iota
	NotNil
	IsTrue
	IsFalse
)

// SenseEdges returns the CFG edges on which value v is known to have the given
// sense, from If instructions that test v directly: v==nil, v!=nil, v, !v,
// v==true/false. Short-circuit && and || are already separate blocks in SSA.
// A value stored to a local cell and loaded again (named results captured by
// a defer) is followed through loads of the same cell that are dominated by
// the store with no other store in between only in the simple single-store
// case.
func SenseEdges(fn *ssa.Function, vals []ssa.Value, want Sense) map[Edge]bool {
	out := map[Edge]bool{}
	isV := func(x ssa.Value) bool {
		x = Unwrap(x)
		for _, v := range vals {
			if x == v || x == Unwrap(v) {
				return true
			}
		}
		return false
	}
	// loads of cells that hold v (single-store cells)
	for _, v := range vals {
		if refs := v.Referrers(); refs != nil {
			for _, r := range *refs {
				st, ok := r.(*ssa.Store)
				if !ok || st.Val != v {
					continue
				}
				al, ok := st.Addr.(*ssa.Alloc)
				if !ok {
					continue
				}
				for _, ar := range *al.Referrers() {
					if ld, ok := ar.(*ssa.UnOp); ok && ld.Op == token.MUL && ld.X == al && reachesWithoutStore(st, ld, al) {
						vals = append(vals, ld)
					}
				}
			}
		}
	}
	for _, b := range fn.Blocks {
		if len(b.Instrs) == 0 {
			continue
		}
		ifi, ok := b.Instrs[len(b.Instrs)-1].(*ssa.If)
		if !ok {
			continue
		}
		s, ok := condSense(ifi.Cond, isV)
		if !ok {
			continue
		}
		// s is the sense v has when cond is true
		tEdge := Edge{b, b.Succs[0]}
		fEdge := Edge{b, b.Succs[1]}
		if s == want {
			out[tEdge] = true
		}
		if negate(s) == want {
			out[fEdge] = true
		}
	}
	return out
}

// reachesWithoutStore: ld is dominated by st and no other store to cell
// exists in the function other than st, or every other store is the zero
// initialisation preceding st. Conservative: require st to be the only
// non-initial store that can reach ld, approximated by "st dominates ld and
// no other store to the cell lies on a path st -> ld".
func reachesWithoutStore(st *ssa.Store, ld ssa.Instruction, cell *ssa.Alloc) bool {
	if !Dominates(st, ld) {
		return false
	}
	fn := st.Parent()
	others := map[ssa.Instruction]bool{}
	for _, r := range *cell.Referrers() {
		if s2, ok := r.(*ssa.Store); ok && s2 != st && s2.Addr == cell {
			others[s2] = true
		}
	}
	if len(others) == 0 {
		return true
	}
	// search from st to ld avoiding nothing; if any other store is reachable from st and reaches ld, reject
	hit := false
	WalkFrom(fn, st, func(in ssa.Instruction) bool {
		if in == ld {
			return false
		}
		if others[in] {
			// can this store reach ld?
			reach := false
			WalkFrom(fn, in, func(j ssa.Instruction) bool {
				if j == ld {
					reach = true
					return false
				}
				if j == st {
					return false
				}
				return true
			})
			if reach {
				hit = true
			}
			return false
		}
		return true
	})
	return !hit
}

// WalkFrom visits instructions reachable after 'from' (exclusive) in CFG
// order; visit returns false to stop exploring past that instruction.
func WalkFrom(fn *ssa.Function, from ssa.Instruction, visit func(ssa.Instruction) bool) {
	seen := map[*ssa.BasicBlock]bool{}
	var walkBlock func(b *ssa.BasicBlock, start int)
	walkBlock = func(b *ssa.BasicBlock, start int) {
		for i := start; i < len(b.Instrs); i++ {
			if !visit(b.Instrs[i]) {
				return
			}
		}
		for _, s := range b.Succs {
			if !seen[s] {
				seen[s] = true
				walkBlock(s, 0)
			}
		}
	}
	walkBlock(from.Block(), InstrIndex(from)+1)
}

func negate(s Sense) Sense {
	switch s {
	case IsNil:
		return NotNil
	case NotNil:
		return IsNil
	case IsTrue:
		return IsFalse
	}
	return IsTrue
}

// condSense maps a branch condition to the sense the tracked value has when
// the condition is true.
func condSense(cond ssa.Value, isV func(ssa.Value) bool) (Sense, bool) {
	switch c := cond.(type) {
	case *ssa.UnOp:
		if c.Op == token.NOT {
			s, ok := condSense(c.X, isV)
			if ok {
				return negate(s), true
			}
		}
	case *ssa.BinOp:
		if c.Op == token.EQL || c.Op == token.NEQ {
			var other ssa.Value
			if isV(c.X) {
				other = c.Y
			} else if isV(c.Y) {
				other = c.X
			} else {
				return 0, false
			}
			var s Sense
			if IsNilConst(other) {
				s = IsNil
			} else if bv, ok := ConstBool(other); ok {
				if bv {
					s = IsTrue
				} else {
					s = IsFalse
				}
			} else {
				return 0, false
			}
			if c.Op == token.NEQ {
				s = negate(s)
			}
			return s, true
		}
	}
	if isV(cond) {
		return IsTrue, true
	}
	return 0, false
}

// CutSpec describes a must-pass-through question on one function.
type CutSpec struct {
	Fn *ssa.Function
	// Gate instructions: a path that executes one has passed the gate.
	GateInstr func(ssa.Instruction) bool
	// Gate edges: a path that takes one has passed the gate.
	GateEdge map[Edge]bool
	// Sink instructions that must not be reachable without the gate.
	Sink func(ssa.Instruction) bool
	// Start overrides the entry point (exclusive); nil means function entry.
	Start ssa.Instruction
	// StartBlocks, when set, are additional/alternative entry blocks (paths
	// begin at their first instruction).
	StartBlocks []*ssa.BasicBlock
	// NoLift disables the lifting of gates and sinks through same-package helpers.
	NoLift bool
	// LiftSinks: a call of a same-package helper that may execute a sink
	// instruction is a sink too (opt-in: the sink predicate must not also match
	// what the gate function itself does).
	LiftSinks bool
}

// Hit is a sink reached without passing the gate, with a block path witness.
type Hit struct {
	Instr ssa.Instruction
	Path  []int // block indices from start to the sink's block
}

// Ungated returns the sinks reachable from the start without passing a gate.
func Ungated(spec CutSpec) []Hit {
	fn := spec.Fn
	if len(fn.Blocks) == 0 {
		return nil
	}
	var hits []Hit
	seen := map[*ssa.BasicBlock]bool{}
	type item struct {
		b     *ssa.BasicBlock
		start int
		path  []int
	}
	var q []item
	if spec.Start != nil {
		q = append(q, item{spec.Start.Block(), InstrIndex(spec.Start) + 1, []int{spec.Start.Block().Index}})
	} else if len(spec.StartBlocks) > 0 {
		for _, sb := range spec.StartBlocks {
			if !seen[sb] {
				seen[sb] = true
				q = append(q, item{sb, 0, []int{sb.Index}})
			}
		}
	} else {
		q = append(q, item{fn.Blocks[0], 0, []int{0}})
		seen[fn.Blocks[0]] = true
	}
	hitSeen := map[ssa.Instruction]bool{}
	// gates and sinks survive being moved into a same-package helper: a call of a helper all of
	// whose (successful) paths execute a gate instruction is a gate; a call of a helper that may
	// execute a sink instruction is a sink
	gateMemo, sinkMemo := map[*ssa.Function]bool{}, map[*ssa.Function]bool{}
	helperOf := func(in ssa.Instruction) *ssa.Function {
		if spec.NoLift {
			return nil
		}
		ci, ok := in.(ssa.CallInstruction)
		if !ok {
			return nil
		}
		if _, isGo := in.(*ssa.Go); isGo {
			return nil
		}
		g := ci.Common().StaticCallee()
		if g == nil || g == fn || len(g.Blocks) == 0 || g.Pkg == nil || fn.Pkg == nil || g.Pkg != fn.Pkg || !InModuleFn(g) {
			return nil
		}
		return g
	}
	liftedGate := func(in ssa.Instruction) bool {
		g := helperOf(in)
		if g == nil || spec.GateInstr == nil {
			return false
		}
		if v, ok := gateMemo[g]; ok {
			return v
		}
		gateMemo[g] = false
		res := g.Signature.Results()
		onlySucc := res.Len() > 0 && IsErrorType(res.At(res.Len()-1).Type())
		v := MustDo(g, func(x ssa.Instruction) bool {
			switch x.(type) {
			case *ssa.Return, *ssa.If, *ssa.Jump, *ssa.Panic:
				return false
			}
			return spec.GateInstr(x)
		}, 2, onlySucc, InModuleFn)
		gateMemo[g] = v
		return v
	}
	liftedSink := func(in ssa.Instruction) bool {
		if !spec.LiftSinks {
			return false
		}
		g := helperOf(in)
		if g == nil || spec.Sink == nil {
			return false
		}
		if v, ok := sinkMemo[g]; ok {
			return v
		}
		sinkMemo[g] = false
		v := MayDo(g, func(x ssa.Instruction) bool {
			switch x.(type) {
			case *ssa.Return, *ssa.If, *ssa.Jump, *ssa.Panic, *ssa.RunDefers:
				return false
			}
			return spec.Sink(x)
		}, 1, InModuleFn)
		sinkMemo[g] = v
		return v
	}
	for len(q) > 0 {
		it := q[0]
		q = q[1:]
		blocked := false
		for i := it.start; i < len(it.b.Instrs); i++ {
			in := it.b.Instrs[i]
			if spec.Sink != nil && (spec.Sink(in) || liftedSink(in)) && !hitSeen[in] {
				hitSeen[in] = true
				hits = append(hits, Hit{in, append([]int(nil), it.path...)})
			}
			if spec.GateInstr != nil && (spec.GateInstr(in) || liftedGate(in)) {
				blocked = true
				break
			}
		}
		if blocked {
			continue
		}
		for _, s := range it.b.Succs {
			if spec.GateEdge[Edge{it.b, s}] {
				continue
			}
			if !seen[s] {
				seen[s] = true
				q = append(q, item{s, 0, append(append([]int(nil), it.path...), s.Index)})
			}
		}
	}
	return hits
}

// ReachableFrom reports whether 'to' can execute after 'from' (exclusive)
// without passing an instruction for which stop is true.
func ReachableFrom(from, to ssa.Instruction, stop func(ssa.Instruction) bool) bool {
	found := false
	WalkFrom(from.Parent(), from, func(in ssa.Instruction) bool {
		if in == to {
			found = true
			return false
		}
		if stop != nil && stop(in) {
			return false
		}
		return true
	})
	return found
}

// PathString renders a block path with source lines where known.
func PathString(fn *ssa.Function, path []int, pos func(token.Pos) string) string {
	s := ""
	for i, bi := range path {
		if i > 0 {
			s += "→"
		}
		b := fn.Blocks[bi]
		line := ""
		for _, in := range b.Instrs {
			if in.Pos().IsValid() {
				line = pos(in.Pos())
				break
			}
		}
		if b.Comment != "" {
			s += fmt.Sprintf("b%d(%s %s)", bi, b.Comment, line)
		} else {
			s += fmt.Sprintf("b%d(%s)", bi, line)
		}
	}
	return s
}

// SuccessReturns lists Return instructions whose last result (type error) is
// the nil constant, or — for named results — may be nil: returns that are not
// provably an error. If the function has no error result every return counts.
func SuccessReturns(fn *ssa.Function) []*ssa.Return {
	var out []*ssa.Return
	res := fn.Signature.Results()
	errIdx := -1
	if res.Len() > 0 && IsErrorType(res.At(res.Len()-1).Type()) {
		errIdx = res.Len() - 1
	}
	for _, r := range Returns(fn) {
		if errIdx < 0 {
			out = append(out, r)
			continue
		}
		v := r.Results[errIdx]
		// named result spilled to a cell (function with defers): the value
		// returned is the one stored to the cell just before, in this block
		if ld, ok := v.(*ssa.UnOp); ok && ld.Op == token.MUL {
			if cell, ok := ld.X.(*ssa.Alloc); ok {
				instrs := r.Block().Instrs
				for i := len(instrs) - 1; i >= 0; i-- {
					if st, ok := instrs[i].(*ssa.Store); ok && st.Addr == ssa.Value(cell) {
						v = st.Val
						break
					}
				}
			}
		}
		if IsNilConst(v) {
			out = append(out, r)
			continue
		}
		// a value known non-nil: result of errors.New/fmt.Errorf or a global error var load
		if definitelyError(v) {
			continue
		}
		// value tested non-nil on every way here?
		ne := SenseEdges(fn, []ssa.Value{v}, NotNil)
		if len(ne) > 0 {
			rr := r
			if len(Ungated(CutSpec{Fn: fn, GateEdge: ne, Sink: func(in ssa.Instruction) bool { return in == rr }})) == 0 {
				continue
			}
		}
		out = append(out, r)
	}
	return out
}

func definitelyError(v ssa.Value) bool {
	v = Unwrap(v)
	switch x := v.(type) {
	case *ssa.Call:
		id := CalleeID(x)
		return id == "errors.New" || id == "fmt.Errorf"
	case *ssa.UnOp:
		if x.Op == token.MUL {
			if g, ok := x.X.(*ssa.Global); ok {
				n := g.Name()
				return (len(n) > 3 && (n[:3] == "Err" || n[:3] == "err")) || n == "EOF"
			}
		}
	case *ssa.Alloc:
		return true
	}
	return false
}
