package an

import (
	"fmt"
	"go/token"
	"go/types"
	"sort"
	"strings"

	"golang.org/x/tools/go/ssa"
)

// Val is a valuation of the decision variables of a function.
type Val map[string]int

func (v Val) String() string {
	keys := make([]string, 0, len(v))
	for k := range v {
		keys = append(keys, k)
	}
	sort.Strings(keys)
	var parts []string
	for _, k := range keys {
		parts = append(parts, fmt.Sprintf("%s=%d", k, v[k]))
	}
	return strings.Join(parts, " ")
}

// Var is a decision variable with its finite domain.
type Var struct {
	Name   string
	Values []int
}

// Bool declares a 0/1 variable.
func Bool(name string) Var { return Var{name, []int{0, 1}} }

// Sign declares a variable standing for sign(x-y) ∈ {-1,0,1}.
func Sign(name string) Var { return Var{name, []int{-1, 0, 1}} }

// CondMatcher maps a branch condition (NOT already stripped, phi already
// resolved) to its truth under a valuation.
type CondMatcher func(cond ssa.Value) (eval func(Val) bool, ok bool)

// DecideSpec describes the extraction of a decision table from a function.
type DecideSpec struct {
	Fn       *ssa.Function
	Vars     []Var
	Conds    []CondMatcher
	Effect   func(ssa.Instruction) (string, bool)
	Ret      func(r *ssa.Return, resolve func(ssa.Value) ssa.Value) string
	Ref      func(Val) string
	Feasible func(Val) bool
	MaxSteps int
	// R, when set, is bound to the path's phi resolution during each
	// interpretation so that matchers can resolve operands.
	R *Resolver
}

// Resolver gives condition matchers access to the current path's phi
// resolution.
type Resolver struct{ f func(ssa.Value) ssa.Value }

// Resolve maps a phi to the value it has on the current path.
func (r *Resolver) Resolve(v ssa.Value) ssa.Value {
	if r == nil || r.f == nil {
		return v
	}
	return r.f(v)
}

// Row is one evaluated valuation.
type Row struct {
	Val  string `json:"valuation"`
	Got  string `json:"got"`
	Want string `json:"want"`
}

// DecideResult is the outcome of a decision-table comparison.
type DecideResult struct {
	Rows       int
	Mismatches []Row
	Undecided  []string // unrecognised conditions (canonical form + position)
	Sample     []Row
}

// Decide enumerates all valuations, interprets the function's CFG under each
// and compares the outcome (effects in order + return) with the reference.
func Decide(spec DecideSpec, pos func(token.Pos) string) DecideResult {
	var res DecideResult
	if spec.MaxSteps == 0 {
		spec.MaxSteps = 400
	}
	vals := []Val{{}}
	for _, v := range spec.Vars {
		var next []Val
		for _, base := range vals {
			for _, x := range v.Values {
				nv := Val{}
				for k, y := range base {
					nv[k] = y
				}
				nv[v.Name] = x
				next = append(next, nv)
			}
		}
		vals = next
	}
	und := map[string]bool{}
	for _, val := range vals {
		if spec.Feasible != nil && !spec.Feasible(val) {
			continue
		}
		got, bad := interpret(spec, val, pos)
		for _, b := range bad {
			if !und[b] {
				und[b] = true
				res.Undecided = append(res.Undecided, b)
			}
		}
		if len(bad) > 0 {
			continue
		}
		want := spec.Ref(val)
		res.Rows++
		row := Row{val.String(), got, want}
		match := false
		for _, alt := range strings.Split(want, " || ") {
			if got == alt {
				match = true
			}
		}
		if !match {
			res.Mismatches = append(res.Mismatches, row)
		} else if len(res.Sample) < 4 {
			res.Sample = append(res.Sample, row)
		}
	}
	return res
}

func interpret(spec DecideSpec, val Val, pos func(token.Pos) string) (string, []string) {
	fn := spec.Fn
	var effects []string
	var bad []string
	b := fn.Blocks[0]
	var prev *ssa.BasicBlock
	var resolve func(v ssa.Value) ssa.Value
	// phi resolution is with respect to the predecessor by which the phi's
	// block was entered on this path
	entered := map[*ssa.BasicBlock]*ssa.BasicBlock{}
	// values stored on this path to field/local cells (no aliasing assumed)
	mem := map[string]ssa.Value{}
	resolve = func(v ssa.Value) ssa.Value {
		for i := 0; i < 8; i++ {
			if u, isLoad := v.(*ssa.UnOp); isLoad && u.Op == token.MUL {
				switch u.X.(type) {
				case *ssa.FieldAddr, *ssa.Alloc:
					if sv, ok := mem[cellName(u.X)]; ok {
						v = sv
						continue
					}
				}
				return v
			}
			p, ok := v.(*ssa.Phi)
			if !ok {
				return v
			}
			pb := p.Block()
			pr := entered[pb]
			if pr == nil {
				return v
			}
			found := false
			for k, pp := range pb.Preds {
				if pp == pr {
					v = p.Edges[k]
					found = true
					break
				}
			}
			if !found {
				return v
			}
		}
		return v
	}
	if spec.R != nil {
		spec.R.f = resolve
	}
	evalBool := func(v ssa.Value) (string, bool) {
		v = resolve(v)
		neg := false
		for {
			u, ok := v.(*ssa.UnOp)
			if !ok || u.Op != token.NOT {
				break
			}
			neg = !neg
			v = resolve(u.X)
		}
		if cb, ok := ConstBool(v); ok {
			if cb != neg {
				return "true", true
			}
			return "false", true
		}
		for _, m := range spec.Conds {
			if ev, ok := m(v); ok {
				if ev(val) != neg {
					return "true", true
				}
				return "false", true
			}
		}
		return "", false
	}
	visits := map[*ssa.BasicBlock]int{}
	for step := 0; step < spec.MaxSteps; step++ {
		visits[b]++
		if visits[b] > 1 {
			// under a fixed valuation a revisit repeats forever
			return strings.Join(effects, ";") + " => loop", bad
		}
		entered[b] = prev
		for _, in := range b.Instrs {
			if spec.Effect != nil {
				if lbl, ok := spec.Effect(in); ok {
					effects = append(effects, lbl)
				}
			}
			switch t := in.(type) {
			case *ssa.Store:
				switch t.Addr.(type) {
				case *ssa.FieldAddr, *ssa.Alloc:
					mem[cellName(t.Addr)] = resolve(t.Val)
				}
			case *ssa.Return:
				ret := ""
				if spec.Ret != nil {
					ret = spec.Ret(t, resolve)
				} else {
					var parts []string
					for _, r := range t.Results {
						if b, isB := r.Type().Underlying().(*types.Basic); isB && b.Kind() == types.Bool {
							if s, ok := evalBool(r); ok {
								parts = append(parts, s)
								continue
							}
						}
						parts = append(parts, CanonWith(resolve(r), func(p *ssa.Phi) ssa.Value {
							x := resolve(p)
							if x == ssa.Value(p) {
								return nil
							}
							return x
						}))
					}
					ret = strings.Join(parts, ",")
				}
				return strings.Join(effects, ";") + " => " + ret, bad
			case *ssa.Panic:
				return strings.Join(effects, ";") + " => panic", bad
			case *ssa.Jump:
				prev, b = b, b.Succs[0]
			case *ssa.If:
				cond := resolve(t.Cond)
				neg := false
				for {
					u, ok := cond.(*ssa.UnOp)
					if !ok || u.Op != token.NOT {
						break
					}
					neg = !neg
					cond = resolve(u.X)
				}
				var truth bool
				if cb, ok := ConstBool(cond); ok {
					truth = cb
				} else {
					matched := false
					for _, m := range spec.Conds {
						if ev, ok := m(cond); ok {
							truth = ev(val)
							matched = true
							break
						}
					}
					if !matched {
						bad = append(bad, fmt.Sprintf("unrecognised condition %s at %s", CanonWith(cond, nil), pos(t.Cond.Pos())))
						return "", bad
					}
				}
				if neg {
					truth = !truth
				}
				if truth {
					prev, b = b, b.Succs[0]
				} else {
					prev, b = b, b.Succs[1]
				}
			}
		}
		if len(b.Instrs) == 0 {
			break
		}
	}
	return strings.Join(effects, ";") + " => <no exit within step bound>", bad
}

// ---- condition matchers ----

// CmpCond matches a comparison between a value satisfying x and one
// satisfying y; variable name holds sign(x-y).
func CmpCond(name string, x, y func(ssa.Value) bool) CondMatcher {
	return func(cond ssa.Value) (func(Val) bool, bool) {
		b, ok := cond.(*ssa.BinOp)
		if !ok {
			return nil, false
		}
		op := b.Op
		switch op {
		case token.EQL, token.NEQ, token.LSS, token.LEQ, token.GTR, token.GEQ:
		default:
			return nil, false
		}
		flip := false
		if x(b.X) && y(b.Y) {
		} else if x(b.Y) && y(b.X) {
			flip = true
		} else {
			return nil, false
		}
		return func(v Val) bool {
			s := v[name]
			if flip {
				s = -s
			}
			switch op {
			case token.EQL:
				return s == 0
			case token.NEQ:
				return s != 0
			case token.LSS:
				return s < 0
			case token.LEQ:
				return s <= 0
			case token.GTR:
				return s > 0
			default:
				return s >= 0
			}
		}, true
	}
}

// BoolCond matches a condition that is itself a value satisfying pred;
// variable name is its truth.
func BoolCond(name string, pred func(ssa.Value) bool) CondMatcher {
	return func(cond ssa.Value) (func(Val) bool, bool) {
		if b, ok := cond.(*ssa.BinOp); ok && (b.Op == token.EQL || b.Op == token.NEQ) {
			// x == true / x != false forms
			if cb, isc := ConstBool(b.Y); isc && pred(b.X) {
				want := cb == (b.Op == token.EQL)
				return func(v Val) bool { return (v[name] == 1) == want }, true
			}
		}
		if !pred(Unwrap(cond)) && !pred(cond) {
			return nil, false
		}
		return func(v Val) bool { return v[name] == 1 }, true
	}
}

// NilCond matches x == nil / x != nil for x satisfying pred; the variable is
// 1 when x is nil.
func NilCond(name string, pred func(ssa.Value) bool) CondMatcher {
	return func(cond ssa.Value) (func(Val) bool, bool) {
		b, ok := cond.(*ssa.BinOp)
		if !ok || (b.Op != token.EQL && b.Op != token.NEQ) {
			return nil, false
		}
		var x ssa.Value
		if IsNilConst(b.Y) {
			x = b.X
		} else if IsNilConst(b.X) {
			x = b.Y
		} else {
			return nil, false
		}
		if !pred(x) && !pred(Unwrap(x)) {
			return nil, false
		}
		eq := b.Op == token.EQL
		return func(v Val) bool { return (v[name] == 1) == eq }, true
	}
}

// EqConstCond matches x == K / x != K where x satisfies pred and K is an
// integer or string constant; the variable holds x's value as an int (for
// strings: 0 = equal to the empty string, else index+1 in consts).
func EqConstCond(name string, pred func(ssa.Value) bool) CondMatcher {
	return func(cond ssa.Value) (func(Val) bool, bool) {
		b, ok := cond.(*ssa.BinOp)
		if !ok {
			return nil, false
		}
		var x, k ssa.Value
		flip := false
		if _, isc := Unwrap(b.Y).(*ssa.Const); isc && pred(b.X) {
			x, k = b.X, b.Y
		} else if _, isc := Unwrap(b.X).(*ssa.Const); isc && pred(b.Y) {
			x, k = b.Y, b.X
			flip = true
		} else {
			return nil, false
		}
		_ = x
		kv, ok := ConstInt(k)
		if !ok {
			return nil, false
		}
		op := b.Op
		return func(v Val) bool {
			a, c := int64(v[name]), kv
			if flip {
				a, c = c, a
			}
			switch op {
			case token.EQL:
				return a == c
			case token.NEQ:
				return a != c
			case token.LSS:
				return a < c
			case token.LEQ:
				return a <= c
			case token.GTR:
				return a > c
			case token.GEQ:
				return a >= c
			}
			return false
		}, true
	}
}

// Helpers to build predicates.

func IsParam(name string) func(ssa.Value) bool {
	return func(v ssa.Value) bool {
		p, ok := Unwrap(v).(*ssa.Parameter)
		return ok && p.Name() == name
	}
}

func IsFieldLoad(typ, field string) func(ssa.Value) bool {
	return func(v ssa.Value) bool { return LoadedField(v, typ, field) }
}

func IsCallTo(ids ...string) func(ssa.Value) bool {
	return func(v ssa.Value) bool {
		c, ok := Unwrap(v).(*ssa.Call)
		return ok && IsCall(c, ids...)
	}
}

func HasCall(ids ...string) func(ssa.Value) bool {
	return func(v ssa.Value) bool { return MentionsCall(v, ids...) }
}

func HasField(typ, field string) func(ssa.Value) bool {
	return func(v ssa.Value) bool { return MentionsField(v, typ, field) }
}

func HasParam(name string) func(ssa.Value) bool {
	return func(v ssa.Value) bool {
		return Mentions(v, func(x ssa.Value) bool {
			p, ok := x.(*ssa.Parameter)
			return ok && p.Name() == name
		})
	}
}

func IsConstInt(k int64) func(ssa.Value) bool {
	return func(v ssa.Value) bool {
		c, ok := ConstInt(v)
		return ok && c == k
	}
}

func Any(preds ...func(ssa.Value) bool) func(ssa.Value) bool {
	return func(v ssa.Value) bool {
		for _, p := range preds {
			if p(v) {
				return true
			}
		}
		return false
	}
}

func All(preds ...func(ssa.Value) bool) func(ssa.Value) bool {
	return func(v ssa.Value) bool {
		for _, p := range preds {
			if !p(v) {
				return false
			}
		}
		return true
	}
}

// HasGlobal matches an expression tree that reads the package-level variable
// with the given name.
func HasGlobal(name string) func(ssa.Value) bool {
	return func(v ssa.Value) bool {
		return Mentions(v, func(x ssa.Value) bool {
			g, ok := x.(*ssa.Global)
			return ok && g.Name() == name
		})
	}
}
