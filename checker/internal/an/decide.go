package an

import (
	"fmt"
	"go/token"
	"go/types"
	"os"
	"sort"
	"strings"

	"golang.org/x/tools/go/ssa"
)

// Val is a valuation of the decision variables of a function.
type Val map[string]int

func (v Val) String() string {
	keys := make([]string, 0, len(v))
	for k := range v {
		keys = append(keys, k)
	}
	sort.Strings(keys)
	var parts []string
	for _, k := range keys {
		parts = append(parts, fmt.Sprintf("%s=%d", k, v[k]))
	}
	return strings.Join(parts, " ")
}

// Var is a decision variable with its finite domain.
type Var struct {
	Name   string
	Values []int
}

// Bool declares a 0/1 variable.
func Bool(name string) Var { return Var{name, []int{0, 1}} }

// Sign declares a variable standing for sign(x-y) ∈ {-1,0,1}.
func Sign(name string) Var { return Var{name, []int{-1, 0, 1}} }

// CondMatcher maps a branch condition (NOT already stripped, phi already
// resolved) to its truth under a valuation.
type CondMatcher func(cond ssa.Value) (eval func(Val) bool, ok bool)

// DecideSpec describes the extraction of a decision table from a function.
type DecideSpec struct {
	Fn       *ssa.Function
	Vars     []Var
	Conds    []CondMatcher
	Effect   func(ssa.Instruction) (string, bool)
	Ret      func(r *ssa.Return, resolve func(ssa.Value) ssa.Value) string
	Ref      func(Val) string
	Feasible func(Val) bool
	MaxSteps int
	// R, when set, is bound to the path's phi resolution during each
	// interpretation so that matchers can resolve operands.
	R *Resolver
	// NoStep disables stepping into private helpers (see StepPolicy).
	NoStep bool
	// Step, when set, names further same-package helpers the interpreter may
	// step into for this decision (in addition to StepPolicy), e.g. a small
	// helper shared by sibling methods.
	Step func(*ssa.Function) bool
	// opaque: helpers the second view found it must not step into (set by Decide)
	opaque map[*ssa.Function]bool
	// needed: helpers whose results the first view met in a condition it could
	// not name (set by Decide); shared helpers are stepped into only when needed
	needed map[*ssa.Function]bool
	// funcArgs: third view — step through function values (set by Decide)
	funcArgs bool
}

// undecidedIn collects, during one decideOnce, the stepped-into helpers in
// which an unrecognised condition was met.
var undecidedIn map[*ssa.Function]bool

// neededStep collects the helpers whose results appear in a condition the rule
// does not name: the shared helpers (DecideStepPolicy) among them are the ones
// the second view steps into.
var neededStep map[*ssa.Function]bool

// StepPolicy says which statically called same-package functions the
// interpreter steps into (their conditions and effects then count as the
// caller's own): set by the property layer to "unexported helpers with a single
// call site", i.e. code that an extract-function refactor moved out of the
// function under analysis.
var StepPolicy func(*ssa.Function) bool

// DecideStepPolicy widens StepPolicy for the interpreter's second view only:
// small private helpers shared by several functions.
var DecideStepPolicy func(*ssa.Function) bool

var curResolve func(ssa.Value) ssa.Value

// Rz resolves a value on the path currently being interpreted (phis, cells,
// parameters of helpers that were stepped into, results of such helpers); outside
// an interpretation it is the identity. Effect and condition matchers use it
// for operands they compare by identity.
func Rz(v ssa.Value) ssa.Value {
	if curResolve == nil || v == nil {
		return v
	}
	return curResolve(v)
}

// Resolver gives condition matchers access to the current path's phi
// resolution.
type Resolver struct{ f func(ssa.Value) ssa.Value }

// Resolve maps a phi to the value it has on the current path.
func (r *Resolver) Resolve(v ssa.Value) ssa.Value {
	if r == nil || r.f == nil {
		return v
	}
	return r.f(v)
}

// Row is one evaluated valuation.
type Row struct {
	Val  string `json:"valuation"`
	Got  string `json:"got"`
	Want string `json:"want"`
}

// DecideResult is the outcome of a decision-table comparison.
type DecideResult struct {
	Rows       int
	Mismatches []Row
	Undecided  []string // unrecognised conditions (canonical form + position)
	Sample     []Row
}

// Decide enumerates all valuations, interprets the function's CFG under each
// and compares the outcome (effects in order + return) with the reference.
//
// Two views of the same code are tried: private helpers opaque (their results
// are atoms the rule names), and — when that view is undecided or disagrees —
// single-call-site private helpers stepped into (code that an extract-function
// refactor moved out of the function). The function is accepted when one view
// agrees with the reference on every valuation.
func Decide(spec DecideSpec, pos func(token.Pos) string) DecideResult {
	opaque := spec
	opaque.NoStep = true
	neededStep = map[*ssa.Function]bool{}
	res := decideOnce(opaque, pos)
	spec.needed = neededStep
	neededStep = nil
	if (len(res.Undecided) > 0 || len(res.Mismatches) > 0) && StepPolicy != nil && !spec.NoStep {
		// step as deep as the policy allows; a helper in which a condition is met
		// that the rule does not name is one the rule treats as an atom (its result
		// is what the rule names): it is made opaque and the view is rebuilt
		spec.opaque = map[*ssa.Function]bool{}
		var res2 DecideResult
		for iter := 0; iter < 4; iter++ {
			undecidedIn = map[*ssa.Function]bool{}
			res2 = decideOnce(spec, pos)
			progressed := false
			for f := range undecidedIn {
				if !spec.opaque[f] {
					spec.opaque[f] = true
					progressed = true
				}
			}
			undecidedIn = nil
			if len(res2.Undecided) == 0 || !progressed {
				break
			}
		}
		if os.Getenv("RQCHECK_DEBUG_DECIDE") != "" {
			fmt.Fprintf(os.Stderr, "DECIDE %s: opaque undecided=%v mismatches=%d; stepped undecided=%v mismatches=%d\n", spec.Fn.Name(), res.Undecided, len(res.Mismatches), res2.Undecided, len(res2.Mismatches))
			if len(res2.Mismatches) > 0 {
				fmt.Fprintf(os.Stderr, "  first stepped mismatch: %+v\n", res2.Mismatches[0])
			}
		}
		if len(res2.Undecided) == 0 && len(res2.Mismatches) == 0 {
			return res2
		}
		// third view: the body runs inside a function value handed to a private
		// helper of the package (`x.withLock(func(){ … })`, `x.withLock(x.bodyLocked)`)
		spec3 := spec
		spec3.funcArgs = true
		res3 := decideOnce(spec3, pos)
		if os.Getenv("RQCHECK_DEBUG_DECIDE") != "" {
			fmt.Fprintf(os.Stderr, "DECIDE %s: third view undecided=%v mismatches=%d\n", spec.Fn.Name(), res3.Undecided, len(res3.Mismatches))
			if len(res3.Mismatches) > 0 {
				fmt.Fprintf(os.Stderr, "  first third-view mismatch: %+v\n", res3.Mismatches[0])
			}
		}
		if len(res3.Undecided) == 0 && len(res3.Mismatches) == 0 {
			return res3
		}
		if len(res.Undecided) > 0 && len(res2.Undecided) == 0 {
			return res2
		}
	}
	return res
}

func decideOnce(spec DecideSpec, pos func(token.Pos) string) DecideResult {
	var res DecideResult
	if spec.MaxSteps == 0 {
		spec.MaxSteps = 400
	}
	vals := []Val{{}}
	for _, v := range spec.Vars {
		var next []Val
		for _, base := range vals {
			for _, x := range v.Values {
				nv := Val{}
				for k, y := range base {
					nv[k] = y
				}
				nv[v.Name] = x
				next = append(next, nv)
			}
		}
		vals = next
	}
	und := map[string]bool{}
	for _, val := range vals {
		if spec.Feasible != nil && !spec.Feasible(val) {
			continue
		}
		got, bad := interpret(spec, val, pos)
		for _, b := range bad {
			if !und[b] {
				und[b] = true
				res.Undecided = append(res.Undecided, b)
			}
		}
		if len(bad) > 0 {
			continue
		}
		want := spec.Ref(val)
		res.Rows++
		row := Row{val.String(), got, want}
		match := false
		for _, alt := range strings.Split(want, " || ") {
			if got == alt {
				match = true
			}
		}
		if !match {
			res.Mismatches = append(res.Mismatches, row)
		} else if len(res.Sample) < 4 {
			res.Sample = append(res.Sample, row)
		}
	}
	return res
}

func interpret(spec DecideSpec, val Val, pos func(token.Pos) string) (string, []string) {
	fn := spec.Fn
	var effects []string
	var bad []string
	b := fn.Blocks[0]
	var prev *ssa.BasicBlock
	var resolve func(v ssa.Value) ssa.Value
	// phi resolution is with respect to the predecessor by which the phi's
	// block was entered on this path
	entered := map[*ssa.BasicBlock]*ssa.BasicBlock{}
	// values stored on this path to field/local cells (no aliasing assumed)
	mem := map[string]ssa.Value{}
	// interprocedural stepping: parameters of a helper that was stepped into are bound to the
	// (resolved) arguments, and a call that was stepped into stands for the values it returned
	bound := map[ssa.Value]ssa.Value{}
	results := map[*ssa.Call][]ssa.Value{}
	resolve = func(v ssa.Value) ssa.Value {
		for i := 0; i < 12; i++ {
			if bv, ok := bound[v]; ok {
				v = bv
				continue
			}
			if call, ok := v.(*ssa.Call); ok {
				if rs, ok := results[call]; ok && len(rs) == 1 {
					v = rs[0]
					continue
				}
				return v
			}
			if ex, ok := v.(*ssa.Extract); ok {
				if call, ok := ex.Tuple.(*ssa.Call); ok {
					if rs, ok := results[call]; ok && ex.Index < len(rs) {
						v = rs[ex.Index]
						continue
					}
				}
				return v
			}
			if u, isLoad := v.(*ssa.UnOp); isLoad && u.Op == token.MUL {
				switch u.X.(type) {
				case *ssa.FieldAddr, *ssa.Alloc:
					if sv, ok := mem[cellNameR(u.X, resolve)]; ok {
						v = sv
						continue
					}
				case *ssa.FreeVar:
					// a load through a captured cell (third view)
					if cell, ok := bound[u.X]; ok {
						if sv, ok := mem[cellNameR(cell, resolve)]; ok {
							v = sv
							continue
						}
					}
				}
				return v
			}
			p, ok := v.(*ssa.Phi)
			if !ok {
				return v
			}
			pb := p.Block()
			pr := entered[pb]
			if pr == nil {
				return v
			}
			found := false
			for k, pp := range pb.Preds {
				if pp == pr {
					v = p.Edges[k]
					found = true
					break
				}
			}
			if !found {
				return v
			}
		}
		return v
	}
	if spec.R != nil {
		spec.R.f = resolve
	}
	curResolve = resolve
	defer func() { curResolve = nil }()
	evalBool := func(v ssa.Value) (string, bool) {
		v = resolve(v)
		neg := false
		for {
			u, ok := v.(*ssa.UnOp)
			if !ok || u.Op != token.NOT {
				break
			}
			neg = !neg
			v = resolve(u.X)
		}
		if cb, ok := ConstBool(v); ok {
			if cb != neg {
				return "true", true
			}
			return "false", true
		}
		for _, m := range spec.Conds {
			if ev, ok := m(v); ok {
				if ev(val) != neg {
					return "true", true
				}
				return "false", true
			}
		}
		return "", false
	}
	// frames: the function under analysis and the private helpers stepped into
	type frame struct {
		fn     *ssa.Function
		b      *ssa.BasicBlock
		prev   *ssa.BasicBlock
		idx    int
		call   *ssa.Call
		visits map[*ssa.BasicBlock]int
	}
	stack := []*frame{{fn: fn, b: b, visits: map[*ssa.BasicBlock]int{}}}
	_ = prev
	// third view only (spec.funcArgs): a call through a function value that is, on
	// this path, a closure (or a bound method) built by a function on the stack —
	// the `withLock(func(){ … })` shape. The closure's free variables are bound to
	// what the closure captured.
	stepThroughValue := func(call *ssa.Call) *ssa.Function {
		if !spec.funcArgs || spec.NoStep || len(stack) > 5 || call.Call.IsInvoke() || call.Call.StaticCallee() != nil {
			return nil
		}
		mc, ok := resolve(call.Call.Value).(*ssa.MakeClosure)
		if !ok {
			return nil
		}
		g, ok := mc.Fn.(*ssa.Function)
		if !ok || len(g.Blocks) == 0 || len(g.FreeVars) != len(mc.Bindings) {
			return nil
		}
		for _, fr := range stack {
			if fr.fn == g {
				return nil
			}
		}
		for i, fv := range g.FreeVars {
			bound[fv] = resolve(mc.Bindings[i])
		}
		return g
	}
	stepInto := func(call *ssa.Call) *ssa.Function {
		maxDepth := 2
		if spec.funcArgs {
			maxDepth = 5
		}
		if spec.NoStep || len(stack) > maxDepth {
			return nil
		}
		g := call.Call.StaticCallee()
		if spec.funcArgs && g != nil && !call.Call.IsInvoke() && len(g.Blocks) > 0 && !spec.opaque[g] {
			// a private function of the package that is handed a function value, or the
			// method behind a bound-method value that was stepped through
			private := g.Object() != nil && !g.Object().Exported() && fn.Pkg != nil && g.Object().Pkg() == fn.Pkg.Pkg
			takesFunc := false
			for _, a := range call.Call.Args {
				if _, isSig := a.Type().Underlying().(*types.Signature); isSig {
					takesFunc = true
				}
			}
			inWrapper := strings.Contains(stack[len(stack)-1].fn.Synthetic, "bound method wrapper")
			onStack := false
			for _, fr := range stack {
				if fr.fn == g {
					onStack = true
				}
			}
			named := false
			if spec.Effect != nil {
				_, named = spec.Effect(call)
			}
			if private && (takesFunc || inWrapper) && !onStack && !named {
				return g
			}
		}
		if g == nil || call.Call.IsInvoke() || len(g.Blocks) == 0 || g.Pkg == nil || fn.Pkg == nil || g.Pkg != fn.Pkg {
			return nil
		}
		if _, isMC := call.Call.Value.(*ssa.MakeClosure); isMC {
			return nil
		}
		if spec.opaque[g] {
			return nil
		}
		// a call the rule itself names as an effect is an atom of the decision
		if spec.Effect != nil {
			if _, named := spec.Effect(call); named {
				return nil
			}
		}
		for _, fr := range stack {
			if fr.fn == g {
				return nil
			}
		}
		if (StepPolicy == nil || !StepPolicy(g)) && (DecideStepPolicy == nil || !spec.needed[g] || !DecideStepPolicy(g)) && (spec.Step == nil || !spec.Step(g)) {
			if os.Getenv("RQCHECK_DEBUG_DECIDE") != "" {
				fmt.Fprintf(os.Stderr, "  not stepping into %s (policy)\n", g.Name())
			}
			return nil
		}
		return g
	}
	for step := 0; step < spec.MaxSteps*4; step++ {
		fr := stack[len(stack)-1]
		if fr.idx == 0 {
			fr.visits[fr.b]++
			if fr.visits[fr.b] > 1 {
				// under a fixed valuation a revisit repeats forever
				return strings.Join(effects, ";") + " => loop", bad
			}
			entered[fr.b] = fr.prev
		}
		if fr.idx >= len(fr.b.Instrs) {
			break
		}
		{
			in := fr.b.Instrs[fr.idx]
			fr.idx++
			b = fr.b
			if spec.Effect != nil {
				if lbl, ok := spec.Effect(in); ok {
					effects = append(effects, lbl)
				}
			}
			switch t := in.(type) {
			case *ssa.Call:
				if g := stepInto(t); g != nil {
					for i, p := range g.Params {
						if i < len(t.Call.Args) {
							bound[p] = resolve(t.Call.Args[i])
						}
					}
					stack = append(stack, &frame{fn: g, b: g.Blocks[0], call: t, visits: map[*ssa.BasicBlock]int{}})
				} else if g := stepThroughValue(t); g != nil {
					for i, p := range g.Params {
						if i < len(t.Call.Args) {
							bound[p] = resolve(t.Call.Args[i])
						}
					}
					stack = append(stack, &frame{fn: g, b: g.Blocks[0], call: t, visits: map[*ssa.BasicBlock]int{}})
				}
			case *ssa.Store:
				switch a := t.Addr.(type) {
				case *ssa.FieldAddr, *ssa.Alloc:
					mem[cellNameR(t.Addr, resolve)] = resolve(t.Val)
				case *ssa.FreeVar:
					// a captured cell of the enclosing function
					if cell, ok := bound[a]; ok {
						mem[cellNameR(cell, resolve)] = resolve(t.Val)
					}
				}
			case *ssa.Return:
				if len(stack) > 1 {
					// back to the caller: the call stands for what was returned on this path
					var rs []ssa.Value
					for _, r := range t.Results {
						rs = append(rs, resolve(r))
					}
					results[fr.call] = rs
					stack = stack[:len(stack)-1]
					continue
				}
				ret := ""
				if spec.Ret != nil {
					ret = spec.Ret(t, resolve)
				} else {
					var parts []string
					for _, r := range t.Results {
						if b, isB := r.Type().Underlying().(*types.Basic); isB && b.Kind() == types.Bool {
							if s, ok := evalBool(r); ok {
								parts = append(parts, s)
								continue
							}
						}
						parts = append(parts, CanonWith(resolve(r), func(p *ssa.Phi) ssa.Value {
							x := resolve(p)
							if x == ssa.Value(p) {
								return nil
							}
							return x
						}))
					}
					ret = strings.Join(parts, ",")
				}
				return strings.Join(effects, ";") + " => " + ret, bad
			case *ssa.Panic:
				return strings.Join(effects, ";") + " => panic", bad
			case *ssa.Jump:
				fr.prev, fr.b, fr.idx = fr.b, fr.b.Succs[0], 0
			case *ssa.If:
				cond := resolve(t.Cond)
				neg := false
				for {
					u, ok := cond.(*ssa.UnOp)
					if !ok || u.Op != token.NOT {
						break
					}
					neg = !neg
					cond = resolve(u.X)
				}
				// operands that stand for values returned by a helper that was stepped into are
				// replaced by those values, so that the matchers see what the helper computed
				if bo, isBO := cond.(*ssa.BinOp); isBO && len(results) > 0 {
					rx, ry := resolve(bo.X), resolve(bo.Y)
					if rx != bo.X || ry != bo.Y {
						cond = &ssa.BinOp{Op: bo.Op, X: rx, Y: ry}
					}
				}
				folded, foldedOK := false, false
				if bo, isBO := cond.(*ssa.BinOp); isBO && (bo.Op == token.EQL || bo.Op == token.NEQ) {
					xNil, yNil := IsNilConst(bo.X), IsNilConst(bo.Y)
					switch {
					case xNil && yNil:
						folded, foldedOK = bo.Op == token.EQL, true
					case yNil && definitelyError(bo.X), xNil && definitelyError(bo.Y):
						folded, foldedOK = bo.Op == token.NEQ, true
					}
				}
				var truth bool
				if foldedOK {
					truth = folded
				} else if cb, ok := ConstBool(cond); ok {
					truth = cb
				} else {
					matched := false
					for _, m := range spec.Conds {
						if ev, ok := m(cond); ok {
							truth = ev(val)
							matched = true
							break
						}
					}
					if !matched {
						bad = append(bad, fmt.Sprintf("unrecognised condition %s at %s", CanonWith(cond, nil), pos(t.Cond.Pos())))
						if fr.fn != spec.Fn && undecidedIn != nil {
							undecidedIn[fr.fn] = true
						}
						if neededStep != nil {
							Mentions(cond, func(x ssa.Value) bool {
								if call, isCall := x.(*ssa.Call); isCall {
									if g := call.Call.StaticCallee(); g != nil {
										neededStep[g] = true
									}
								}
								return false
							})
						}
						return "", bad
					}
				}
				if neg {
					truth = !truth
				}
				if truth {
					fr.prev, fr.b, fr.idx = fr.b, fr.b.Succs[0], 0
				} else {
					fr.prev, fr.b, fr.idx = fr.b, fr.b.Succs[1], 0
				}
			}
		}
	}
	return strings.Join(effects, ";") + " => <no exit within step bound>", bad
}

// ---- condition matchers ----

// CmpCond matches a comparison between a value satisfying x and one
// satisfying y; variable name holds sign(x-y).
func CmpCond(name string, x, y func(ssa.Value) bool) CondMatcher {
	return func(cond ssa.Value) (func(Val) bool, bool) {
		b, ok := cond.(*ssa.BinOp)
		if !ok {
			return nil, false
		}
		op := b.Op
		switch op {
		case token.EQL, token.NEQ, token.LSS, token.LEQ, token.GTR, token.GEQ:
		default:
			return nil, false
		}
		flip := false
		if x(b.X) && y(b.Y) {
		} else if x(b.Y) && y(b.X) {
			flip = true
		} else {
			return nil, false
		}
		return func(v Val) bool {
			s := v[name]
			if flip {
				s = -s
			}
			switch op {
			case token.EQL:
				return s == 0
			case token.NEQ:
				return s != 0
			case token.LSS:
				return s < 0
			case token.LEQ:
				return s <= 0
			case token.GTR:
				return s > 0
			default:
				return s >= 0
			}
		}, true
	}
}

// BoolCond matches a condition that is itself a value satisfying pred;
// variable name is its truth.
func BoolCond(name string, pred func(ssa.Value) bool) CondMatcher {
	return func(cond ssa.Value) (func(Val) bool, bool) {
		if b, ok := cond.(*ssa.BinOp); ok && (b.Op == token.EQL || b.Op == token.NEQ) {
			// x == true / x != false forms
			if cb, isc := ConstBool(b.Y); isc && pred(b.X) {
				want := cb == (b.Op == token.EQL)
				return func(v Val) bool { return (v[name] == 1) == want }, true
			}
		}
		if !pred(Unwrap(cond)) && !pred(cond) {
			return nil, false
		}
		return func(v Val) bool { return v[name] == 1 }, true
	}
}

// NilCond matches x == nil / x != nil for x satisfying pred; the variable is
// 1 when x is nil.
func NilCond(name string, pred func(ssa.Value) bool) CondMatcher {
	return func(cond ssa.Value) (func(Val) bool, bool) {
		b, ok := cond.(*ssa.BinOp)
		if !ok || (b.Op != token.EQL && b.Op != token.NEQ) {
			return nil, false
		}
		var x ssa.Value
		if IsNilConst(b.Y) {
			x = b.X
		} else if IsNilConst(b.X) {
			x = b.Y
		} else {
			return nil, false
		}
		if !pred(x) && !pred(Unwrap(x)) {
			// the value on the current path (a named result or a local read back from its cell)
			if rx := Rz(x); rx == x || (!pred(rx) && !pred(Unwrap(rx))) {
				return nil, false
			}
		}
		eq := b.Op == token.EQL
		return func(v Val) bool { return (v[name] == 1) == eq }, true
	}
}

// EqConstCond matches x == K / x != K where x satisfies pred and K is an
// integer or string constant; the variable holds x's value as an int (for
// strings: 0 = equal to the empty string, else index+1 in consts).
func EqConstCond(name string, pred func(ssa.Value) bool) CondMatcher {
	return func(cond ssa.Value) (func(Val) bool, bool) {
		b, ok := cond.(*ssa.BinOp)
		if !ok {
			return nil, false
		}
		var x, k ssa.Value
		flip := false
		if _, isc := Unwrap(b.Y).(*ssa.Const); isc && pred(b.X) {
			x, k = b.X, b.Y
		} else if _, isc := Unwrap(b.X).(*ssa.Const); isc && pred(b.Y) {
			x, k = b.Y, b.X
			flip = true
		} else {
			return nil, false
		}
		_ = x
		kv, ok := ConstInt(k)
		if !ok {
			return nil, false
		}
		op := b.Op
		return func(v Val) bool {
			a, c := int64(v[name]), kv
			if flip {
				a, c = c, a
			}
			switch op {
			case token.EQL:
				return a == c
			case token.NEQ:
				return a != c
			case token.LSS:
				return a < c
			case token.LEQ:
				return a <= c
			case token.GTR:
				return a > c
			case token.GEQ:
				return a >= c
			}
			return false
		}, true
	}
}

// Helpers to build predicates.

func IsParam(name string) func(ssa.Value) bool {
	return func(v ssa.Value) bool {
		p, ok := Unwrap(v).(*ssa.Parameter)
		return ok && p.Name() == name
	}
}

func IsFieldLoad(typ, field string) func(ssa.Value) bool {
	return func(v ssa.Value) bool { return LoadedField(v, typ, field) }
}

func IsCallTo(ids ...string) func(ssa.Value) bool {
	return func(v ssa.Value) bool {
		c, ok := Unwrap(v).(*ssa.Call)
		return ok && IsCall(c, ids...)
	}
}

func HasCall(ids ...string) func(ssa.Value) bool {
	return func(v ssa.Value) bool { return MentionsCall(v, ids...) }
}

func HasField(typ, field string) func(ssa.Value) bool {
	return func(v ssa.Value) bool { return MentionsField(v, typ, field) }
}

func HasParam(name string) func(ssa.Value) bool {
	return func(v ssa.Value) bool {
		return Mentions(v, func(x ssa.Value) bool {
			p, ok := x.(*ssa.Parameter)
			return ok && p.Name() == name
		})
	}
}

func IsConstInt(k int64) func(ssa.Value) bool {
	return func(v ssa.Value) bool {
		c, ok := ConstInt(v)
		return ok && c == k
	}
}

func Any(preds ...func(ssa.Value) bool) func(ssa.Value) bool {
	return func(v ssa.Value) bool {
		for _, p := range preds {
			if p(v) {
				return true
			}
		}
		return false
	}
}

func All(preds ...func(ssa.Value) bool) func(ssa.Value) bool {
	return func(v ssa.Value) bool {
		for _, p := range preds {
			if !p(v) {
				return false
			}
		}
		return true
	}
}

// HasGlobal matches an expression tree that reads the package-level variable
// with the given name.
func HasGlobal(name string) func(ssa.Value) bool {
	return func(v ssa.Value) bool {
		return Mentions(v, func(x ssa.Value) bool {
			g, ok := x.(*ssa.Global)
			return ok && g.Name() == name
		})
	}
}
