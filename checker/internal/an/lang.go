package an

import (
	"fmt"
	"regexp/syntax"
	"sort"
	"strconv"
	"strings"
)

// Lang is a regular language given by a compiled regexp program, interpreted
// with whole-string (anchored) semantics over the alphabet Sigma.
type Lang struct {
	prog *syntax.Prog
	src  string
}

// Sigma is the alphabet explored: ASCII plus two non-ASCII representatives.
// Order matters only for the readability of shortest witnesses.
var Sigma = func() []rune {
	var out []rune
	seen := map[rune]bool{}
	add := func(r rune) {
		if !seen[r] {
			seen[r] = true
			out = append(out, r)
		}
	}
	add(' ')
	for r := 'a'; r <= 'z'; r++ {
		add(r)
	}
	for r := '0'; r <= '9'; r++ {
		add(r)
	}
	for r := rune(33); r < 127; r++ {
		add(r)
	}
	for r := rune(0); r < 128; r++ {
		add(r)
	}
	add('é')
	add('K') // Kelvin sign folds to k/K
	return out
}()

// CompileLang compiles expr (Perl syntax, as package regexp) for anchored
// whole-string matching.
func CompileLang(expr string) (*Lang, error) {
	re, err := syntax.Parse(expr, syntax.Perl)
	if err != nil {
		return nil, err
	}
	prog, err := syntax.Compile(re.Simplify())
	if err != nil {
		return nil, err
	}
	return &Lang{prog, expr}, nil
}

// Search wraps a pattern used with MatchString (unanchored search) into the
// language of all strings that contain a match.
func Search(expr string) string { return `(?s:.*)(?:` + expr + `)(?s:.*)` }

// SearchAny is Search for "any of these patterns matches".
func SearchAny(exprs []string) string {
	var parts []string
	for _, e := range exprs {
		parts = append(parts, `(?:`+e+`)`)
	}
	return `(?s:.*)(?:` + strings.Join(parts, "|") + `)(?s:.*)`
}

// prev-rune classes for empty-width context
const (
	pcStart = iota
	pcNewline
	pcWord
	pcOther
)

func classOf(r rune) int {
	switch {
	case r == '\n':
		return pcNewline
	case r == '_' || (r >= '0' && r <= '9') || (r >= 'a' && r <= 'z') || (r >= 'A' && r <= 'Z'):
		return pcWord
	}
	return pcOther
}

func classRune(c int) rune {
	switch c {
	case pcStart:
		return -1
	case pcNewline:
		return '\n'
	case pcWord:
		return 'a'
	}
	return ' '
}

type dstate struct {
	pcs  []uint32 // raw pcs (before epsilon closure), sorted
	prev int
}

func (d dstate) key() string {
	b := make([]byte, 0, 4+len(d.pcs)*4)
	b = append(b, byte('0'+d.prev))
	for _, p := range d.pcs {
		b = append(b, ',')
		b = strconv.AppendUint(b, uint64(p), 36)
	}
	return string(b)
}

func (l *Lang) start() dstate { return dstate{[]uint32{uint32(l.prog.Start)}, pcStart} }

// closure follows epsilon instructions under the empty-width flags of the
// context (prev class, next rune; next = -1 at end of text).
func (l *Lang) closure(d dstate, next rune) []uint32 {
	flags := syntax.EmptyOpContext(classRune(d.prev), next)
	seen := make([]bool, len(l.prog.Inst))
	var out []uint32
	stack := append([]uint32(nil), d.pcs...)
	for len(stack) > 0 {
		pc := stack[len(stack)-1]
		stack = stack[:len(stack)-1]
		if seen[pc] {
			continue
		}
		seen[pc] = true
		in := &l.prog.Inst[pc]
		switch in.Op {
		case syntax.InstAlt, syntax.InstAltMatch:
			stack = append(stack, in.Out, in.Arg)
		case syntax.InstCapture, syntax.InstNop:
			stack = append(stack, in.Out)
		case syntax.InstEmptyWidth:
			if syntax.EmptyOp(in.Arg)&^flags == 0 {
				stack = append(stack, in.Out)
			}
		case syntax.InstFail:
		default:
			out = append(out, pc)
		}
	}
	return out
}

func (l *Lang) step(d dstate, r rune) dstate {
	var next []uint32
	seen := map[uint32]bool{}
	for _, pc := range l.closure(d, r) {
		in := &l.prog.Inst[pc]
		switch in.Op {
		case syntax.InstRune, syntax.InstRune1, syntax.InstRuneAny, syntax.InstRuneAnyNotNL:
			if in.MatchRune(r) && !seen[in.Out] {
				seen[in.Out] = true
				next = append(next, in.Out)
			}
		}
	}
	sort.Slice(next, func(i, j int) bool { return next[i] < next[j] })
	return dstate{next, classOf(r)}
}

func (l *Lang) accepts(d dstate) bool {
	for _, pc := range l.closure(d, -1) {
		if l.prog.Inst[pc].Op == syntax.InstMatch {
			return true
		}
	}
	return false
}

func (l *Lang) dead(d dstate) bool { return len(d.pcs) == 0 }

// Matches reports whether s is in the language (used by the self-test to
// cross-check the automaton against package regexp).
func (l *Lang) Matches(s string) bool {
	d := l.start()
	for _, r := range s {
		d = l.step(d, r)
		if l.dead(d) {
			return false
		}
	}
	return l.accepts(d)
}

// representatives partitions Sigma into classes of runes no instruction of
// the given programs distinguishes (and with the same context class), and
// returns one representative per class, in Sigma order.
func representatives(langs []*Lang) []rune {
	var reps []rune
	seen := map[string]bool{}
	for _, r := range Sigma {
		var sig []byte
		sig = append(sig, byte('0'+classOf(r)))
		for _, l := range langs {
			for i := range l.prog.Inst {
				in := &l.prog.Inst[i]
				switch in.Op {
				case syntax.InstRune, syntax.InstRune1, syntax.InstRuneAny, syntax.InstRuneAnyNotNL:
					if in.MatchRune(r) {
						sig = append(sig, '1')
					} else {
						sig = append(sig, '0')
					}
				}
			}
		}
		k := string(sig)
		if !seen[k] {
			seen[k] = true
			reps = append(reps, r)
		}
	}
	return reps
}

// NotIncluded searches for a shortest string in L(ref) \ L(guard). included
// is true when the inclusion holds (no witness). maxStates bounds the product
// exploration; exceeding it returns an error.
func NotIncluded(ref, guard *Lang, maxStates int) (witness string, included bool, states int, err error) {
	type prod struct{ r, g dstate }
	type node struct {
		p      prod
		parent int
		via    rune
	}
	reps := representatives([]*Lang{ref, guard})
	st := prod{ref.start(), guard.start()}
	nodes := []node{{st, -1, 0}}
	seen := map[string]bool{st.r.key() + "|" + st.g.key(): true}
	for i := 0; i < len(nodes); i++ {
		cur := nodes[i]
		if ref.accepts(cur.p.r) && !guard.accepts(cur.p.g) {
			var rs []rune
			for j := i; nodes[j].parent >= 0; j = nodes[j].parent {
				rs = append(rs, nodes[j].via)
			}
			for a, b := 0, len(rs)-1; a < b; a, b = a+1, b-1 {
				rs[a], rs[b] = rs[b], rs[a]
			}
			return string(rs), false, len(nodes), nil
		}
		for _, r := range reps {
			nr := ref.step(cur.p.r, r)
			if ref.dead(nr) {
				continue
			}
			np := prod{nr, guard.step(cur.p.g, r)}
			k := np.r.key() + "|" + np.g.key()
			if seen[k] {
				continue
			}
			seen[k] = true
			nodes = append(nodes, node{np, i, r})
			if len(nodes) > maxStates {
				return "", false, len(nodes), fmt.Errorf("product automaton exceeds %d states", maxStates)
			}
		}
	}
	return "", true, len(nodes), nil
}
