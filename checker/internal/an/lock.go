package an

import (
	"go/token"
	"sort"
	"strings"

	"golang.org/x/tools/go/ssa"
)

// GuardSpec says: every access to fields Fields of struct type TypeName must
// happen while mutex field Mutex of the same struct is held (exclusively for
// writes when the mutex is a RWMutex).
type GuardSpec struct {
	TypeName string
	Mutex    string
	Fields   []string
}

// GuardViolation is one unguarded access.
type GuardViolation struct {
	Fn    *ssa.Function
	Instr ssa.Instruction
	Field string
	Write bool
	Held  int // 0 none, 1 shared, 2 exclusive
}

const (
	lkNone = 0
	lkRead = 1
	lkExcl = 2
)

func isMutexOp(in ssa.Instruction, spec GuardSpec) (op string, ok bool) {
	call, isCall := in.(*ssa.Call) // defer Unlock releases at exit only: ignored
	if !isCall {
		return "", false
	}
	id := CalleeID(call)
	var name string
	switch id {
	case "sync.Mutex.Lock", "sync.RWMutex.Lock":
		name = "Lock"
	case "sync.Mutex.Unlock", "sync.RWMutex.Unlock":
		name = "Unlock"
	case "sync.RWMutex.RLock":
		name = "RLock"
	case "sync.RWMutex.RUnlock":
		name = "RUnlock"
	default:
		return "", false
	}
	args := call.Common().Args
	if len(args) == 0 {
		return "", false
	}
	t, f, _, ok2 := FieldOf(args[0])
	if !ok2 || t != spec.TypeName || f != spec.Mutex {
		return "", false
	}
	return name, true
}

// fieldAccess reports whether in accesses a guarded field, and whether it writes.
func fieldAccess(in ssa.Instruction, spec GuardSpec) (field string, write, ok bool) {
	var addr ssa.Value
	switch x := in.(type) {
	case *ssa.FieldAddr:
		addr = x
	case *ssa.Field:
		t, f, _, ok2 := FieldOf(x)
		if ok2 && t == spec.TypeName && contains(spec.Fields, f) {
			return f, false, true
		}
		return "", false, false
	default:
		return "", false, false
	}
	t, f, base, ok2 := FieldOf(addr)
	if !ok2 || t != spec.TypeName || !contains(spec.Fields, f) {
		return "", false, false
	}
	// a struct freshly allocated in this function is not shared yet
	if al, isAl := base.(*ssa.Alloc); isAl && al.Parent() == in.Parent() {
		return "", false, false
	}
	w := false
	if refs := addr.Referrers(); refs != nil {
		for _, r := range *refs {
			switch y := r.(type) {
			case *ssa.Store:
				if y.Addr == addr {
					w = true
				}
			case ssa.CallInstruction:
				// address passed to a call (atomic.AddInt64(&x.f), x.f.Add(..)): treat as write
				w = true
			case *ssa.MapUpdate:
				w = true
			}
		}
	}
	return f, w, true
}

func contains(a []string, s string) bool {
	for _, x := range a {
		if x == s {
			return true
		}
	}
	return false
}

// CheckGuard runs the must-hold analysis on fn with the given lock state at
// entry and returns the unguarded accesses.
func CheckGuard(fn *ssa.Function, spec GuardSpec, entry int) []GuardViolation {
	if len(fn.Blocks) == 0 {
		return nil
	}
	in := make([]int, len(fn.Blocks))
	out := make([]int, len(fn.Blocks))
	for i := range in {
		in[i], out[i] = -1, -1 // unknown (top)
	}
	in[0] = entry
	transfer := func(b *ssa.BasicBlock, st int) int {
		for _, instr := range b.Instrs {
			if op, ok := isMutexOp(instr, spec); ok {
				switch op {
				case "Lock":
					st = lkExcl
				case "RLock":
					st = lkRead
				default:
					st = lkNone
				}
			}
		}
		return st
	}
	changed := true
	for iter := 0; changed && iter < 100; iter++ {
		changed = false
		for _, b := range fn.Blocks {
			st := in[b.Index]
			if b.Index != 0 {
				st = -1
				for _, p := range b.Preds {
					if out[p.Index] < 0 {
						continue
					}
					if st < 0 || out[p.Index] < st {
						st = out[p.Index]
					}
				}
			}
			if st < 0 {
				continue
			}
			if st != in[b.Index] {
				in[b.Index] = st
				changed = true
			}
			o := transfer(b, st)
			if o != out[b.Index] {
				out[b.Index] = o
				changed = true
			}
		}
	}
	var vs []GuardViolation
	for _, b := range fn.Blocks {
		st := in[b.Index]
		if st < 0 {
			continue // unreachable
		}
		for _, instr := range b.Instrs {
			if op, ok := isMutexOp(instr, spec); ok {
				switch op {
				case "Lock":
					st = lkExcl
				case "RLock":
					st = lkRead
				default:
					st = lkNone
				}
				continue
			}
			if f, w, ok := fieldAccess(instr, spec); ok {
				need := lkRead
				if w {
					need = lkExcl
				}
				if st < need {
					vs = append(vs, GuardViolation{fn, instr, f, w, st})
				}
			}
		}
	}
	return vs
}

// HeldAt returns the lock state just before instruction target in fn.
func HeldAt(fn *ssa.Function, spec GuardSpec, entry int, target ssa.Instruction) int {
	// recompute block-in states (small functions; simplicity over speed)
	in := make([]int, len(fn.Blocks))
	out := make([]int, len(fn.Blocks))
	for i := range in {
		in[i], out[i] = -1, -1
	}
	step := func(st int, instr ssa.Instruction) int {
		if op, ok := isMutexOp(instr, spec); ok {
			switch op {
			case "Lock":
				return lkExcl
			case "RLock":
				return lkRead
			default:
				return lkNone
			}
		}
		return st
	}
	in[0] = entry
	changed := true
	for iter := 0; changed && iter < 100; iter++ {
		changed = false
		for _, b := range fn.Blocks {
			st := in[b.Index]
			if b.Index != 0 {
				st = -1
				for _, p := range b.Preds {
					if out[p.Index] >= 0 && (st < 0 || out[p.Index] < st) {
						st = out[p.Index]
					}
				}
			}
			if st < 0 {
				continue
			}
			if st != in[b.Index] {
				in[b.Index] = st
				changed = true
			}
			o := st
			for _, instr := range b.Instrs {
				o = step(o, instr)
			}
			if o != out[b.Index] {
				out[b.Index] = o
				changed = true
			}
		}
	}
	b := target.Block()
	st := in[b.Index]
	for _, instr := range b.Instrs {
		if instr == target {
			return st
		}
		st = step(st, instr)
	}
	return st
}

// MethodsOf lists the functions (including generic instances and closures)
// whose receiver's named type is typeName in package path pkgSuffix.
func MethodsOf(all map[*ssa.Function]bool, pkgSuffix, typeName string) []*ssa.Function {
	var out []*ssa.Function
	seenOrigin := map[string]bool{}
	// deterministic choice among the instances of a generic method: fully
	// instantiated bodies first (their callees are instantiated too), then by name
	cands := make([]*ssa.Function, 0, 64)
	for f := range all {
		cands = append(cands, f)
	}
	generic := func(f *ssa.Function) bool { return f.TypeParams().Len() > 0 && len(f.TypeArgs()) == 0 }
	sort.Slice(cands, func(i, j int) bool {
		if gi, gj := generic(cands[i]), generic(cands[j]); gi != gj {
			return !gi
		}
		return cands[i].String() < cands[j].String()
	})
	for _, f := range cands {
		if f.Signature.Recv() == nil || len(f.Blocks) == 0 || f.Synthetic != "" && !strings.Contains(f.Synthetic, "instance") {
			continue
		}
		rt := f.Signature.Recv().Type().String()
		if !strings.Contains(rt, pkgSuffix+"."+typeName) {
			continue
		}
		key := f.Name()
		if o := f.Origin(); o != nil {
			key = o.Name()
		}
		if seenOrigin[key] {
			continue
		}
		seenOrigin[key] = true
		out = append(out, f)
	}
	return out
}

var _ = token.NoPos
