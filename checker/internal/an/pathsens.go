package an

import (
	"go/constant"
	"go/token"
	"go/types"
	"sort"
	"strings"

	"golang.org/x/tools/go/ssa"
)

// UngatedPS is Ungated with a small amount of path sensitivity: it tracks
// (a) phi nodes whose incoming values are constants and (b) local memory
// cells (an Alloc of basic type, or a basic-typed field of a locally
// allocated struct) holding constants, for the phis and cells that occur in
// branch conditions, and prunes branch edges whose condition is decided by
// that knowledge. This recognises the flag idioms
//
//	ok := false; if …{ ok = true }; if !ok { return }
//	resp.Error = "unauthorized"; …; if resp.Error != "" { continue }
//
// Stores of non-constants make a cell unknown ("nonzero" is kept for strings
// assigned from a call, which is only used to decide != ""  when the stored
// value is a non-empty constant). A cell whose address escapes to a call is
// assumed not to be written by the callee (true for the marshal/log calls the
// idiom is used with); this is stated in the evidence assumptions.
func UngatedPS(spec CutSpec) []Hit {
	fn := spec.Fn
	if len(fn.Blocks) == 0 {
		return nil
	}
	rel := relevantKeys(fn)
	if len(rel.phis) == 0 && len(rel.cells) == 0 {
		return Ungated(spec)
	}
	type state struct {
		b     *ssa.BasicBlock
		start int
		env   map[string]string // key -> constant (exact string) ; absent = unknown
		path  []int
		from  *ssa.BasicBlock
	}
	enc := func(b *ssa.BasicBlock, env map[string]string) string {
		keys := make([]string, 0, len(env))
		for k := range env {
			keys = append(keys, k)
		}
		sort.Strings(keys)
		var sb strings.Builder
		sb.WriteString(itoa(b.Index))
		for _, k := range keys {
			sb.WriteString("|" + k + "=" + env[k])
		}
		return sb.String()
	}
	var hits []Hit
	hitSeen := map[ssa.Instruction]bool{}
	seen := map[string]bool{}
	var q []state
	if spec.Start != nil {
		q = append(q, state{spec.Start.Block(), InstrIndex(spec.Start) + 1, map[string]string{}, []int{spec.Start.Block().Index}, nil})
	} else if len(spec.StartBlocks) > 0 {
		for _, sb := range spec.StartBlocks {
			q = append(q, state{sb, 0, map[string]string{}, []int{sb.Index}, nil})
		}
	} else {
		q = append(q, state{fn.Blocks[0], 0, map[string]string{}, []int{0}, nil})
	}
	steps := 0
	for len(q) > 0 {
		st := q[0]
		q = q[1:]
		steps++
		if steps > 200000 {
			// state explosion: fall back to the path-insensitive answer (sound, less precise)
			return Ungated(spec)
		}
		env := map[string]string{}
		for k, v := range st.env {
			env[k] = v
		}
		// value knowledge local to this traversal of the block chain
		known := func(v ssa.Value) (string, bool) { return evalConst(v, env, rel) }
		blocked := false
		// phis first, all evaluated against the incoming env
		if st.start == 0 && st.from != nil {
			upd := map[string]string{}
			del := []string{}
			for _, in := range st.b.Instrs {
				p, ok := in.(*ssa.Phi)
				if !ok {
					break
				}
				if !rel.phis[p] {
					continue
				}
				k := "phi:" + p.Name()
				val := ""
				have := false
				for i, pr := range st.b.Preds {
					if pr == st.from {
						val, have = known(p.Edges[i])
						break
					}
				}
				if have {
					upd[k] = val
				} else {
					del = append(del, k)
				}
			}
			for _, k := range del {
				delete(env, k)
			}
			for k, v := range upd {
				env[k] = v
			}
		}
		var term ssa.Instruction
		for i := st.start; i < len(st.b.Instrs); i++ {
			in := st.b.Instrs[i]
			if spec.Sink != nil && spec.Sink(in) && !hitSeen[in] {
				hitSeen[in] = true
				hits = append(hits, Hit{in, append([]int(nil), st.path...)})
			}
			if spec.GateInstr != nil && spec.GateInstr(in) {
				blocked = true
				break
			}
			switch x := in.(type) {
			case *ssa.Alloc:
				for _, k := range rel.cellsOfAlloc[x] {
					env[k.key] = k.zero
				}
			case *ssa.Store:
				if k, ok := cellKey(x.Addr); ok && rel.cells[k] {
					if c, ok := known(x.Val); ok {
						env[k] = c
					} else if isNonEmptyStringish(x.Val) {
						delete(env, k)
					} else {
						delete(env, k)
					}
				}
			}
			term = in
		}
		if blocked {
			continue
		}
		succs := st.b.Succs
		if ifi, ok := term.(*ssa.If); ok {
			if c, ok := known(ifi.Cond); ok {
				if c == "true" {
					succs = succs[:1]
				} else if c == "false" {
					succs = succs[1:2]
				}
			}
		}
		for _, s := range succs {
			if spec.GateEdge[Edge{st.b, s}] {
				continue
			}
			key := enc(s, env)
			if seen[key] {
				continue
			}
			seen[key] = true
			q = append(q, state{s, 0, env, append(append([]int(nil), st.path...), s.Index), st.b})
		}
	}
	return hits
}

func itoa(i int) string {
	if i == 0 {
		return "0"
	}
	s := ""
	for i > 0 {
		s = string(rune('0'+i%10)) + s
		i /= 10
	}
	return s
}

type cellInfo struct{ key, zero string }

type relKeys struct {
	phis         map[*ssa.Phi]bool
	cells        map[string]bool
	cellsOfAlloc map[*ssa.Alloc][]cellInfo
}

func cellKey(addr ssa.Value) (string, bool) {
	switch a := addr.(type) {
	case *ssa.Alloc:
		if isBasic(a.Type().(*types.Pointer).Elem()) {
			return "cell:" + a.Name(), true
		}
	case *ssa.FieldAddr:
		if al, ok := a.X.(*ssa.Alloc); ok {
			_, f, _, ok2 := FieldOf(a)
			if ok2 {
				return "cell:" + al.Name() + "." + f, true
			}
		}
	}
	return "", false
}

func isBasic(t types.Type) bool {
	b, ok := t.Underlying().(*types.Basic)
	return ok && b.Info()&(types.IsBoolean|types.IsString|types.IsInteger) != 0
}

func zeroOf(t types.Type) string {
	b := t.Underlying().(*types.Basic)
	switch {
	case b.Info()&types.IsBoolean != 0:
		return "false"
	case b.Info()&types.IsString != 0:
		return `""`
	}
	return "0"
}

// relevantKeys finds the phis and cells that branch conditions depend on.
func relevantKeys(fn *ssa.Function) relKeys {
	r := relKeys{phis: map[*ssa.Phi]bool{}, cells: map[string]bool{}, cellsOfAlloc: map[*ssa.Alloc][]cellInfo{}}
	seen := map[ssa.Value]bool{}
	var walk func(v ssa.Value, depth int)
	walk = func(v ssa.Value, depth int) {
		if v == nil || seen[v] || depth > 6 {
			return
		}
		seen[v] = true
		switch x := v.(type) {
		case *ssa.Phi:
			hasConst := false
			for _, e := range x.Edges {
				if _, ok := e.(*ssa.Const); ok {
					hasConst = true
				}
			}
			if hasConst && isBasic(x.Type()) {
				r.phis[x] = true
				for _, e := range x.Edges {
					walk(e, depth+1)
				}
			}
		case *ssa.UnOp:
			if x.Op == token.MUL {
				if k, ok := cellKey(x.X); ok && isBasic(x.Type()) {
					r.cells[k] = true
					var al *ssa.Alloc
					switch a := x.X.(type) {
					case *ssa.Alloc:
						al = a
					case *ssa.FieldAddr:
						al = a.X.(*ssa.Alloc)
					}
					dup := false
					for _, c := range r.cellsOfAlloc[al] {
						if c.key == k {
							dup = true
						}
					}
					if !dup {
						r.cellsOfAlloc[al] = append(r.cellsOfAlloc[al], cellInfo{k, zeroOf(x.Type())})
					}
				}
				return
			}
			walk(x.X, depth+1)
		case *ssa.BinOp:
			walk(x.X, depth+1)
			walk(x.Y, depth+1)
		}
	}
	for _, b := range fn.Blocks {
		if len(b.Instrs) == 0 {
			continue
		}
		if ifi, ok := b.Instrs[len(b.Instrs)-1].(*ssa.If); ok {
			walk(ifi.Cond, 0)
		}
	}
	return r
}

func isNonEmptyStringish(v ssa.Value) bool { return false }

// evalConst evaluates v to a constant (printed exactly) under env.
func evalConst(v ssa.Value, env map[string]string, rel relKeys) (string, bool) {
	switch x := v.(type) {
	case *ssa.Const:
		if x.Value == nil {
			return "", false
		}
		if x.Value.Kind() == constant.Bool {
			if constant.BoolVal(x.Value) {
				return "true", true
			}
			return "false", true
		}
		return x.Value.ExactString(), true
	case *ssa.Phi:
		c, ok := env["phi:"+x.Name()]
		return c, ok
	case *ssa.UnOp:
		switch x.Op {
		case token.MUL:
			if k, ok := cellKey(x.X); ok {
				c, ok := env[k]
				return c, ok
			}
		case token.NOT:
			if c, ok := evalConst(x.X, env, rel); ok {
				if c == "true" {
					return "false", true
				}
				if c == "false" {
					return "true", true
				}
			}
		}
	case *ssa.BinOp:
		if x.Op == token.EQL || x.Op == token.NEQ {
			a, ok1 := evalConst(x.X, env, rel)
			b, ok2 := evalConst(x.Y, env, rel)
			if ok1 && ok2 {
				if (a == b) == (x.Op == token.EQL) {
					return "true", true
				}
				return "false", true
			}
		}
	case *ssa.ChangeType:
		return evalConst(x.X, env, rel)
	}
	return "", false
}

// Assume decides some branch conditions (NOT already stripped by the caller:
// the function receives the raw condition value).
type Assume func(cond ssa.Value) (truth, known bool)

// UngatedUnder is Ungated restricted to the paths consistent with assume:
// branch edges whose condition assume decides the other way are not taken.
// Conditions assume does not know are explored both ways, so an empty result
// means: on every path consistent with the assumptions, the gate is passed
// before the sink.
func UngatedUnder(spec CutSpec, assume Assume) []Hit {
	pruned := map[Edge]bool{}
	for e := range spec.GateEdge {
		pruned[e] = true
	}
	for _, b := range spec.Fn.Blocks {
		if len(b.Instrs) == 0 {
			continue
		}
		ifi, ok := b.Instrs[len(b.Instrs)-1].(*ssa.If)
		if !ok {
			continue
		}
		cond := ifi.Cond
		neg := false
		for {
			u, ok := cond.(*ssa.UnOp)
			if !ok || u.Op != token.NOT {
				break
			}
			neg = !neg
			cond = u.X
		}
		t, known := assume(cond)
		if !known {
			continue
		}
		if neg {
			t = !t
		}
		if t {
			pruned[Edge{b, b.Succs[1]}] = true
		} else {
			pruned[Edge{b, b.Succs[0]}] = true
		}
	}
	s2 := spec
	s2.GateEdge = pruned
	return Ungated(s2)
}
