package an

import (
	"fmt"
	"sort"
	"strings"

	"golang.org/x/tools/go/ssa"
)

// Abstract interpretation of a persisted file-system plan (snapshot/plan) over
// symbolic paths: used to decide, for every crash point between two
// operations, whether resuming the plan completes without error and reaches
// the same final state as an uninterrupted run.

// PathTerm is a symbolic path: a base atom plus components.
type PathTerm struct {
	Base  string
	Comps []string
}

func (p PathTerm) Key() string { return p.Base + "/" + strings.Join(p.Comps, "/") }

func (p PathTerm) Parent() (PathTerm, bool) {
	if len(p.Comps) == 0 {
		return PathTerm{}, false
	}
	return PathTerm{p.Base, append([]string(nil), p.Comps[:len(p.Comps)-1]...)}, true
}

func (p PathTerm) Under(q PathTerm) bool {
	if p.Base != q.Base || len(p.Comps) < len(q.Comps) {
		return false
	}
	for i := range q.Comps {
		if p.Comps[i] != q.Comps[i] {
			return false
		}
	}
	return true
}

// TermOf converts an SSA string value built from parameters, filepath.Join,
// string concatenation and helper calls into a PathTerm.
func TermOf(v ssa.Value) PathTerm {
	v = Unwrap(v)
	// a local captured by a closure lives in a cell: follow its single store
	if u, ok := v.(*ssa.UnOp); ok && u.Op.String() == "*" {
		if al, ok := u.X.(*ssa.Alloc); ok {
			var val ssa.Value
			n := 0
			for _, r := range *al.Referrers() {
				if st, ok := r.(*ssa.Store); ok && st.Addr == ssa.Value(al) {
					n++
					val = st.Val
				}
			}
			if n == 1 {
				return TermOf(val)
			}
		}
		if fv, ok := u.X.(*ssa.FreeVar); ok {
			// captured variable inside a closure: resolve through the enclosing function's binding
			if par := fv.Parent().Parent(); par != nil {
				for _, b := range par.Blocks {
					for _, in := range b.Instrs {
						if mc, ok := in.(*ssa.MakeClosure); ok && mc.Fn == ssa.Value(fv.Parent()) {
							for i, f := range fv.Parent().FreeVars {
								if f == fv && i < len(mc.Bindings) {
									if al, ok := mc.Bindings[i].(*ssa.Alloc); ok {
										for _, r := range *al.Referrers() {
											if st, ok := r.(*ssa.Store); ok && st.Addr == ssa.Value(al) {
												return TermOf(st.Val)
											}
										}
									}
								}
							}
						}
					}
				}
			}
		}
	}
	switch x := v.(type) {
	case *ssa.Call:
		id := CalleeID(x)
		switch {
		case id == "path/filepath.Join":
			elems := sliceValues(x.Common().Args[0])
			if len(elems) > 0 {
				t := TermOf(elems[0])
				for _, e := range elems[1:] {
					t.Comps = append(append([]string(nil), t.Comps...), CanonPos(e))
				}
				return t
			}
		case id == "path/filepath.Dir":
			t := TermOf(x.Common().Args[0])
			if p, ok := t.Parent(); ok {
				return p
			}
			return PathTerm{Base: "dir(" + t.Key() + ")"}
		case strings.HasSuffix(id, ".tmpName"):
			t := TermOf(x.Common().Args[0])
			return sibling(t, ".tmp")
		}
	case *ssa.BinOp:
		if x.Op.String() == "+" {
			t := TermOf(x.X)
			return sibling(t, "+"+CanonPos(x.Y))
		}
	}
	return PathTerm{Base: CanonPos(v)}
}

func sibling(t PathTerm, suffix string) PathTerm {
	if len(t.Comps) == 0 {
		return PathTerm{Base: t.Base + suffix}
	}
	c := append([]string(nil), t.Comps...)
	c[len(c)-1] += suffix
	return PathTerm{t.Base, c}
}

func sliceValues(v ssa.Value) []ssa.Value {
	sl, ok := v.(*ssa.Slice)
	if !ok {
		return nil
	}
	al, ok := sl.X.(*ssa.Alloc)
	if !ok {
		return nil
	}
	type kv struct {
		i int64
		v ssa.Value
	}
	var items []kv
	for _, r := range *al.Referrers() {
		ia, ok := r.(*ssa.IndexAddr)
		if !ok {
			continue
		}
		idx, ok := ConstInt(ia.Index)
		if !ok {
			continue
		}
		for _, rr := range *ia.Referrers() {
			if st, ok := rr.(*ssa.Store); ok && st.Addr == ia {
				items = append(items, kv{idx, st.Val})
			}
		}
	}
	sort.Slice(items, func(i, j int) bool { return items[i].i < items[j].i })
	var out []ssa.Value
	for _, it := range items {
		out = append(out, it.v)
	}
	return out
}

// PlanOp is one operation of a plan with symbolic paths.
type PlanOp struct {
	Kind     string // Rename, Remove, RemoveAll, Checkpoint, WriteMeta, MkdirAll, CopyFile, CalcCRC32, VerifyDB
	Src, Dst PathTerm
}

func (o PlanOp) String() string {
	switch o.Kind {
	case "Rename", "CopyFile", "CalcCRC32":
		return fmt.Sprintf("%s(%s → %s)", o.Kind, o.Src.Key(), o.Dst.Key())
	case "MkdirAll", "WriteMeta":
		return fmt.Sprintf("%s(%s)", o.Kind, o.Dst.Key())
	}
	return fmt.Sprintf("%s(%s)", o.Kind, o.Src.Key())
}

// FS is the abstract file system: existing paths and their kind.
type FS map[string]fsEntry

type fsEntry struct {
	t   PathTerm
	dir bool
}

func (f FS) clone() FS {
	g := FS{}
	for k, v := range f {
		g[k] = v
	}
	return g
}

func (f FS) Exists(p PathTerm) bool { _, ok := f[p.Key()]; return ok }

func (f FS) AddDir(p PathTerm)  { f[p.Key()] = fsEntry{p, true} }
func (f FS) AddFile(p PathTerm) { f[p.Key()] = fsEntry{p, false} }

func (f FS) nonEmptyDir(p PathTerm) bool {
	for _, e := range f {
		if e.t.Key() != p.Key() && e.t.Under(p) {
			return true
		}
	}
	return false
}

func (f FS) removeTree(p PathTerm) {
	for k, e := range f {
		if e.t.Under(p) {
			delete(f, k)
		}
	}
}

func (f FS) mkdirAll(p PathTerm) {
	for i := 0; i <= len(p.Comps); i++ {
		q := PathTerm{p.Base, append([]string(nil), p.Comps[:i]...)}
		if i == 0 && len(p.Comps) > 0 {
			// the base itself (a directory supplied by the caller) is created too
		}
		if !f.Exists(q) {
			f.AddDir(q)
		}
	}
}

func (f FS) parentExists(p PathTerm) bool {
	q, ok := p.Parent()
	if !ok {
		return true // the parent of a base atom is outside the model: assumed to exist
	}
	return f.Exists(q)
}

// Apply executes one operation with the executor's documented semantics; it
// returns an error string when the real executor would fail.
func (f FS) Apply(o PlanOp) string {
	switch o.Kind {
	case "MkdirAll":
		f.mkdirAll(o.Dst)
	case "WriteMeta":
		if !f.Exists(o.Dst) {
			return "" // idempotent: directory already moved away
		}
		m := PathTerm{o.Dst.Base, append(append([]string(nil), o.Dst.Comps...), "meta.json")}
		f.AddFile(m)
	case "CopyFile":
		if !f.Exists(o.Src) {
			if f.Exists(o.Dst) {
				return ""
			}
			return "copy: source " + o.Src.Key() + " and destination " + o.Dst.Key() + " both missing"
		}
		if !f.parentExists(o.Dst) {
			return "copy: directory of " + o.Dst.Key() + " does not exist"
		}
		f.AddFile(o.Dst)
	case "CalcCRC32":
		if !f.Exists(o.Src) {
			return "crc: data file " + o.Src.Key() + " does not exist"
		}
		f.AddFile(o.Dst)
	case "VerifyDB":
		if !f.Exists(o.Src) {
			return "verify: " + o.Src.Key() + " does not exist"
		}
	case "Remove":
		delete(f, o.Src.Key())
	case "RemoveAll":
		f.removeTree(o.Src)
	case "Rename":
		if !f.Exists(o.Src) {
			if f.Exists(o.Dst) {
				return ""
			}
			return "rename: source " + o.Src.Key() + " and destination " + o.Dst.Key() + " both missing"
		}
		if f.Exists(o.Dst) && f.nonEmptyDir(o.Dst) {
			return "rename: destination " + o.Dst.Key() + " exists and is not empty"
		}
		if !f.parentExists(o.Dst) {
			return "rename: directory of " + o.Dst.Key() + " does not exist"
		}
		// move the subtree
		moved := []fsEntry{}
		for k, e := range f {
			if e.t.Under(o.Src) {
				moved = append(moved, e)
				delete(f, k)
			}
		}
		f.removeTree(o.Dst)
		for _, e := range moved {
			rest := e.t.Comps[len(o.Src.Comps):]
			nt := PathTerm{o.Dst.Base, append(append([]string(nil), o.Dst.Comps...), rest...)}
			f[nt.Key()] = fsEntry{nt, e.dir}
		}
	case "Checkpoint":
		// folding WALs into the database: requires the database; consumes nothing modelled here
		if !f.Exists(o.Src) {
			return "checkpoint: database " + o.Src.Key() + " does not exist"
		}
	}
	return ""
}

func (f FS) Keys() []string {
	var k []string
	for x := range f {
		k = append(k, x)
	}
	sort.Strings(k)
	return k
}

// Resume models what the resume site does with a persisted plan.
type Resume struct {
	// GuardExists, when set, is a path whose existence selects the Short
	// branch instead of a full replay.
	GuardExists *PathTerm
	Short       []PlanOp
}

// CrashResult is the outcome of one crash point.
type CrashResult struct {
	After int    // operations completed before the crash
	Err   string // "" when the resume completes and reaches the clean final state
}

// CheckReplay2 explores every pair of crash points: the first run crashes
// after k operations, the resumed run crashes after j operations of whatever
// sequence the resume site chose, and a final resume must complete and reach
// the clean final state. After is reported as k*1000+j.
func CheckReplay2(initial FS, ops []PlanOp, resume Resume) []CrashResult {
	clean := initial.clone()
	for _, o := range ops {
		if e := clean.Apply(o); e != "" {
			return []CrashResult{{After: -1, Err: "uninterrupted run fails in the model at " + o.String() + ": " + e}}
		}
	}
	want := strings.Join(clean.Keys(), "\n")
	choose := func(st FS) []PlanOp {
		if resume.GuardExists != nil && st.Exists(*resume.GuardExists) {
			return resume.Short
		}
		return ops
	}
	var out []CrashResult
	for k := 0; k <= len(ops); k++ {
		st1 := initial.clone()
		for _, o := range ops[:k] {
			st1.Apply(o)
		}
		seq1 := choose(st1)
		for j := 0; j <= len(seq1); j++ {
			st := st1.clone()
			res := CrashResult{After: k*1000 + j}
			failed := false
			for _, o := range seq1[:j] {
				if e := st.Apply(o); e != "" {
					// the resumed run already fails here: reported by the single-crash exploration
					failed = true
					break
				}
			}
			if failed {
				continue
			}
			for _, o := range choose(st) {
				if e := st.Apply(o); e != "" {
					res.Err = "second resume fails at " + o.String() + ": " + e
					break
				}
			}
			if res.Err == "" {
				if got := strings.Join(st.Keys(), "\n"); got != want {
					res.Err = "second resume completes but the final state differs from an uninterrupted run: have {" + strings.Join(st.Keys(), ", ") + "}"
				}
			}
			out = append(out, res)
		}
	}
	return out
}

// CheckReplay explores every crash point of the plan.
func CheckReplay(initial FS, ops []PlanOp, resume Resume) []CrashResult {
	clean := initial.clone()
	for _, o := range ops {
		if e := clean.Apply(o); e != "" {
			return []CrashResult{{After: -1, Err: "uninterrupted run fails in the model at " + o.String() + ": " + e}}
		}
	}
	want := strings.Join(clean.Keys(), "\n")
	var out []CrashResult
	for k := 0; k <= len(ops); k++ {
		st := initial.clone()
		for _, o := range ops[:k] {
			st.Apply(o)
		}
		res := CrashResult{After: k}
		seq := ops
		if resume.GuardExists != nil && st.Exists(*resume.GuardExists) {
			seq = resume.Short
		}
		for _, o := range seq {
			if e := st.Apply(o); e != "" {
				res.Err = "resume fails at " + o.String() + ": " + e
				break
			}
		}
		if res.Err == "" {
			if got := strings.Join(st.Keys(), "\n"); got != want {
				res.Err = "resume completes but the final state differs from an uninterrupted run: have {" + strings.Join(st.Keys(), ", ") + "}, want {" + strings.Join(clean.Keys(), ", ") + "}"
			}
		}
		out = append(out, res)
	}
	return out
}
