package an

import (
	"fmt"
	"sort"
	"strings"
)

// Abstract model of the snapshot store directory for the reap (consolidation)
// plan: paths are concrete strings, database files carry the ordered list of
// WAL segments folded into them, checksum sidecars carry the content they
// were computed from. Operations mirror plan.Executor (the correspondence is
// established by the decision tables of C07.e) and are executed in micro
// steps so that a crash can be placed between any two file-system effects,
// including inside the multi-WAL checkpoint and inside a directory removal.

type RFile struct {
	Dir     bool
	Content []string
}

type RFS map[string]*RFile

func (f RFS) Clone() RFS {
	g := RFS{}
	for k, v := range f {
		g[k] = &RFile{Dir: v.Dir, Content: append([]string(nil), v.Content...)}
	}
	return g
}

func (f RFS) Exists(p string) bool { _, ok := f[p]; return ok }

func (f RFS) children(p string) []string {
	var out []string
	for k := range f {
		if strings.HasPrefix(k, p+"/") {
			out = append(out, k)
		}
	}
	// deepest first so that a directory is removed after its entries
	sort.Slice(out, func(i, j int) bool {
		if strings.Count(out[i], "/") != strings.Count(out[j], "/") {
			return strings.Count(out[i], "/") > strings.Count(out[j], "/")
		}
		return out[i] < out[j]
	})
	return out
}

func (f RFS) String() string {
	var ks []string
	for k, v := range f {
		s := k
		if !v.Dir {
			s += "=[" + strings.Join(v.Content, ",") + "]"
		}
		ks = append(ks, s)
	}
	sort.Strings(ks)
	return strings.Join(ks, " ")
}

// ROp is one plan operation with concrete paths.
type ROp struct {
	Kind string // Checkpoint, CalcCRC32, RemoveAll, Remove, WriteMeta, VerifyDB, Rename
	A, B string
	WALs []string
}

func (o ROp) String() string {
	switch o.Kind {
	case "Checkpoint":
		return fmt.Sprintf("Checkpoint(%s, %v)", o.A, o.WALs)
	case "Rename", "CalcCRC32":
		return fmt.Sprintf("%s(%s → %s)", o.Kind, o.A, o.B)
	}
	return fmt.Sprintf("%s(%s)", o.Kind, o.A)
}

// Budget counts the file-system effects still allowed before the crash.
type Budget struct {
	Left    int // < 0: unlimited
	Used    int
	Crashed bool
}

func (b *Budget) step() bool {
	if b.Left == 0 {
		b.Crashed = true
		return false
	}
	if b.Left > 0 {
		b.Left--
	}
	b.Used++
	return true
}

// Exec runs one operation with the executor's semantics. It returns an error
// text when the real executor would return an error; when the budget runs out
// it stops in the middle (b.Crashed).
func (f RFS) Exec(o ROp, b *Budget) string {
	switch o.Kind {
	case "Rename":
		if !f.Exists(o.A) {
			if f.Exists(o.B) {
				return ""
			}
			return "rename " + o.A + ": no such file and " + o.B + " does not exist"
		}
		if f.Exists(o.B) && len(f.children(o.B)) > 0 {
			return "rename " + o.A + " → " + o.B + ": destination exists and is not empty"
		}
		if !b.step() {
			return ""
		}
		moved := map[string]*RFile{}
		for k, v := range f {
			if k == o.A || strings.HasPrefix(k, o.A+"/") {
				moved[o.B+k[len(o.A):]] = v
				delete(f, k)
			}
		}
		for k, v := range moved {
			f[k] = v
		}
	case "Remove":
		if f.Exists(o.A) {
			if !b.step() {
				return ""
			}
			delete(f, o.A)
		}
	case "RemoveAll":
		for _, c := range f.children(o.A) {
			if !b.step() {
				return ""
			}
			delete(f, c)
		}
		if f.Exists(o.A) {
			if !b.step() {
				return ""
			}
			delete(f, o.A)
		}
	case "Checkpoint":
		walPath := o.A + "-wal"
		fold := func() string {
			db, ok := f[o.A]
			if !ok {
				return "checkpoint: database " + o.A + " does not exist"
			}
			if !b.step() {
				return ""
			}
			db.Content = append(db.Content, f[walPath].Content...)
			delete(f, walPath)
			return ""
		}
		if f.Exists(walPath) {
			if e := fold(); e != "" || b.Crashed {
				return e
			}
		}
		var existing []string
		for _, w := range o.WALs {
			if f.Exists(w) {
				existing = append(existing, w)
			}
		}
		if len(existing) == 0 {
			return ""
		}
		if !f.Exists(o.A) {
			return "checkpoint: database " + o.A + " does not exist"
		}
		for _, w := range existing {
			if !b.step() {
				return ""
			}
			f[walPath] = f[w]
			delete(f, w)
			if e := fold(); e != "" || b.Crashed {
				return e
			}
		}
	case "CalcCRC32":
		db, ok := f[o.A]
		if !ok {
			return "crc: " + o.A + " does not exist"
		}
		if !b.step() {
			return ""
		}
		f[o.B] = &RFile{Content: append([]string(nil), db.Content...)}
	case "WriteMeta":
		if !f.Exists(o.A) {
			return "" // the directory was already renamed away: nothing to write
		}
		if !b.step() {
			return ""
		}
		f[o.A+"/meta.json"] = &RFile{Content: []string{o.B}}
	case "VerifyDB":
		if !f.Exists(o.A) {
			return "verify: " + o.A + " does not exist"
		}
	default:
		return "unmodelled operation " + o.Kind
	}
	return ""
}

// LastOpDone mirrors plan.Plan.LastOpDone with plan.Checker for the operation
// kinds that end a reap plan.
func (f RFS) LastOpDone(ops []ROp) bool {
	if len(ops) == 0 {
		return true
	}
	o := ops[len(ops)-1]
	switch o.Kind {
	case "Rename":
		return !f.Exists(o.A) && f.Exists(o.B)
	case "Remove", "RemoveAll":
		return !f.Exists(o.A)
	case "Checkpoint":
		if f.Exists(o.A + "-wal") {
			return false
		}
		for _, w := range o.WALs {
			if f.Exists(w) {
				return false
			}
		}
		return true
	case "WriteMeta":
		m, ok := f[o.A+"/meta.json"]
		return ok && len(m.Content) == 1 && m.Content[0] == o.B
	case "CalcCRC32":
		return f.Exists(o.B)
	}
	return false
}

// RunPlan executes the operations in order until an error, the end or the crash.
func (f RFS) RunPlan(ops []ROp, b *Budget) string {
	for _, o := range ops {
		if e := f.Exec(o, b); e != "" {
			return o.String() + ": " + e
		}
		if b.Crashed {
			return ""
		}
	}
	return ""
}

// ReapCrash is one explored schedule that ends in a bad state.
type ReapCrash struct {
	First, Second int // effects completed before the first / second crash (-1: no second crash)
	Err           string
}

// ExploreReap crashes the plan after every number of file-system effects,
// resumes the way Store.check does (nothing if the last operation is done,
// otherwise the whole plan again), optionally crashes the resumed run after
// every number of effects and resumes once more, and compares the final state
// with spec. It returns the failing schedules and the number explored.
func ExploreReap(initial RFS, ops []ROp, spec func(RFS) string, double bool) ([]ReapCrash, int) {
	total := &Budget{Left: -1}
	clean := initial.Clone()
	if e := clean.RunPlan(ops, total); e != "" {
		return []ReapCrash{{First: -1, Second: -1, Err: "uninterrupted run: " + e}}, 1
	}
	if e := spec(clean); e != "" {
		return []ReapCrash{{First: -1, Second: -1, Err: "uninterrupted run ends in a wrong state: " + e}}, 1
	}
	var bad []ReapCrash
	n := 1
	resume := func(st RFS, b *Budget) string {
		if st.LastOpDone(ops) {
			return ""
		}
		return st.RunPlan(ops, b)
	}
	for k := 0; k <= total.Used; k++ {
		st := initial.Clone()
		b := &Budget{Left: k}
		if e := st.RunPlan(ops, b); e != "" {
			bad = append(bad, ReapCrash{k, -1, "first run fails before the crash: " + e})
			continue
		}
		// single crash
		s1 := st.Clone()
		n++
		if e := resume(s1, &Budget{Left: -1}); e != "" {
			bad = append(bad, ReapCrash{k, -1, "the next start fails: " + e})
		} else if e := spec(s1); e != "" {
			bad = append(bad, ReapCrash{k, -1, "the next start completes but " + e})
		}
		if !double {
			continue
		}
		probe := st.Clone()
		pb := &Budget{Left: -1}
		if resume(probe, pb) != "" {
			continue
		}
		for j := 0; j < pb.Used; j++ {
			s2 := st.Clone()
			b2 := &Budget{Left: j}
			if e := resume(s2, b2); e != "" {
				continue
			}
			n++
			if e := resume(s2, &Budget{Left: -1}); e != "" {
				bad = append(bad, ReapCrash{k, j, "the second restart fails: " + e})
			} else if e := spec(s2); e != "" {
				bad = append(bad, ReapCrash{k, j, "the second restart completes but " + e})
			}
		}
	}
	return bad, n
}
