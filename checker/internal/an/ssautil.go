// Package an holds the analysis primitives the property checks are built
// from: resolved-callee matching, cut (must-pass-through) checks on the SSA
// block graph, value-sense edges, call-graph reachability, lock sets,
// canonical printing of SSA values and decision-table extraction.
package an

import (
	"go/constant"
	"go/token"
	"go/types"
	"strings"

	"golang.org/x/tools/go/ssa"
)

const modPrefix = "github.com/rqlite/rqlite/v10/"

// FuncID names a function by resolved identity: "store.Store.Query",
// "os.Rename", "github.com/hashicorp/raft.Raft.Apply", "io.Writer.Write".
// Pointer-ness of the receiver is dropped; module prefix is trimmed.
func FuncID(f *types.Func) string {
	if f == nil {
		return ""
	}
	f = f.Origin()
	pkg := ""
	if f.Pkg() != nil {
		pkg = strings.TrimPrefix(f.Pkg().Path(), modPrefix)
		if f.Pkg().Path()+"/" == modPrefix {
			pkg = "."
		}
	}
	sig, _ := f.Type().(*types.Signature)
	if sig != nil && sig.Recv() != nil {
		t := sig.Recv().Type()
		if p, ok := t.(*types.Pointer); ok {
			t = p.Elem()
		}
		switch n := t.(type) {
		case *types.Named:
			return pkg + "." + n.Obj().Name() + "." + f.Name()
		case *types.Alias:
			return pkg + "." + n.Obj().Name() + "." + f.Name()
		default:
			// method of an unnamed interface (embedded literal); use the name only
			return pkg + ".?." + f.Name()
		}
	}
	return pkg + "." + f.Name()
}

// CalleeOf returns the resolved callee object of a call: the static callee, or
// the interface method for an invoke. nil for calls through a func value.
func CalleeOf(c ssa.CallInstruction) *types.Func {
	cc := c.Common()
	if cc.IsInvoke() {
		return cc.Method
	}
	if sc := cc.StaticCallee(); sc != nil {
		if o, ok := sc.Object().(*types.Func); ok {
			return o
		}
		// synthetic wrappers / instantiations
		if org := sc.Origin(); org != nil {
			if o, ok := org.Object().(*types.Func); ok {
				return o
			}
		}
	}
	return nil
}

// CalleeID is FuncID(CalleeOf(c)), "" when unresolved. Builtins are "builtin.<name>".
func CalleeID(c ssa.CallInstruction) string {
	if b, ok := c.Common().Value.(*ssa.Builtin); ok {
		return "builtin." + b.Name()
	}
	return FuncID(CalleeOf(c))
}

// IsCall reports whether instr is a call (call, defer or go) to one of ids.
func IsCall(instr ssa.Instruction, ids ...string) bool {
	c, ok := instr.(ssa.CallInstruction)
	if !ok {
		return false
	}
	id := CalleeID(c)
	if id == "" {
		return false
	}
	for _, want := range ids {
		if id == want {
			return true
		}
	}
	return false
}

// IsPlainCall is IsCall restricted to *ssa.Call (not defer/go).
func IsPlainCall(instr ssa.Instruction, ids ...string) bool {
	if _, ok := instr.(*ssa.Call); !ok {
		return false
	}
	return IsCall(instr, ids...)
}

// Instrs iterates over every instruction of fn (not of its closures).
func Instrs(fn *ssa.Function, f func(ssa.Instruction)) {
	for _, b := range fn.Blocks {
		for _, in := range b.Instrs {
			f(in)
		}
	}
}

// WithClosures returns fn and, transitively, its anonymous functions.
func WithClosures(fn *ssa.Function) []*ssa.Function {
	out := []*ssa.Function{fn}
	for _, a := range fn.AnonFuncs {
		out = append(out, WithClosures(a)...)
	}
	return out
}

// CallsTo lists the call instructions in fn (optionally its closures) whose
// callee is one of ids.
func CallsTo(fn *ssa.Function, closures bool, ids ...string) []ssa.CallInstruction {
	var out []ssa.CallInstruction
	fns := []*ssa.Function{fn}
	if closures {
		fns = WithClosures(fn)
	}
	for _, f := range fns {
		Instrs(f, func(in ssa.Instruction) {
			if IsCall(in, ids...) {
				out = append(out, in.(ssa.CallInstruction))
			}
		})
	}
	return out
}

// AllCalls lists every call instruction of fn.
func AllCalls(fn *ssa.Function, closures bool) []ssa.CallInstruction {
	var out []ssa.CallInstruction
	fns := []*ssa.Function{fn}
	if closures {
		fns = WithClosures(fn)
	}
	for _, f := range fns {
		Instrs(f, func(in ssa.Instruction) {
			if c, ok := in.(ssa.CallInstruction); ok {
				out = append(out, c)
			}
		})
	}
	return out
}

// Result returns the SSA value(s) standing for result #idx of a call: the
// call value itself for single results, else its Extract instructions.
func Result(c ssa.CallInstruction, idx int) []ssa.Value {
	v := c.Value()
	if v == nil {
		return nil
	}
	sig := c.Common().Signature()
	if sig.Results().Len() == 1 {
		if idx == 0 {
			return []ssa.Value{v}
		}
		return nil
	}
	var out []ssa.Value
	for _, r := range *v.Referrers() {
		if e, ok := r.(*ssa.Extract); ok && e.Index == idx {
			out = append(out, e)
		}
	}
	return out
}

// ErrResult returns the values standing for the last result when it is of
// type error.
func ErrResult(c ssa.CallInstruction) []ssa.Value {
	sig := c.Common().Signature()
	n := sig.Results().Len()
	if n == 0 {
		return nil
	}
	if !IsErrorType(sig.Results().At(n - 1).Type()) {
		return nil
	}
	return Result(c, n-1)
}

func IsErrorType(t types.Type) bool {
	n, ok := t.(*types.Named)
	return ok && n.Obj().Pkg() == nil && n.Obj().Name() == "error"
}

// InstrIndex returns the index of in within its block.
func InstrIndex(in ssa.Instruction) int {
	for i, x := range in.Block().Instrs {
		if x == in {
			return i
		}
	}
	return -1
}

// Dominates reports whether instruction a is executed on every path to b.
func Dominates(a, b ssa.Instruction) bool {
	if a.Parent() != b.Parent() {
		return false
	}
	if a.Block() == b.Block() {
		return InstrIndex(a) < InstrIndex(b)
	}
	return a.Block().Dominates(b.Block())
}

// Unwrap strips conversions that keep identity (ChangeType, MakeInterface,
// ChangeInterface, Convert between same-underlying types).
func Unwrap(v ssa.Value) ssa.Value {
	for {
		switch x := v.(type) {
		case *ssa.ChangeType:
			v = x.X
		case *ssa.MakeInterface:
			v = x.X
		case *ssa.ChangeInterface:
			v = x.X
		case *ssa.Convert:
			v = x.X
		default:
			return v
		}
	}
}

// ConstInt returns the integer value of a constant SSA value.
func ConstInt(v ssa.Value) (int64, bool) {
	c, ok := Unwrap(v).(*ssa.Const)
	if !ok || c.Value == nil {
		return 0, false
	}
	if c.Value.Kind() != constant.Int {
		return 0, false
	}
	return c.Int64(), true
}

// ConstString returns the string value of a constant SSA value.
func ConstString(v ssa.Value) (string, bool) {
	c, ok := Unwrap(v).(*ssa.Const)
	if !ok || c.Value == nil || c.Value.Kind() != constant.String {
		return "", false
	}
	return constant.StringVal(c.Value), true
}

// ConstBool returns the boolean value of a constant SSA value.
func ConstBool(v ssa.Value) (bool, bool) {
	c, ok := Unwrap(v).(*ssa.Const)
	if !ok || c.Value == nil || c.Value.Kind() != constant.Bool {
		return false, false
	}
	return constant.BoolVal(c.Value), true
}

// IsNilConst reports whether v is the nil constant.
func IsNilConst(v ssa.Value) bool {
	c, ok := v.(*ssa.Const)
	return ok && c.Value == nil
}

// FieldOf reports, for a FieldAddr or Field instruction, the struct type name
// and field name accessed ("Store", "raft").
func FieldOf(v ssa.Value) (typ, field string, base ssa.Value, ok bool) {
	switch x := v.(type) {
	case *ssa.FieldAddr:
		st := derefStruct(x.X.Type())
		if st == nil {
			return "", "", nil, false
		}
		return namedName(x.X.Type()), st.Field(x.Field).Name(), x.X, true
	case *ssa.Field:
		st := derefStruct(x.X.Type())
		if st == nil {
			return "", "", nil, false
		}
		return namedName(x.X.Type()), st.Field(x.Field).Name(), x.X, true
	}
	return "", "", nil, false
}

func derefStruct(t types.Type) *types.Struct {
	if p, ok := t.Underlying().(*types.Pointer); ok {
		t = p.Elem()
	}
	st, _ := t.Underlying().(*types.Struct)
	return st
}

func namedName(t types.Type) string {
	if p, ok := t.(*types.Pointer); ok {
		t = p.Elem()
	}
	if p, ok := t.Underlying().(*types.Pointer); ok {
		t = p.Elem()
	}
	if n, ok := t.(*types.Named); ok {
		return n.Obj().Name()
	}
	return ""
}

// LoadedField reports whether v is a load (or address) of field typ.field,
// through any base.
func LoadedField(v ssa.Value, typ, field string) bool {
	v = Unwrap(v)
	if u, ok := v.(*ssa.UnOp); ok && u.Op == token.MUL {
		v = u.X
	}
	t, f, _, ok := FieldOf(v)
	return ok && t == typ && f == field
}

// Mentions reports whether the expression tree of v (operands, transitively,
// within the function, not through phis more than once) contains a node
// satisfying pred.
func Mentions(v ssa.Value, pred func(ssa.Value) bool) bool {
	seen := map[ssa.Value]bool{}
	var walk func(ssa.Value) bool
	walk = func(x ssa.Value) bool {
		if x == nil || seen[x] {
			return false
		}
		seen[x] = true
		if pred(x) {
			return true
		}
		in, ok := x.(ssa.Instruction)
		if !ok {
			return false
		}
		for _, op := range in.Operands(nil) {
			if *op != nil && walk(*op) {
				return true
			}
		}
		return false
	}
	return walk(v)
}

// MentionsCall reports whether v's expression tree contains a call to one of ids.
func MentionsCall(v ssa.Value, ids ...string) bool {
	return Mentions(v, func(x ssa.Value) bool {
		c, ok := x.(*ssa.Call)
		return ok && IsCall(c, ids...)
	})
}

// MentionsField reports whether v's expression tree reads field typ.field.
func MentionsField(v ssa.Value, typ, field string) bool {
	return Mentions(v, func(x ssa.Value) bool {
		t, f, _, ok := FieldOf(x)
		return ok && t == typ && f == field
	})
}

// MentionsValue reports whether v's expression tree contains w.
func MentionsValue(v, w ssa.Value) bool {
	return Mentions(v, func(x ssa.Value) bool { return x == w })
}

// Param returns the parameter of fn with the given name, or nil.
func Param(fn *ssa.Function, name string) *ssa.Parameter {
	for _, p := range fn.Params {
		if p.Name() == name {
			return p
		}
	}
	return nil
}

// Returns lists the Return instructions of fn.
func Returns(fn *ssa.Function) []*ssa.Return {
	var out []*ssa.Return
	Instrs(fn, func(in ssa.Instruction) {
		if r, ok := in.(*ssa.Return); ok {
			// the synthetic return of the recover block (functions with defers)
			// is not a source-level exit
			if fn.Recover != nil && r.Block() == fn.Recover {
				return
			}
			out = append(out, r)
		}
	})
	return out
}
