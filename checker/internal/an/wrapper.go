package an

import (
	"golang.org/x/tools/go/ssa"
)

// MustDo reports whether every source-level exit of fn is preceded, on every
// path from entry, by an instruction satisfying pred — directly or inside a
// statically called function of the analysed module for which the same holds
// (depth levels). Exits that are provably error returns do not count when
// onlySuccess is set. It is how a gate survives being moved into a helper:
// a wrapper "does X" when all its paths do.
func MustDo(fn *ssa.Function, pred func(ssa.Instruction) bool, depth int, onlySuccess bool, inModule func(*ssa.Function) bool) bool {
	if fn == nil || len(fn.Blocks) == 0 {
		return false
	}
	lifted := Lift(pred, depth-1, inModule)
	exits := map[ssa.Instruction]bool{}
	if onlySuccess {
		for _, r := range SuccessReturns(fn) {
			exits[r] = true
		}
	} else {
		for _, r := range Returns(fn) {
			exits[r] = true
		}
	}
	if len(exits) == 0 {
		return false
	}
	h := Ungated(CutSpec{Fn: fn, GateInstr: lifted, NoLift: true, Sink: func(in ssa.Instruction) bool { return exits[in] }})
	return len(h) == 0
}

// Lift extends an instruction predicate through wrappers: an instruction
// satisfies the lifted predicate if it satisfies pred or is a static call
// (or defer) of a module function that MustDo pred on all its paths.
func Lift(pred func(ssa.Instruction) bool, depth int, inModule func(*ssa.Function) bool) func(ssa.Instruction) bool {
	memo := map[*ssa.Function]bool{}
	var lifted func(in ssa.Instruction) bool
	lifted = func(in ssa.Instruction) bool {
		if pred(in) {
			return true
		}
		if depth <= 0 {
			return false
		}
		ci, ok := in.(ssa.CallInstruction)
		if !ok {
			return false
		}
		if _, isGo := in.(*ssa.Go); isGo {
			return false
		}
		callee := ci.Common().StaticCallee()
		if callee == nil || len(callee.Blocks) == 0 || (inModule != nil && !inModule(callee)) {
			return false
		}
		if v, ok := memo[callee]; ok {
			return v
		}
		memo[callee] = false // recursion guard
		v := MustDo(callee, pred, depth, false, inModule)
		memo[callee] = v
		return v
	}
	return lifted
}

// MayDo reports whether some instruction of fn, or of a module function it
// statically calls (depth levels), satisfies pred. It is how a sink survives
// being moved into a helper.
func MayDo(fn *ssa.Function, pred func(ssa.Instruction) bool, depth int, inModule func(*ssa.Function) bool) bool {
	seen := map[*ssa.Function]bool{}
	var walk func(f *ssa.Function, d int) bool
	walk = func(f *ssa.Function, d int) bool {
		if f == nil || seen[f] || len(f.Blocks) == 0 {
			return false
		}
		seen[f] = true
		found := false
		Instrs(f, func(in ssa.Instruction) {
			if found {
				return
			}
			if pred(in) {
				found = true
				return
			}
			if d <= 0 {
				return
			}
			if ci, ok := in.(ssa.CallInstruction); ok {
				if callee := ci.Common().StaticCallee(); callee != nil && (inModule == nil || inModule(callee)) {
					if walk(callee, d-1) {
						found = true
					}
				}
			}
		})
		return found
	}
	return walk(fn, depth)
}

// DeferredCalleeID names what a defer runs: the callee itself, or — for
// `defer func() { x.M() }()` — the single call made by the function literal.
func DeferredCalleeID(d *ssa.Defer) string {
	if id := CalleeID(d); id != "" {
		if d.Call.StaticCallee() == nil || d.Call.StaticCallee().Synthetic != "" || len(d.Call.StaticCallee().Blocks) == 0 || !isLiteral(d.Call.StaticCallee()) {
			return id
		}
	}
	var lit *ssa.Function
	switch v := d.Call.Value.(type) {
	case *ssa.MakeClosure:
		lit, _ = v.Fn.(*ssa.Function)
	case *ssa.Function:
		if isLiteral(v) {
			lit = v
		}
	}
	if lit == nil {
		return CalleeID(d)
	}
	ids := []string{}
	Instrs(lit, func(in ssa.Instruction) {
		if c, ok := in.(*ssa.Call); ok {
			if _, isB := c.Call.Value.(*ssa.Builtin); !isB {
				ids = append(ids, CalleeID(c))
			}
		}
	})
	if len(ids) == 1 {
		return ids[0]
	}
	return ""
}

func isLiteral(f *ssa.Function) bool { return f.Parent() != nil }

// LiftE is Lift with an additional per-function set of excusing edges: a path
// of a wrapper that takes one of edgesOf(wrapper) counts as having done it
// (used for "does X unless there is nothing to do", e.g. a nil timer).
func LiftE(pred func(ssa.Instruction) bool, edgesOf func(*ssa.Function) map[Edge]bool, depth int, inModule func(*ssa.Function) bool) func(ssa.Instruction) bool {
	memo := map[*ssa.Function]bool{}
	var lifted func(in ssa.Instruction) bool
	var must func(fn *ssa.Function, d int) bool
	lifted = func(in ssa.Instruction) bool {
		if pred(in) {
			return true
		}
		ci, ok := in.(ssa.CallInstruction)
		if !ok {
			return false
		}
		if _, isGo := in.(*ssa.Go); isGo {
			return false
		}
		callee := ci.Common().StaticCallee()
		if callee == nil || len(callee.Blocks) == 0 || (inModule != nil && !inModule(callee)) {
			return false
		}
		if v, ok := memo[callee]; ok {
			return v
		}
		memo[callee] = false
		v := must(callee, depth)
		memo[callee] = v
		return v
	}
	must = func(fn *ssa.Function, d int) bool {
		if d <= 0 {
			return false
		}
		exits := map[ssa.Instruction]bool{}
		for _, r := range Returns(fn) {
			exits[r] = true
		}
		if len(exits) == 0 {
			return false
		}
		h := Ungated(CutSpec{Fn: fn, GateInstr: lifted, GateEdge: edgesOf(fn), NoLift: true, Sink: func(in ssa.Instruction) bool { return exits[in] }})
		return len(h) == 0
	}
	return lifted
}

// ModulePath is the import path prefix of the analysed module.
var ModulePath = "github.com/rqlite/rqlite/v10"

// InModuleFn reports whether fn belongs to the analysed module.
func InModuleFn(fn *ssa.Function) bool {
	if fn == nil {
		return false
	}
	if fn.Pkg == nil {
		if fn.Parent() != nil {
			return InModuleFn(fn.Parent())
		}
		if o := fn.Origin(); o != nil && o != fn {
			return InModuleFn(o)
		}
		return false
	}
	p := fn.Pkg.Pkg.Path()
	return len(p) >= len(ModulePath) && p[:len(ModulePath)] == ModulePath
}
