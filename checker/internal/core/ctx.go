package core

import (
	"encoding/json"
	"fmt"
	"os"
	"path/filepath"
	"sort"
	"strings"
	"time"

	"golang.org/x/tools/go/ssa"
)

// Verdict of one obligation.
type Verdict string

const (
	Discharged Verdict = "discharged"
	Violated   Verdict = "violated"
	Undecided  Verdict = "undecided"
)

// Obl is one obligation: an instance of a rule kind on a named construct.
type Obl struct {
	Prop    string  `json:"property"`
	Clause  string  `json:"clause"` // e.g. C13.a
	Rule    string  `json:"rule"`   // DOM, ORD, PAIR, WHO, GUARD, TABLE, DECIDE, CONST, LANG, TAINT, INIT
	Key     string  `json:"key"`    // rule + construct, never a line number
	Verdict Verdict `json:"verdict"`
	Pos     string  `json:"pos,omitempty"`
	Msg     string  `json:"msg,omitempty"`
	Witness any     `json:"witness,omitempty"`
	Known   bool    `json:"known_finding,omitempty"`
}

// Check is the verification of one property.
type Check struct {
	ID          string
	Title       string
	Explanation string   // clauses decided and rules applied
	NotCovered  []string // the part of the statement that is not decided
	NeedsCG     bool
	Run         func(c *Ctx)
	Imports     []Import // obligations shared with sibling properties
}

// Import names clauses of another property's check that this property also
// carries (an empty clause list means the whole check).
type Import struct {
	From    string
	Clauses []string
	Why     string
}

// Ctx collects the obligations of one property run.
type Ctx struct {
	P     *Program
	Check *Check
	Tier  string
	Obls  []*Obl
	Inst  map[string]int
	Floor map[string]int
	Funcs map[string]bool
	Sites int
	Notes []string
	// Imported: sibling properties whose obligations were added (registry imports)
	Imported map[string]bool
}

func NewCtx(p *Program, ch *Check, tier string) *Ctx {
	return &Ctx{P: p, Check: ch, Tier: tier, Inst: map[string]int{}, Floor: map[string]int{}, Funcs: map[string]bool{}}
}

func (c *Ctx) add(v Verdict, clause, rule, construct, pos, msg string, w any) *Obl {
	o := &Obl{Prop: c.Check.ID, Clause: clause, Rule: rule, Key: clause + "/" + rule + ":" + construct, Verdict: v, Pos: pos, Msg: msg, Witness: w}
	c.Obls = append(c.Obls, o)
	return o
}

// OK records a discharged obligation.
func (c *Ctx) OK(clause, rule, construct, pos, msg string) {
	c.add(Discharged, clause, rule, construct, pos, msg, nil)
}

// Bad records a violated obligation.
func (c *Ctx) Bad(clause, rule, construct, pos, msg string, witness any) {
	c.add(Violated, clause, rule, construct, pos, msg, witness)
}

// Unk records an undecided obligation (anchor missing, unrecognised shape).
func (c *Ctx) Unk(clause, rule, construct, pos, msg string) {
	c.add(Undecided, clause, rule, construct, pos, msg, nil)
}

// Result records OK or Bad.
func (c *Ctx) Result(ok bool, clause, rule, construct, pos, okMsg, badMsg string, witness any) {
	if ok {
		c.OK(clause, rule, construct, pos, okMsg)
	} else {
		c.Bad(clause, rule, construct, pos, badMsg, witness)
	}
}

// Count adds to an instance counter; Min sets its vacuity floor.
func (c *Ctx) Count(name string, n int) { c.Inst[name] += n }
func (c *Ctx) Min(name string, floor int) {
	c.Floor[name] = floor
	if _, ok := c.Inst[name]; !ok {
		c.Inst[name] = 0
	}
}

// Fn resolves a function and records it as analysed; a missing anchor is an
// undecided obligation.
func (c *Ctx) Fn(clause, pkg, name string) *ssa.Function {
	fn := c.P.Func(pkg, name)
	if fn == nil || len(fn.Blocks) == 0 {
		c.Unk(clause, "ANCHOR", pkg+"."+name, "", "anchor function not found (renamed or removed?): the rule must be re-anchored")
		return nil
	}
	c.Funcs[FuncName(fn)] = true
	return fn
}

// Touch records a function as analysed.
func (c *Ctx) Touch(fn *ssa.Function) {
	if fn != nil {
		c.Funcs[FuncName(fn)] = true
	}
}

func (c *Ctx) Note(format string, a ...any) { c.Notes = append(c.Notes, fmt.Sprintf(format, a...)) }

// ---- known findings ----

type Finding struct {
	Property string `json:"property"`
	Key      string `json:"key"`
	Status   string `json:"status"` // known | fixed
	Commit   string `json:"commit,omitempty"`
	What     string `json:"what"`
}

type FindingsFile struct {
	Findings []Finding `json:"findings"`
}

func LoadFindings(path string) (*FindingsFile, error) {
	b, err := os.ReadFile(path)
	if err != nil {
		if os.IsNotExist(err) {
			return &FindingsFile{}, nil
		}
		return nil, err
	}
	var f FindingsFile
	if err := json.Unmarshal(b, &f); err != nil {
		return nil, err
	}
	return &f, nil
}

// ---- finishing a run ----

// Finish applies floors, marks known findings, writes evidence and replay
// files, prints the result lines and returns the number of unlisted failures.
func (c *Ctx) Finish(verifDir string, ff *FindingsFile, wall float64, extra map[string]any) int {
	for name, floor := range c.Floor {
		got := c.Inst[name]
		if got < floor {
			c.Unk(c.Check.ID, "FLOOR", name, "", fmt.Sprintf("rule matched %d instance(s), fewer than the %d confirmed by hand: the rule would pass vacuously", got, floor))
		}
	}
	sort.SliceStable(c.Obls, func(i, j int) bool { return c.Obls[i].Key < c.Obls[j].Key })
	known := map[string]Finding{}
	for _, f := range ff.Findings {
		if (f.Property == c.Check.ID || c.Imported[f.Property]) && f.Status == "known" {
			known[f.Key] = f
		}
	}
	seenKnown := map[string]bool{}
	var fails []*Obl
	discharged := 0
	for _, o := range c.Obls {
		switch o.Verdict {
		case Discharged:
			discharged++
		case Violated:
			if f, ok := known[o.Key]; ok {
				o.Known = true
				if !seenKnown[o.Key] {
					fmt.Printf("KNOWN-FINDING: property=%s %s [%s at %s]\n", c.Check.ID, f.What, o.Key, o.Pos)
					seenKnown[o.Key] = true
				}
			} else {
				fails = append(fails, o)
			}
		default:
			fails = append(fails, o)
		}
	}
	replayDir := filepath.Join(verifDir, "evidence", "replay")
	os.MkdirAll(replayDir, 0o755)
	old, _ := filepath.Glob(filepath.Join(replayDir, c.Check.ID+"-*.json"))
	for _, f := range old {
		os.Remove(f)
	}
	for i, o := range fails {
		path := filepath.Join(replayDir, fmt.Sprintf("%s-%d.json", c.Check.ID, i+1))
		b, _ := json.MarshalIndent(o, "", " ")
		os.WriteFile(path, append(b, '\n'), 0o644)
		reason := string(o.Verdict)
		fmt.Printf("%s: %s %s: %s [%s]\n", o.Pos, reason, o.Key, o.Msg, c.Check.ID)
		fmt.Printf("VIOLATION property=%s replay=%s\n", c.Check.ID, path)
	}

	// evidence
	var samples []any
	perRule := map[string]int{}
	for _, o := range c.Obls {
		perRule[o.Rule]++
	}
	for i, o := range c.Obls {
		if i < 12 || o.Verdict != Discharged {
			samples = append(samples, o)
		}
	}
	fnames := make([]string, 0, len(c.Funcs))
	for f := range c.Funcs {
		fnames = append(fnames, f)
	}
	sort.Strings(fnames)
	inst := map[string]any{}
	for k, v := range c.Inst {
		inst[k] = map[string]int{"matched": v, "floor": c.Floor[k]}
	}
	cov := map[string]any{
		"explanation":         c.Check.Explanation,
		"obligations":         len(c.Obls),
		"discharged":          discharged,
		"known_findings":      len(seenKnown),
		"obligations_by_rule": perRule,
		"functions_analysed":  fnames,
		"functions_count":     len(fnames),
		"call_sites":          c.Sites,
		"instances":           inst,
		"samples":             samples,
		"packages_loaded":     len(c.P.Roots),
		"checker_cmd":         "bin/rqcheck -prop " + c.Check.ID + " -tier " + c.Tier,
		"trusted_base":        []string{"go/types", "go/ssa", "go/cfg", "x/tools VTA call graph (reflection and cgo callbacks are outside it)", "reference tables in DESIGN.md appendix A", "hashicorp/raft, go-sqlite3, SQLite behave as documented"},
		"exhaustive":          true,
		"notes":               c.Notes,
	}
	for k, v := range extra {
		cov[k] = v
	}
	assume := []string{"level other: structural necessary conditions decided on all paths of the current source; the behaviour itself is not executed"}
	for _, n := range c.Check.NotCovered {
		assume = append(assume, "not covered: "+n)
	}
	ev := map[string]any{
		"property_id": c.Check.ID,
		"tier":        c.Tier,
		"seed":        seedFromEnv(),
		"level":       "other",
		"coverage":    cov,
		"assumptions": assume,
		"wall_s":      wall,
		"violations":  len(fails),
		"generated":   time.Now().UTC().Format(time.RFC3339),
	}
	b, _ := json.MarshalIndent(ev, "", " ")
	os.WriteFile(filepath.Join(verifDir, "evidence", c.Check.ID+".json"), append(b, '\n'), 0o644)
	fmt.Printf("%s: %d obligations, %d discharged, %d known finding(s), %d failing; %d functions analysed; %.1fs\n",
		c.Check.ID, len(c.Obls), discharged, len(seenKnown), len(fails), len(fnames), wall)
	return len(fails)
}

func seedFromEnv() int {
	s := os.Getenv("VERIF_SEED")
	n := 0
	for _, ch := range s {
		if ch < '0' || ch > '9' {
			return 0
		}
		n = n*10 + int(ch-'0')
		if n > 1<<30 {
			break
		}
	}
	return n
}

// Short trims a module path prefix from any string.
func Short(s string) string { return strings.ReplaceAll(s, ModPath+"/", "") }
