// Package core loads /repo into typed syntax, SSA and a VTA call graph and
// carries the obligation bookkeeping shared by all property checks.
package core

import (
	"fmt"
	"go/ast"
	"go/token"
	"go/types"
	"os"
	"sort"
	"strings"
	"sync"
	"time"

	"golang.org/x/tools/go/callgraph"
	"golang.org/x/tools/go/callgraph/cha"
	"golang.org/x/tools/go/callgraph/vta"
	"golang.org/x/tools/go/packages"
	"golang.org/x/tools/go/ssa"
	"golang.org/x/tools/go/ssa/ssautil"
)

// ModPath is the module path of the analysed repository.
const ModPath = "github.com/rqlite/rqlite/v10"

// GoBin is the directory of the toolchain go/packages must find first.
const GoBin = "/opt/veriftools/go1.26.8/bin"

// Program is the loaded, type-checked and SSA-built repository.
type Program struct {
	Dir     string
	Fset    *token.FileSet
	Roots   []*packages.Package          // packages of the module
	ByPath  map[string]*packages.Package // every loaded package (deps included)
	SSA     *ssa.Program
	SSAPkg  map[string]*ssa.Package
	LoadS   float64
	cgOnce  sync.Once
	cg      *callgraph.Graph
	cgS     float64
	declMu  sync.Mutex
	declIdx map[*types.Func]*ast.FuncDecl
	allFns  map[*ssa.Function]bool
}

// LoadOpts selects the file set analysed.
type LoadOpts struct {
	Dir    string
	GOOS   string
	GOARCH string
	Tests  bool
	// MinRoots is the floor on module packages; fewer means the load is broken.
	MinRoots int
}

// Load loads ./... in opts.Dir.
func Load(opts LoadOpts) (*Program, error) {
	t0 := time.Now()
	// go/packages resolves the "go" binary through this process's PATH.
	if !strings.HasPrefix(os.Getenv("PATH"), GoBin+":") {
		os.Setenv("PATH", GoBin+":"+os.Getenv("PATH"))
	}
	env := []string{}
	for _, e := range os.Environ() {
		if strings.HasPrefix(e, "PATH=") || strings.HasPrefix(e, "GOWORK=") || strings.HasPrefix(e, "GOFLAGS=") ||
			strings.HasPrefix(e, "GOPROXY=") || strings.HasPrefix(e, "GOSUMDB=") || strings.HasPrefix(e, "GOTOOLCHAIN=") ||
			strings.HasPrefix(e, "GOOS=") || strings.HasPrefix(e, "GOARCH=") {
			continue
		}
		env = append(env, e)
	}
	env = append(env,
		"PATH="+GoBin+":"+os.Getenv("PATH"),
		"GOWORK=off", "GOFLAGS=-mod=mod", "GOPROXY=off", "GOSUMDB=off", "GOTOOLCHAIN=local",
		"CGO_ENABLED=1",
	)
	if opts.GOOS != "" {
		env = append(env, "GOOS="+opts.GOOS)
	}
	if opts.GOARCH != "" {
		env = append(env, "GOARCH="+opts.GOARCH)
	}
	if (opts.GOOS != "" && opts.GOOS != "linux") || (opts.GOARCH != "" && opts.GOARCH != "amd64") {
		// cross file sets are type-checked without cgo bodies
		env = append(env, "CGO_ENABLED=0")
	}
	cfg := &packages.Config{
		Mode:  packages.LoadAllSyntax,
		Dir:   opts.Dir,
		Env:   env,
		Tests: opts.Tests,
	}
	pkgs, err := packages.Load(cfg, "./...")
	if err != nil {
		return nil, fmt.Errorf("packages.Load: %w", err)
	}
	p := &Program{Dir: opts.Dir, ByPath: map[string]*packages.Package{}, SSAPkg: map[string]*ssa.Package{}}
	var errs []string
	packages.Visit(pkgs, nil, func(pk *packages.Package) {
		if _, dup := p.ByPath[pk.PkgPath]; !dup || !strings.Contains(pk.ID, "[") {
			p.ByPath[pk.PkgPath] = pk
		}
		if strings.HasPrefix(pk.PkgPath, ModPath) {
			for _, e := range pk.Errors {
				errs = append(errs, e.Error())
			}
		}
	})
	for _, pk := range pkgs {
		if strings.HasPrefix(pk.PkgPath, ModPath) && !strings.HasSuffix(pk.ID, ".test") && !strings.Contains(pk.ID, "[") {
			p.Roots = append(p.Roots, pk)
		}
	}
	if len(errs) > 0 {
		sort.Strings(errs)
		if len(errs) > 10 {
			errs = errs[:10]
		}
		return nil, fmt.Errorf("type/load errors in module packages: %s", strings.Join(errs, "; "))
	}
	if len(p.Roots) < opts.MinRoots {
		return nil, fmt.Errorf("loaded %d module packages, expected at least %d", len(p.Roots), opts.MinRoots)
	}
	if len(pkgs) > 0 {
		p.Fset = pkgs[0].Fset
	}
	prog, _ := ssautil.AllPackages(pkgs, ssa.InstantiateGenerics)
	prog.Build()
	p.SSA = prog
	for _, sp := range prog.AllPackages() {
		if sp != nil && sp.Pkg != nil {
			if _, ok := p.SSAPkg[sp.Pkg.Path()]; !ok {
				p.SSAPkg[sp.Pkg.Path()] = sp
			}
		}
	}
	p.LoadS = time.Since(t0).Seconds()
	return p, nil
}

// AllFunctions returns (cached) every function of the program.
func (p *Program) AllFunctions() map[*ssa.Function]bool {
	p.declMu.Lock()
	defer p.declMu.Unlock()
	if p.allFns == nil {
		p.allFns = ssautil.AllFunctions(p.SSA)
	}
	return p.allFns
}

// CallGraph builds (once) the VTA call graph seeded by CHA.
func (p *Program) CallGraph() *callgraph.Graph {
	p.cgOnce.Do(func() {
		t0 := time.Now()
		p.cg = vta.CallGraph(p.AllFunctions(), cha.CallGraph(p.SSA))
		p.cgS = time.Since(t0).Seconds()
	})
	return p.cg
}

// Pkg returns the module package with the given path relative to the module
// root ("store", "snapshot/plan") or nil.
func (p *Program) Pkg(rel string) *packages.Package {
	if rel == "" {
		return p.ByPath[ModPath]
	}
	if pk, ok := p.ByPath[ModPath+"/"+rel]; ok {
		return pk
	}
	return p.ByPath[rel]
}

// SPkg returns the SSA package for a module-relative or absolute path.
func (p *Program) SPkg(rel string) *ssa.Package {
	if sp, ok := p.SSAPkg[ModPath+"/"+rel]; ok {
		return sp
	}
	return p.SSAPkg[rel]
}

// Func resolves "pkg", "Name" or "pkg", "(*T).Method" / "(T).Method" /
// "T.Method" to an SSA function, or nil.
func (p *Program) Func(pkg, name string) *ssa.Function {
	sp := p.SPkg(pkg)
	if sp == nil {
		return nil
	}
	if !strings.Contains(name, ".") {
		return sp.Func(name)
	}
	// method
	n := strings.TrimPrefix(name, "(")
	ptr := strings.HasPrefix(n, "*")
	n = strings.TrimPrefix(n, "*")
	i := strings.Index(n, ".")
	tn := strings.TrimSuffix(n[:i], ")")
	mn := n[i+1:]
	obj := sp.Pkg.Scope().Lookup(tn)
	if obj == nil {
		return nil
	}
	named, ok := obj.Type().(*types.Named)
	if !ok {
		return nil
	}
	var recv types.Type = named
	if ptr {
		recv = types.NewPointer(named)
	}
	sel := p.SSA.MethodSets.MethodSet(recv).Lookup(sp.Pkg, mn)
	if sel == nil {
		sel = p.SSA.MethodSets.MethodSet(types.NewPointer(named)).Lookup(sp.Pkg, mn)
		if sel == nil {
			return nil
		}
	}
	if fn := p.SSA.MethodValue(sel); fn != nil {
		return fn
	}
	// methods of generic types: the generic body
	if fo, ok := sel.Obj().(*types.Func); ok {
		return p.SSA.FuncValue(fo)
	}
	return nil
}

// Decl returns the syntax of a source function.
func (p *Program) Decl(fn *ssa.Function) *ast.FuncDecl {
	if fn == nil {
		return nil
	}
	if d, ok := fn.Syntax().(*ast.FuncDecl); ok {
		return d
	}
	return nil
}

// Info returns the types.Info of the package holding fn.
func (p *Program) Info(fn *ssa.Function) *types.Info {
	if fn == nil || fn.Pkg == nil {
		return nil
	}
	if pk, ok := p.ByPath[fn.Pkg.Pkg.Path()]; ok {
		return pk.TypesInfo
	}
	return nil
}

// Pos renders a position relative to the repository root.
func (p *Program) Pos(pos token.Pos) string {
	if !pos.IsValid() {
		return "-"
	}
	ps := p.Fset.Position(pos)
	f := ps.Filename
	if strings.HasPrefix(f, p.Dir+"/") {
		f = f[len(p.Dir)+1:]
	} else if i := strings.Index(f, "/pkg/mod/"); i >= 0 {
		f = f[i+len("/pkg/mod/"):]
	}
	return fmt.Sprintf("%s:%d", f, ps.Line)
}

// InModule reports whether fn belongs to the analysed module.
func InModule(fn *ssa.Function) bool {
	if fn == nil {
		return false
	}
	pk := fn.Pkg
	if pk == nil && fn.Parent() != nil {
		return InModule(fn.Parent())
	}
	if pk == nil {
		if o := fn.Origin(); o != nil && o != fn {
			return InModule(o)
		}
		return false
	}
	return strings.HasPrefix(pk.Pkg.Path(), ModPath)
}

// FuncName is a stable printable name: pkgrel.(*T).M or pkgrel.F, closures as F$1.
func FuncName(fn *ssa.Function) string {
	if fn == nil {
		return "<nil>"
	}
	s := fn.String()
	s = strings.ReplaceAll(s, ModPath+"/", "")
	return s
}
