package props

import (
	"fmt"
	"go/token"
	"sort"
	"strings"

	"golang.org/x/tools/go/ssa"

	"rqverif/checker/internal/an"
	"rqverif/checker/internal/core"
)

func init() {
	register(&core.Check{
		ID:    "C01",
		Title: "Replicas converge: same committed log gives the same database on every node",
		Explanation: "C01.a DOM: in package http every call that hands client statements to replication (proxy.Execute, proxy.Request, stmtQueue.Write) is reachable only after sql.Process ran on the same statement slice (SSA identity of the slice stored in the request), the only admitted bypass being the NoParse() edge; runQueue is a reasoned exception (its statements were processed before entering the queue, C23.c). The set of write endpoints is computed from the callers of the three sinks. " +
			"C01.b WHO: the database-mutating API of db.SwappableDB is called only from the single apply path CommandProcessor.Process, fsmRestore, ReadFrom and Vacuum; fsmApply (live apply and restart replay) and RecoverNode (manual recovery) both reach CommandProcessor.Process rather than a private copy. " +
			"C01.c WHO/effect: among module functions statically reachable from CommandProcessor.Process, calls of ambient sources (time.Now, math/rand, crypto/rand, os.Getpid, os.Hostname) are limited to a frozen list of timing/statistics sites. " +
			"C01.d TABLE: QueryParams.DBTimeout — the statement timeout that is written into replicated requests and enforced by every node on its own clock — reads the db_timeout parameter only and calls no other parameter getter.",
		NotCovered: []string{"SQLite's own determinism (including multi-statement texts and user-defined functions)", "completeness of the rewriter (C14)", "equality of snapshot contents (C04)"},
		Run:        runC01,
	})
}

var ambientIDs = []string{"time.Now", "time.Since", "os.Getpid", "os.Hostname", "crypto/rand.Read", "crypto/rand.Int"}

// reviewed ambient call sites below the apply path: function → reason
var ambientAllowed = map[string]string{
	"(*db.DB).executeStmtWithConn": "xTime timing of the statement (returned to the client, not stored)",
	"(*db.DB).queryStmtWithConn":   "xTime timing of the statement",
	"(*db.DB).ExecuteWithContext":  "statistics",
	"(*db.DB).QueryWithContext":    "statistics",
	"(*db.DB).RequestWithContext":  "statistics",
	"db.OpenWithDriver":            "open-duration logging (Swap opens the new database)",
	"db.OpenWithDriver$1":          "open-duration logging (Swap opens the new database)",
	"db.recordDuration":            "statistics",
	"db.createTemp":                "scratch file name",
	"store.createTemp":             "scratch file name for the load command",
}

// c01dbTimeout: the statement timeout written into a replicated request is
// enforced by every node on its own clock at every apply and replay, so it may
// only be what the client set explicitly for that purpose: QueryParams.DBTimeout
// reads the db_timeout parameter and nothing else (not the overall request
// timeout, which describes how long this client waits, not how long a statement
// may run on every replica).
func c01dbTimeout(c *core.Ctx) {
	qpReadsOnly(c, "C01.d", "DBTimeout", "db_timeout",
		"a value other than the explicit db_timeout (e.g. the client's overall timeout) is written into the replicated request and enforced by every node on its own clock — a node that is slower at apply or replay time drops the write and diverges")
}

func runC01(c *core.Ctx) {
	c01rewrite(c)
	c01dbTimeout(c)
	checkSwappableCallers(c, "C01.b")
	c01applyPath(c)
	c01ambient(c)
}

func c01rewrite(c *core.Ctx) {
	sp := c.P.SPkg("http")
	if sp == nil {
		return
	}
	sinks := 0
	for _, fn := range pkgFuncs(sp) {
		if fn.Parent() != nil {
			continue
		}
		var ss []ssa.CallInstruction
		ss = append(ss, an.CallsTo(fn, false, "proxy.Proxy.Execute", "proxy.Proxy.Request")...)
		for _, w := range an.CallsTo(fn, false, "queue.Queue.Write") {
			ss = append(ss, w)
		}
		if len(ss) == 0 {
			continue
		}
		c.Touch(fn)
		name := core.FuncName(fn)
		procs := an.CallsTo(fn, false, "command/sql.Process")
		var noParse []ssa.Value
		for _, np := range an.CallsTo(fn, false, "http.QueryParams.NoParse") {
			noParse = append(noParse, np.Value())
		}
		bypass := an.SenseEdges(fn, noParse, an.IsTrue)
		// on a write path the rewrite of RANDOM() and of the time functions is switched
		// off by the caller's explicit flag only (never by the read level, the
		// statement kind or anything else the endpoint knows)
		for j, pc := range procs {
			args := pc.Common().Args
			if len(args) != 3 || name == "(*http.Service).runQueue" {
				continue
			}
			flagOnly := func(v ssa.Value, getter string) bool {
				if b, ok := an.ConstBool(v); ok {
					return b
				}
				u, ok := v.(*ssa.UnOp)
				if !ok || u.Op != token.NOT {
					return false
				}
				call, ok := u.X.(*ssa.Call)
				return ok && an.IsCall(call, "http.QueryParams."+getter)
			}
			c.Sites++
			c.Result(flagOnly(args[1], "NoRewriteRandom") && flagOnly(args[2], "NoRewriteTime"), "C01.a", "CONST", fmt.Sprintf("%s:Process#%d:rewrite-flags", name, j+1), c.P.Pos(pc.Pos()),
				"RANDOM() and time rewriting on this write path is disabled only by the request's norwrandom / norwtime flags",
				name+" hands statements to replication but makes the RANDOM()/time rewrite depend on something other than the request's explicit norwrandom/norwtime flags (e.g. the read consistency level): a write sent with the other setting reaches the log unrewritten and every node evaluates it itself", nil)
		}
		for i, s := range ss {
			sinks++
			c.Sites++
			construct := fmt.Sprintf("%s:%s#%d", name, strings.TrimPrefix(strings.TrimPrefix(an.CalleeID(s), "proxy.Proxy."), "queue.Queue."), i+1)
			pos := c.P.Pos(s.Pos())
			if name == "(*http.Service).runQueue" {
				c.OK("C01.a", "DOM", construct, pos, "reasoned exception: statements were processed by queuedExecute before entering the queue (C23.c)")
				continue
			}
			if len(procs) == 0 && c01viaCaller(c, fn, s) {
				c.OK("C01.a", "DOM", construct+":rewritten", pos, "the statements are processed by sql.Process in the only caller of this private helper before they are handed to it (bypass only with noparse)")
				continue
			}
			if len(procs) == 0 {
				c.Bad("C01.a", "DOM", construct+":rewritten", pos, name+" hands client SQL to replication without sql.Process: RANDOM() and date/time 'now' calls in that text reach the log unrewritten and are evaluated separately by every node", nil)
				continue
			}
			si := s.(ssa.Instruction)
			hits := an.Ungated(an.CutSpec{Fn: fn, GateEdge: bypass,
				GateInstr: func(in ssa.Instruction) bool { return an.IsCall(in, "command/sql.Process") },
				Sink:      func(in ssa.Instruction) bool { return in == si }})
			// identity: the processed slice is the one sent
			stmts := an.Unwrap(procs[0].Common().Args[0])
			same := false
			if an.IsCall(si, "queue.Queue.Write") {
				same = an.Unwrap(s.Common().Args[1]) == stmts
			} else {
				// stored into the Request literal handed to the proxy
				an.Instrs(fn, func(in ssa.Instruction) {
					if st, ok := in.(*ssa.Store); ok && an.Unwrap(st.Val) == stmts {
						if t, f, _, ok := an.FieldOf(st.Addr); ok && t == "Request" && f == "Statements" {
							same = true
						}
					}
				})
			}
			c.Result(len(hits) == 0 && same, "C01.a", "DOM", construct+":rewritten", pos,
				"the statements sent were processed by sql.Process first (bypass only with noparse)",
				"the statements reach replication on a path that does not pass sql.Process on that slice", nil)
		}
	}
	c.Count("write hand-offs to replication in package http", sinks)
	c.Min("write hand-offs to replication in package http", 5)
}

func c01applyPath(c *core.Ctx) {
	const proc = "store.CommandProcessor.Process"
	for _, n := range []struct{ pkg, name string }{{"store", "(*Store).fsmApply"}, {"store", "RecoverNode"}} {
		fn := c.Fn("C01.b", n.pkg, n.name)
		if fn == nil {
			continue
		}
		calls := 0
		for _, f := range an.WithClosures(fn) {
			calls += len(anchorCalls(f, proc))
		}
		c.Result(calls >= 1, "C01.b", "WHO", n.name+":uses-shared-apply-path", c.P.Pos(fn.Pos()), n.name+" applies entries through CommandProcessor.Process", n.name+" does not apply entries through CommandProcessor.Process (a private copy of the apply logic can diverge)", nil)
	}
	// FSM.Apply delegates to fsmApply (checked in C38); restart replay is raft replaying through FSM.Apply
}

func c01ambient(c *core.Ctx) {
	root := c.Fn("C01.c", "store", "(*CommandProcessor).Process")
	if root == nil {
		return
	}
	fns := staticReach([]*ssa.Function{root})
	c.Count("module functions below the apply path", len(fns))
	c.Min("module functions below the apply path", 20)
	found := map[string][]string{}
	for _, fn := range fns {
		an.Instrs(fn, func(in ssa.Instruction) {
			ci, ok := in.(ssa.CallInstruction)
			if !ok {
				return
			}
			id := an.CalleeID(ci)
			amb := false
			for _, a := range ambientIDs {
				if id == a {
					amb = true
				}
			}
			if strings.HasPrefix(id, "math/rand") {
				amb = true
			}
			if amb {
				found[core.FuncName(fn)] = append(found[core.FuncName(fn)], id)
			}
		})
	}
	names := make([]string, 0, len(found))
	for n := range found {
		names = append(names, n)
	}
	sort.Strings(names)
	for _, n := range names {
		ids := found[n]
		sort.Strings(ids)
		reason, ok := ambientAllowed[n]
		c.Sites += len(ids)
		c.Result(ok, "C01.c", "WHO", "ambient:"+n, "", n+" uses "+strings.Join(uniq(ids), ",")+" ("+reason+")",
			n+" is reachable from the apply path and reads "+strings.Join(uniq(ids), ",")+": a value that differs per node or per replay may reach the database (not on the reviewed list)", nil)
	}
}

func uniq(a []string) []string {
	var out []string
	for i, x := range a {
		if i == 0 || x != a[i-1] {
			out = append(out, x)
		}
	}
	return out
}
