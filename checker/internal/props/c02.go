package props

import (
	"fmt"
	"go/token"
	"go/types"
	"strings"

	"golang.org/x/tools/go/ssa"

	"rqverif/checker/internal/an"
	"rqverif/checker/internal/core"
)

func init() {
	register(&core.Check{
		ID:    "C02",
		Title: "Writes and linearizable/strong reads form a linearizable history",
		Explanation: "C02.a DECIDE+ORD: waitForLinearizableRead's complete decision structure is interpreted for all valuations; on the path returning nil the events occur in the order: strong-read-term equals the caller's term → State()==Leader → Ready → readIndex := CommitIndex() → VerifyLeader() nil → CurrentTerm()==caller's term → Subscribe on the FSM target with *that* CommitIndex value (SSA identity) → the target fires. " +
			"C02.b DECIDE (shared with C16.b): in Query and Request the term is captured before the wait/Apply, the same SSA value is passed to waitForLinearizableRead and later stored as the strong-read term, and the store happens only after a successful raft.Apply of a command that carries a read (QUERY, or EXECUTE_QUERY with nRO>0). " +
			"C02.c DECIDE: every raft.Apply issued for client writes (execute, Request) maps raft.ErrNotLeader — and only it — to ErrNotLeader: ErrLeadershipLost (entry possibly replicated) is returned as an error and never as 'not leader', which the proxy would answer by forwarding the write again; VerifyLeader maps both to ErrNotLeader (reads are idempotent).",
		NotCovered: []string{"linearizability of whole histories under partitions and crashes (rests on hashicorp/raft and needs executions)", "that the FSM target is advanced for every committed entry type is C38"},
		Run:        runC02,
	})
}

func selectIndexCond(name string) an.CondMatcher {
	return func(cond ssa.Value) (func(an.Val) bool, bool) {
		b, ok := cond.(*ssa.BinOp)
		if !ok || b.Op != token.EQL {
			return nil, false
		}
		e, ok := b.X.(*ssa.Extract)
		if !ok || e.Index != 0 {
			return nil, false
		}
		if _, ok := e.Tuple.(*ssa.Select); !ok {
			return nil, false
		}
		k, ok := an.ConstInt(b.Y)
		if !ok {
			return nil, false
		}
		return func(v an.Val) bool { return int64(v[name]) == k }, true
	}
}

func runC02(c *core.Ctx) {
	c02wait(c)
	c16Query(c, "C02.b")
	c16Request(c, "C02.b")
	c02execute(c)
	c02verifyLeader(c)
}

func c02wait(c *core.Ctx) {
	fn := c.Fn("C02.a", "store", "(*Store).waitForLinearizableRead")
	if fn == nil {
		return
	}
	R := &an.Resolver{}
	var commitIdx ssa.Value
	an.Instrs(fn, func(in ssa.Instruction) {
		if an.IsPlainCall(in, "github.com/hashicorp/raft.Raft.CommitIndex") {
			commitIdx = in.(ssa.Value)
		}
	})
	// the select's channels
	selOK := ""
	an.Instrs(fn, func(in ssa.Instruction) {
		if s, ok := in.(*ssa.Select); ok {
			if len(s.States) == 2 && callResult(s.States[0].Chan, -1, "internal/rsync.ReadyTarget.Subscribe") && callResult(s.States[1].Chan, -1, "time.After") && s.Blocking {
				selOK = "ok"
			} else {
				selOK = "unexpected select shape"
			}
		}
	})
	spec := an.DecideSpec{
		Fn: fn, R: R,
		Vars: []an.Var{an.Bool("termIsStrongTerm"), an.Bool("leader"), an.Bool("ready"), an.Bool("verifyOK"), an.Bool("termUnchanged"), an.Bool("timeoutGiven"), {Name: "fired", Values: []int{0, 1}}},
		Conds: []an.CondMatcher{
			func(cond ssa.Value) (func(an.Val) bool, bool) {
				ev, ok := an.CmpCond("_", isParamN(fn, 1), func(v ssa.Value) bool {
					call, ok := an.Unwrap(v).(*ssa.Call)
					return ok && strings.HasSuffix(an.CalleeID(call), ".Load") && an.MentionsField(call.Common().Args[0], "Store", "strongReadTerm")
				})(cond)
				if !ok {
					return nil, false
				}
				return func(v an.Val) bool { return ev(an.Val{"_": 1 - v["termIsStrongTerm"]}) }, true
			},
			stateLeaderCond(R),
			boolOf("ready", -1, "store.Store.Ready"),
			errOf("verifyOK", "store.Store.VerifyLeader"),
			func(cond ssa.Value) (func(an.Val) bool, bool) {
				ev, ok := an.CmpCond("_", func(v ssa.Value) bool { return callResult(v, -1, "github.com/hashicorp/raft.Raft.CurrentTerm") }, isParamN(fn, 1))(cond)
				if !ok {
					return nil, false
				}
				return func(v an.Val) bool { return ev(an.Val{"_": 1 - v["termUnchanged"]}) }, true
			},
			func(cond ssa.Value) (func(an.Val) bool, bool) {
				ev, ok := an.CmpCond("_", func(v ssa.Value) bool { return an.Unwrap(v) == ssa.Value(fn.Params[2]) }, an.IsConstInt(0))(cond)
				if !ok {
					return nil, false
				}
				return func(v an.Val) bool { return ev(an.Val{"_": v["timeoutGiven"]}) }, true
			},
			selectIndexCond("fired"),
		},
		Effect: func(in ssa.Instruction) (string, bool) {
			call, ok := in.(*ssa.Call)
			if !ok {
				return "", false
			}
			switch {
			case an.IsCall(call, "github.com/hashicorp/raft.Raft.State"):
				return "state", true
			case an.IsCall(call, "store.Store.Ready"):
				return "ready", true
			case an.IsCall(call, "github.com/hashicorp/raft.Raft.CommitIndex"):
				return "commitIndex", true
			case an.IsCall(call, "store.Store.VerifyLeader"):
				return "verifyLeader", true
			case an.IsCall(call, "github.com/hashicorp/raft.Raft.CurrentTerm"):
				return "currentTerm", true
			case an.IsCall(call, "internal/rsync.ReadyTarget.Subscribe"):
				a := call.Common().Args
				if len(a) == 2 && a[1] == commitIdx && an.MentionsField(a[0], "Store", "fsmTarget") {
					return "subscribe(fsmTarget,commitIndex)", true
				}
				return "subscribe(?)", true
			}
			return "", false
		},
		Ret: lastErr,
		Ref: func(v an.Val) string {
			switch {
			case v["termIsStrongTerm"] == 0:
				return " => ErrStrongReadNeeded"
			case v["leader"] == 0:
				return "state => ErrNotLeader"
			case v["ready"] == 0:
				return "state;ready => ErrNotReady"
			case v["verifyOK"] == 0:
				return "state;ready;commitIndex;verifyLeader => err(VerifyLeader)"
			case v["termUnchanged"] == 0:
				return "state;ready;commitIndex;verifyLeader;currentTerm => ErrStaleRead"
			case v["fired"] == 0:
				return "state;ready;commitIndex;verifyLeader;currentTerm;subscribe(fsmTarget,commitIndex) => nil"
			}
			return "state;ready;commitIndex;verifyLeader;currentTerm;subscribe(fsmTarget,commitIndex) => err(Errorf)"
		},
	}
	reportDecide(c, "C02.a", "(*Store).waitForLinearizableRead", c.P.Pos(fn.Pos()), an.Decide(spec, c.P.Pos))
	c.Result(selOK == "ok", "C02.a", "ORD", "waitForLinearizableRead:select", c.P.Pos(fn.Pos()),
		"the wait is a blocking select on {FSM target subscription, timeout}; case 0 returns nil", "the final wait is not a blocking select on the subscription and a timeout: "+selOK, nil)
}

func c02execute(c *core.Ctx) {
	fn := c.Fn("C02.c", "store", "(*Store).execute")
	if fn == nil {
		return
	}
	R := &an.Resolver{}
	one := func(n string) an.Var { return an.Var{Name: n, Values: []int{1}} }
	spec := an.DecideSpec{
		Fn: fn, R: R,
		Vars: []an.Var{{Name: "apply", Values: []int{0, 1, 2, 3}}, one("compressOK"), one("marshalOK")},
		Conds: []an.CondMatcher{
			an.NilCond("compressOK", func(v ssa.Value) bool { return callResult(v, 2, "store.Store.tryCompress") }),
			an.NilCond("marshalOK", func(v ssa.Value) bool { return callResult(v, 1, "command.Marshal") }),
			enumNil("apply", "github.com/hashicorp/raft.Future.Error", "github.com/hashicorp/raft.ApplyFuture.Error"),
			eqGlobal("apply", 1, "ErrNotLeader", "github.com/hashicorp/raft.Future.Error", "github.com/hashicorp/raft.ApplyFuture.Error"),
			eqGlobal("apply", 2, "ErrLeadershipLost", "github.com/hashicorp/raft.Future.Error", "github.com/hashicorp/raft.ApplyFuture.Error"),
		},
		Effect: storeEffects(fn),
		Ret:    lastErr,
		Ref: func(v an.Val) string {
			switch v["apply"] {
			case 1:
				return "cmd2;apply => ErrNotLeader"
			case 2, 3:
				return "cmd2;apply => err(Error)"
			}
			return "cmd2;apply => field:error"
		},
	}
	reportDecide(c, "C02.c", "(*Store).execute", c.P.Pos(fn.Pos()), an.Decide(spec, c.P.Pos))

	// Execute: leader and readiness tests precede execute
	if ex := c.Fn("C02.c", "store", "(*Store).Execute"); ex != nil {
		R2 := &an.Resolver{}
		spec := an.DecideSpec{
			Fn: ex, R: R2,
			Vars: []an.Var{an.Bool("pragmaOK"), an.Bool("open"), an.Bool("ctxOK"), an.Bool("leader"), an.Bool("ready")},
			Conds: []an.CondMatcher{
				errOf("pragmaOK", "store.PragmaCheckRequest.Check"),
				boolOf("open", -1, "internal/rsync.AtomicBool.Is"),
				errOf("ctxOK", "context.Context.Err"),
				stateLeaderCond(R2),
				boolOf("ready", -1, "store.Store.Ready"),
			},
			Effect: func(in ssa.Instruction) (string, bool) {
				if an.IsPlainCall(in, "store.Store.execute") {
					return "execute", true
				}
				return "", false
			},
			Ret: func(r *ssa.Return, resolve func(ssa.Value) ssa.Value) string {
				if len(r.Results) == 3 {
					if e, ok := r.Results[2].(*ssa.Extract); ok && callResult(e, 2, "store.Store.execute") {
						return "execute's"
					}
				}
				return lastErr(r, resolve)
			},
			Ref: func(v an.Val) string {
				switch {
				case v["pragmaOK"] == 0:
					return " => err(Check)"
				case v["open"] == 0:
					return " => ErrNotOpen"
				case v["ctxOK"] == 0:
					return " => err(Err)"
				case v["leader"] == 0:
					return " => ErrNotLeader"
				case v["ready"] == 0:
					return " => ErrNotReady"
				}
				return "execute => execute's"
			},
		}
		reportDecide(c, "C02.c", "(*Store).Execute", c.P.Pos(ex.Pos()), an.Decide(spec, c.P.Pos))
	}
}

func c02verifyLeader(c *core.Ctx) {
	fn := c.Fn("C02.c", "store", "(*Store).VerifyLeader")
	if fn == nil {
		return
	}
	// named result spilled (defer): decide on conditions only, outcome by return value
	spec := an.DecideSpec{
		Fn:   fn,
		Vars: []an.Var{an.Bool("open"), {Name: "verify", Values: []int{0, 1, 2, 3}}},
		Conds: []an.CondMatcher{
			boolOf("open", -1, "internal/rsync.AtomicBool.Is"),
			enumNil("verify", "github.com/hashicorp/raft.Future.Error"),
			eqGlobal("verify", 1, "ErrNotLeader", "github.com/hashicorp/raft.Future.Error"),
			eqGlobal("verify", 2, "ErrLeadershipLost", "github.com/hashicorp/raft.Future.Error"),
		},
		Effect: func(in ssa.Instruction) (string, bool) {
			if an.IsPlainCall(in, "github.com/hashicorp/raft.Raft.VerifyLeader") {
				return "raftVerify", true
			}
			// stores to the named result cell
			if st, ok := in.(*ssa.Store); ok {
				if al, ok := st.Addr.(*ssa.Alloc); ok && types.Identical(al.Type().(*types.Pointer).Elem(), types.Universe.Lookup("error").Type()) {
					return "ret=" + errName(st.Val), true
				}
			}
			return "", false
		},
		Ret: func(r *ssa.Return, resolve func(ssa.Value) ssa.Value) string { return "" },
		Ref: func(v an.Val) string {
			if v["open"] == 0 {
				return "ret=ErrNotOpen => "
			}
			switch v["verify"] {
			case 0:
				return "raftVerify;ret=nil => "
			case 1, 2:
				return "raftVerify;ret=ErrNotLeader => "
			}
			return "raftVerify;ret=err(Errorf) => "
		},
	}
	res := an.Decide(spec, c.P.Pos)
	reportDecide(c, "C02.c", "(*Store).VerifyLeader", c.P.Pos(fn.Pos()), res)
	_ = fmt.Sprint
}
