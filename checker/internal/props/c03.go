package props

import (
	"go/token"
	"sort"
	"strings"

	"golang.org/x/tools/go/ssa"

	"rqverif/checker/internal/an"
	"rqverif/checker/internal/core"
)

func init() {
	register(&core.Check{
		ID:    "C03",
		Title: "Acknowledged writes survive crashes and restarts",
		Explanation: "Decides the structural part of the fast-restart protocol: the clean_snapshot marker may only say 'the database file equals the newest installed snapshot' when that is true at every crash point. " +
			"C03.a WHO+DOM: the marker is published (a write-open or rename whose target is Store.cleanSnapshotPath) only in createSnapshotFingerprint; that function is referenced only by fsmRestore (called after a successful Swap, the stale marker removed before the Swap) and as FSMSnapshot.Finalizer; Finalizer is invoked only in FSMSnapshot.Persist and only on the success edge of sink.Close(), i.e. after the snapshot directory was renamed into place; snapshot.Sink.Close is idempotent (guarded by Sink.opened) so raft's own Close after Persist is a no-op. " +
			"C03.b DOM: in Store.Open the assignments NoSnapshotRestoreOnStart=true / removeDBFiles=false are dominated by: store not empty, marker exists, marker readable, ModTimeSize(dbPath) ok, mtime equal, size equal, snapshot gate acquired; the two flags always change together (also after RecoverNode); createDBOnDisk receives that flag; the CRC goroutine returns normally only on a checksum match (or legacy zero CRC) and its exit path removes the marker before exiting. " +
			"C03.c ORD: createSnapshotFingerprint fingerprints the live database file (DBLastModified, FileSize, CRC32 of Store.dbPath), writes a temporary file, and renames it over the marker only after WriteToFile succeeded; WriteToFile returns nil only after Sync succeeded. " +
			"C03.d DOM: createDBOnDisk removes the database files or at least the WAL files before opening (the log is the source of truth for what the WAL held). " +
			"C03.f CONST: the raft log store is never opened with bbolt NoSync/NoGrowSync. " +
			"C03.g WHO: the snapshot store that Store.Open hands to raft.NewRaft is a store-package wrapper whose Create removes the marker (directly, or through a func field bound in Open to a function that removes Store.cleanSnapshotPath) and creates the sink only on the nil edge of that removal — so a snapshot received from the leader can never be newest in the store while the old marker still vouches for the old database file.",
		NotCovered: []string{"what SQLite, bbolt and the file system do at a crash point", "recovered state versus acknowledged history (needs executions)", "directory-entry durability of the marker rename"},
		Run:        runC03,
	})
}

// isMarkerPath: v is exactly the value of Store.cleanSnapshotPath (not a
// string derived from it).
func isMarkerPath(v ssa.Value) bool {
	v = deCell(an.Unwrap(v))
	return an.LoadedField(v, "Store", "cleanSnapshotPath")
}

func runC03(c *core.Ctx) {
	c03Install(c)
	all := moduleFuncs(c)

	// ---- C03.a publishers of the marker
	var publishers []ssa.CallInstruction
	for _, fn := range all {
		for _, call := range an.AllCalls(fn, false) {
			id := an.CalleeID(call)
			args := call.Common().Args
			switch id {
			case "os.Rename", "os.Link", "os.Symlink":
				if len(args) == 2 && isMarkerPath(args[1]) {
					publishers = append(publishers, call)
				}
			case "os.Create", "os.OpenFile", "os.WriteFile", "internal/fsutil.CopyFile":
				idx := 0
				if id == "internal/fsutil.CopyFile" {
					idx = 1
				}
				if len(args) > idx && isMarkerPath(args[idx]) {
					publishers = append(publishers, call)
				}
			case "store.FileFingerprint.WriteToFile":
				if len(args) == 2 && isMarkerPath(args[1]) {
					publishers = append(publishers, call)
				}
			}
		}
	}
	c.Count("marker publish sites", len(publishers))
	c.Min("marker publish sites", 1)
	pubFn := c.Fn("C03.a", "store", "(*Store).createSnapshotFingerprint")
	for _, p := range publishers {
		c.Sites++
		name := core.FuncName(p.Parent())
		c.Result(p.Parent() == pubFn, "C03.a", "WHO", "marker-publisher:"+name, c.P.Pos(p.Pos()),
			"the marker is published by createSnapshotFingerprint",
			name+" writes the clean_snapshot marker directly: the marker can then exist for a database file that is not the newest installed snapshot, and the next start skips the restore and replays the log on top of it", nil)
	}

	// references to the publisher
	if pubFn != nil {
		type ref struct {
			in   ssa.Instruction
			kind string
		}
		var refs []ref
		for _, fn := range all {
			an.Instrs(fn, func(in ssa.Instruction) {
				if ci, ok := in.(ssa.CallInstruction); ok {
					if ci.Common().StaticCallee() == pubFn {
						refs = append(refs, ref{in, "call"})
						return
					}
				}
				if mc, ok := in.(*ssa.MakeClosure); ok {
					if f, ok := mc.Fn.(*ssa.Function); ok && strings.HasSuffix(f.Name(), "createSnapshotFingerprint$bound") {
						refs = append(refs, ref{in, "value"})
					}
				}
			})
		}
		c.Count("references to createSnapshotFingerprint", len(refs))
		c.Min("references to createSnapshotFingerprint", 2)
		for _, r := range refs {
			c.Sites++
			host := core.FuncName(r.in.Parent())
			switch {
			case r.kind == "call" && host == "(*store.Store).fsmRestore":
				c.OK("C03.a", "WHO", "marker-ref:call:"+host, c.P.Pos(r.in.Pos()), "fsmRestore publishes the marker for the database it installed (ordering checked below)")
			case r.kind == "value" && host == "(*store.Store).fsmSnapshot":
				// the method value may flow only into FSMSnapshot.Finalizer
				ok := true
				mc := r.in.(*ssa.MakeClosure)
				for _, u := range *mc.Referrers() {
					switch x := u.(type) {
					case *ssa.DebugRef:
					case *ssa.Store:
						if !(x.Val == ssa.Value(mc) && an.LoadedField(x.Addr, "FSMSnapshot", "Finalizer")) {
							if _, isAlloc := x.Addr.(*ssa.Alloc); !isAlloc {
								ok = false
							}
						}
					case *ssa.Phi:
					default:
						ok = false
					}
				}
				c.Result(ok, "C03.a", "WHO", "marker-ref:value:"+host, c.P.Pos(r.in.Pos()),
					"fsmSnapshot hands the publisher to raft only as FSMSnapshot.Finalizer",
					"fsmSnapshot uses the marker publisher other than as FSMSnapshot.Finalizer: it may run before the snapshot is installed", nil)
			default:
				c.Bad("C03.a", "WHO", "marker-ref:"+r.kind+":"+host, c.P.Pos(r.in.Pos()),
					host+" publishes the clean_snapshot marker outside the two reviewed points (after sink.Close in Persist, after Swap in fsmRestore): a crash before the snapshot is installed leaves a marker that matches a database ahead of the snapshot store, and the restart applies the log twice", nil)
			}
		}
	}

	// Finalizer is invoked only in Persist, after sink.Close() succeeded
	persist := c.Fn("C03.a", "store", "(*FSMSnapshot).Persist")
	nFinal := 0
	for _, fn := range all {
		for _, call := range an.AllCalls(fn, false) {
			if call.Common().IsInvoke() || call.Common().StaticCallee() != nil {
				continue
			}
			if !an.LoadedField(call.Common().Value, "FSMSnapshot", "Finalizer") {
				continue
			}
			nFinal++
			c.Sites++
			if fn != persist {
				c.Bad("C03.a", "WHO", "Finalizer-call:"+core.FuncName(fn), c.P.Pos(call.Pos()),
					core.FuncName(fn)+" runs the snapshot Finalizer (marker publication) outside Persist", nil)
				continue
			}
			var closes []ssa.Value
			for _, cl := range an.AllCalls(fn, false) {
				cc := cl.Common()
				if cc.IsInvoke() && cc.Method.Name() == "Close" && len(fn.Params) > 1 && deCell(an.Unwrap(cc.Value)) == ssa.Value(fn.Params[1]) {
					if v := cl.Value(); v != nil {
						closes = append(closes, v)
					}
				}
			}
			okEdges := an.SenseEdges(fn, closes, an.IsNil)
			ci := call.(ssa.Instruction)
			hits := an.Ungated(an.CutSpec{Fn: fn, GateEdge: okEdges, Sink: func(in ssa.Instruction) bool { return in == ci }})
			c.Result(len(okEdges) > 0 && len(hits) == 0, "C03.a", "DOM", "Persist:Finalizer-after-sink.Close", c.P.Pos(call.Pos()),
				"the Finalizer (marker publication) runs only after sink.Close() returned nil, i.e. after the snapshot was renamed into place",
				"FSMSnapshot.Persist runs the Finalizer without a successful sink.Close() before it: raft closes the sink only after Persist returns, so a process that dies in between restarts with a marker matching a database that is ahead of the newest installed snapshot, skips the restore and applies the log entries after that snapshot a second time", nil)
		}
	}
	c.Count("Finalizer call sites", nFinal)
	c.Min("Finalizer call sites", 1)

	// the second Close (raft's) is a no-op
	if fn := c.Fn("C03.a", "snapshot", "(*Sink).Close"); fn != nil {
		opened := an.SenseEdges(fn, loadsOfField(fn, "Sink", "opened"), an.IsTrue)
		work := func(in ssa.Instruction) bool {
			call, ok := in.(*ssa.Call)
			return ok && an.IsCall(call, "os.Rename", "os.RemoveAll", "snapshot.writeMeta")
		}
		hits := an.Ungated(an.CutSpec{Fn: fn, GateEdge: opened, Sink: work})
		// and the flag is cleared before the work
		cleared := func(in ssa.Instruction) bool {
			st, ok := in.(*ssa.Store)
			if !ok {
				return false
			}
			b, isB := an.ConstBool(st.Val)
			return isB && !b && an.LoadedField(st.Addr, "Sink", "opened")
		}
		h2 := an.Ungated(an.CutSpec{Fn: fn, GateInstr: cleared, Sink: work})
		c.Result(len(opened) > 0 && len(hits) == 0 && len(h2) == 0, "C03.a", "DOM", "Sink.Close:idempotent", c.P.Pos(fn.Pos()),
			"Sink.Close does its work once: guarded by Sink.opened, which it clears first", "Sink.Close can run its renames twice: the Close that Persist performs and the one raft performs afterwards would both publish", nil)
	}

	// fsmRestore ordering: remove marker → Swap → publish
	if fn := c.Fn("C03.a", "store", "(*Store).fsmRestore"); fn != nil {
		swaps := an.CallsTo(fn, false, "db.SwappableDB.Swap")
		var removes []ssa.Value
		for _, call := range an.CallsTo(fn, false, "internal/fsutil.RemoveFile", "os.Remove") {
			if isMarkerPath(call.Common().Args[0]) && call.Value() != nil {
				removes = append(removes, call.Value())
			}
		}
		if len(swaps) != 1 {
			c.Unk("C03.a", "ORD", "fsmRestore:swap", c.P.Pos(fn.Pos()), "expected exactly one Swap in fsmRestore")
		} else {
			sw := swaps[0].(ssa.Instruction)
			rmOK := an.SenseEdges(fn, removes, an.IsNil)
			hits := an.Ungated(an.CutSpec{Fn: fn, GateEdge: rmOK, Sink: func(in ssa.Instruction) bool { return in == sw }})
			c.Result(len(rmOK) > 0 && len(hits) == 0, "C03.a", "ORD", "fsmRestore:marker-removed-before-swap", c.P.Pos(sw.Pos()),
				"the marker is removed (and the removal succeeded) before the database is replaced",
				"fsmRestore can replace the database while the old marker is still in place: a crash right after the swap leaves a marker next to a different database file", nil)
			swOK := an.SenseEdges(fn, an.ErrResult(swaps[0]), an.IsNil)
			pub := func(in ssa.Instruction) bool {
				ci, ok := in.(ssa.CallInstruction)
				return ok && pubFn != nil && ci.Common().StaticCallee() == pubFn
			}
			hits = an.Ungated(an.CutSpec{Fn: fn, GateEdge: swOK, Sink: pub})
			c.Result(len(swOK) > 0 && len(hits) == 0, "C03.a", "ORD", "fsmRestore:publish-after-swap", c.P.Pos(sw.Pos()),
				"the marker is published only after the restored database was swapped in", "fsmRestore can publish the marker before the restored database is in place", nil)
		}
	}

	// ---- C03.b the gate in Store.Open
	open := c.Fn("C03.b", "store", "(*Store).Open")
	if open != nil {
		isFlagStore := func(in ssa.Instruction, want bool) bool {
			st, ok := in.(*ssa.Store)
			if !ok {
				return false
			}
			b, isB := an.ConstBool(st.Val)
			return isB && b == want && an.LoadedField(st.Addr, "Config", "NoSnapshotRestoreOnStart")
		}
		// removeDBFiles: the local of Open whose value is passed to createDBOnDisk
		var removeCell ssa.Value
		for _, call := range an.CallsTo(open, false, "store.createDBOnDisk") {
			if a := call.Common().Args; len(a) > 2 {
				if u, ok := an.Unwrap(a[2]).(*ssa.UnOp); ok && u.Op == token.MUL {
					removeCell = u.X
				}
			}
		}
		if removeCell == nil {
			c.Unk("C03.b", "DOM", "Open:removeDBFiles", c.P.Pos(open.Pos()), "the flag passed to createDBOnDisk is not a captured local of Open")
		}
		isRemoveStore := func(in ssa.Instruction, want bool) bool {
			st, ok := in.(*ssa.Store)
			if !ok || removeCell == nil {
				return false
			}
			b, isB := an.ConstBool(st.Val)
			if !isB || b != want {
				return false
			}
			if st.Addr == removeCell {
				return true
			}
			if fv, ok := st.Addr.(*ssa.FreeVar); ok {
				if al, isAl := removeCell.(*ssa.Alloc); isAl {
					return fv.Name() == al.Comment
				}
				return fv.Name() == removeCell.Name()
			}
			return false
		}
		var gateFn *ssa.Function
		nSkip := 0
		for _, fn := range an.WithClosures(open) {
			an.Instrs(fn, func(in ssa.Instruction) {
				if isFlagStore(in, true) {
					gateFn = fn
					nSkip++
				}
			})
		}
		c.Count("skip-restore decisions in Open", nSkip)
		c.Min("skip-restore decisions in Open", 1)
		if gateFn != nil {
			c.Touch(gateFn)
			sink := func(in ssa.Instruction) bool { return isFlagStore(in, true) || isRemoveStore(in, false) }
			type gate struct {
				name  string
				edges map[an.Edge]bool
				bad   string
			}
			callVals := func(idx int, ids ...string) []ssa.Value {
				var out []ssa.Value
				for _, call := range an.CallsTo(gateFn, false, ids...) {
					if idx < 0 {
						if v := call.Value(); v != nil {
							out = append(out, v)
						}
					} else {
						out = append(out, an.Result(call, idx)...)
					}
				}
				return out
			}
			var exists []ssa.Value
			for _, call := range an.CallsTo(gateFn, false, "internal/fsutil.PathExists") {
				if isMarkerPath(call.Common().Args[0]) {
					exists = append(exists, call.Value())
				}
			}
			var readOK []ssa.Value
			for _, call := range an.CallsTo(gateFn, false, "store.FileFingerprint.ReadFromFile") {
				if isMarkerPath(call.Common().Args[1]) {
					readOK = append(readOK, call.Value())
				}
			}
			var mts []ssa.CallInstruction
			for _, call := range an.CallsTo(gateFn, false, "internal/fsutil.ModTimeSize") {
				if an.LoadedField(deCell(an.Unwrap(call.Common().Args[0])), "Store", "dbPath") {
					mts = append(mts, call)
				}
			}
			var mtErr, mtTime, mtSize []ssa.Value
			for _, m := range mts {
				mtErr = append(mtErr, an.Result(m, 2)...)
				mtTime = append(mtTime, an.Result(m, 0)...)
				mtSize = append(mtSize, an.Result(m, 1)...)
			}
			inVals := func(vs []ssa.Value) func(ssa.Value) bool {
				return func(v ssa.Value) bool {
					v = deCell(an.Unwrap(v))
					for _, x := range vs {
						if v == x {
							return true
						}
					}
					return false
				}
			}
			var equalCalls []ssa.Value
			for _, call := range an.CallsTo(gateFn, false, "time.Time.Equal") {
				a := call.Common().Args
				x, y := inVals(mtTime), func(v ssa.Value) bool { return an.LoadedField(deCell(an.Unwrap(v)), "FileFingerprint", "ModTime") }
				if len(a) == 2 && ((x(a[0]) && y(a[1])) || (x(a[1]) && y(a[0]))) {
					equalCalls = append(equalCalls, call.Value())
				}
			}
			gates := []gate{
				{"store-not-empty", an.SenseEdgesOfCmp(gateFn, func(v ssa.Value) bool { return callResult(v, -1, "snapshot.Store.Len") }, 0), "an empty snapshot store"},
				{"marker-exists", an.SenseEdges(gateFn, exists, an.IsTrue), "no marker file"},
				{"marker-readable", an.SenseEdges(gateFn, readOK, an.IsNil), "an unreadable marker"},
				{"dbfile-stat-ok", an.SenseEdges(gateFn, mtErr, an.IsNil), "a database file that cannot be examined"},
				{"mtime-equal", an.SenseEdges(gateFn, equalCalls, an.IsTrue), "a database file whose modification time differs from the marker"},
				{"size-equal", eqEdges(gateFn, inVals(mtSize), func(v ssa.Value) bool { return an.LoadedField(deCell(an.Unwrap(v)), "FileFingerprint", "Size") }), "a database file whose size differs from the marker"},
				{"snapshot-gate-held", an.SenseEdges(gateFn, callVals(-1, "internal/rsync.CheckAndSet.Begin"), an.IsNil), "the snapshot gate not acquired (the checksum would race with a checkpoint)"},
			}
			// store-not-empty: only the != 0 side counts
			{
				ne := map[an.Edge]bool{}
				for e := range gates[0].edges {
					ifi := e.From.Instrs[len(e.From.Instrs)-1].(*ssa.If)
					bo := ifi.Cond.(*ssa.BinOp)
					eqSide := e.From.Succs[0]
					if bo.Op == token.NEQ {
						eqSide = e.From.Succs[1]
					}
					if (bo.Op == token.EQL || bo.Op == token.NEQ) && e.To != eqSide {
						ne[e] = true
					}
				}
				gates[0].edges = ne
			}
			for _, g := range gates {
				hits := an.Ungated(an.CutSpec{Fn: gateFn, GateEdge: g.edges, Sink: sink})
				c.Result(len(g.edges) > 0 && len(hits) == 0, "C03.b", "DOM", "Open:skip-restore-requires:"+g.name, c.P.Pos(gateFn.Pos()),
					"skipping the restore requires "+g.name,
					"Store.Open can decide to keep the existing database file and skip the snapshot restore with "+g.bad+": the node comes back with a state that is not the one it had applied", nil)
			}
			// the CRC goroutine is started with the gate held
			var goes []*ssa.Go
			an.Instrs(gateFn, func(in ssa.Instruction) {
				if g, ok := in.(*ssa.Go); ok {
					goes = append(goes, g)
				}
			})
			if len(goes) != 1 {
				c.Unk("C03.b", "DOM", "Open:crc-goroutine", c.P.Pos(gateFn.Pos()), "expected exactly one goroutine (the checksum verification) in the fast-restart decision")
			} else {
				g := goes[0]
				hits := an.Ungated(an.CutSpec{Fn: gateFn, GateInstr: func(in ssa.Instruction) bool { return in == ssa.Instruction(g) }, Sink: sink})
				c.Result(len(hits) == 0, "C03.b", "DOM", "Open:skip-restore-requires:crc-verification-started", c.P.Pos(g.Pos()),
					"the checksum verification is started before the restore is skipped", "the restore can be skipped without starting the checksum verification of the database file", nil)
				if mc, ok := g.Call.Value.(*ssa.MakeClosure); ok {
					checkCRCGoroutine(c, mc.Fn.(*ssa.Function))
				} else {
					c.Unk("C03.b", "DOM", "Open:crc-goroutine:body", c.P.Pos(g.Pos()), "the goroutine is not a function literal")
				}
			}
		}
		// the two flags move together everywhere in Open
		nPairs := 0
		for _, fn := range an.WithClosures(open) {
			for _, b := range fn.Blocks {
				for _, in := range b.Instrs {
					for _, want := range []bool{true, false} {
						if isFlagStore(in, want) {
							nPairs++
							paired := false
							for _, j := range b.Instrs {
								if isRemoveStore(j, !want) {
									paired = true
								}
							}
							c.Result(paired, "C03.b", "PAIR", "Open:flags-move-together:NoSnapshotRestoreOnStart="+boolStr(want), c.P.Pos(in.Pos()),
								"NoSnapshotRestoreOnStart="+boolStr(want)+" is set together with removeDBFiles="+boolStr(!want),
								"Store.Open sets NoSnapshotRestoreOnStart="+boolStr(want)+" without removeDBFiles="+boolStr(!want)+": either the database files are deleted and not restored, or an existing database is restored over / replayed onto", nil)
						}
						if isRemoveStore(in, want) && fn != open {
							paired := false
							for _, j := range b.Instrs {
								if isFlagStore(j, !want) {
									paired = true
								}
							}
							c.Result(paired, "C03.b", "PAIR", "Open:flags-move-together:removeDBFiles="+boolStr(want), c.P.Pos(in.Pos()),
								"removeDBFiles="+boolStr(want)+" is set together with NoSnapshotRestoreOnStart="+boolStr(!want),
								"Store.Open sets removeDBFiles="+boolStr(want)+" without NoSnapshotRestoreOnStart="+boolStr(!want), nil)
						}
					}
				}
			}
		}
		c.Count("flag assignments in Open", nPairs)
		// the restore decision is honoured further down: the explicit initial restore is run iff restore on start is enabled
	}

	// ---- C03.c the marker describes the live database file and is written atomically
	if pubFn != nil {
		type fieldSrc struct {
			field string
			calls []string
			desc  string
		}
		for _, fs := range []fieldSrc{
			{"ModTime", []string{"db.SwappableDB.DBLastModified", "db.DB.DBLastModified"}, "the database file's modification time"},
			{"Size", []string{"db.SwappableDB.FileSize", "db.DB.FileSize"}, "the database file's size"},
			{"CRC32", []string{"internal/rsum.CRC32WithTiming", "internal/rsum.CRC32"}, "the database file's checksum"},
		} {
			ok := false
			n := 0
			an.Instrs(pubFn, func(in ssa.Instruction) {
				st, isSt := in.(*ssa.Store)
				if !isSt || !an.LoadedField(st.Addr, "FileFingerprint", fs.field) {
					return
				}
				n++
				ok = an.MentionsCall(st.Val, fs.calls...)
				if fs.field == "CRC32" && ok {
					// the checksum must be of Store.dbPath
					ok = an.Mentions(st.Val, func(x ssa.Value) bool {
						call, isC := x.(*ssa.Call)
						return isC && an.IsCall(call, fs.calls...) && an.MentionsField(call.Common().Args[0], "Store", "dbPath")
					})
				}
			})
			c.Result(ok && n == 1, "C03.c", "TABLE", "createSnapshotFingerprint:field:"+fs.field, c.P.Pos(pubFn.Pos()),
				"FileFingerprint."+fs.field+" records "+fs.desc, "the marker's "+fs.field+" is not taken from "+fs.desc+": the restart comparison no longer ties the marker to the file", nil)
		}
		var writes []ssa.CallInstruction
		for _, call := range an.CallsTo(pubFn, false, "store.FileFingerprint.WriteToFile") {
			writes = append(writes, call)
		}
		var renames []ssa.CallInstruction
		for _, call := range an.CallsTo(pubFn, false, "os.Rename") {
			if isMarkerPath(call.Common().Args[1]) {
				renames = append(renames, call)
			}
		}
		if len(writes) != 1 || len(renames) != 1 {
			c.Unk("C03.c", "ORD", "createSnapshotFingerprint:tmp-then-rename", c.P.Pos(pubFn.Pos()), "expected one WriteToFile and one Rename onto the marker")
		} else {
			w, r := writes[0], renames[0]
			same := an.Canon(w.Common().Args[1]) == an.Canon(r.Common().Args[0]) && !isMarkerPath(w.Common().Args[1])
			wOK := an.SenseEdges(pubFn, an.ErrResult(w), an.IsNil)
			ri := r.(ssa.Instruction)
			hits := an.Ungated(an.CutSpec{Fn: pubFn, GateEdge: wOK, Sink: func(in ssa.Instruction) bool { return in == ri }})
			c.Result(same && len(wOK) > 0 && len(hits) == 0, "C03.c", "ORD", "createSnapshotFingerprint:tmp-then-rename", c.P.Pos(r.Pos()),
				"the fingerprint is written to a temporary file which is renamed over the marker only after the write succeeded",
				"the marker can be published without a completely written temporary file (or is written in place): a crash leaves a torn marker", nil)
		}
	}
	if fn := c.Fn("C03.c", "store", "(*FileFingerprint).WriteToFile"); fn != nil {
		var syncs, wr []ssa.Value
		for _, call := range an.CallsTo(fn, false, "os.File.Sync") {
			syncs = append(syncs, call.Value())
		}
		for _, call := range an.CallsTo(fn, false, "os.File.Write") {
			wr = append(wr, an.ErrResult(call)...)
		}
		// write and sync may live in a private helper whose success implies both
		if len(syncs) == 0 && len(wr) == 0 {
			for _, call := range an.AllCalls(fn, false) {
				g := call.Common().StaticCallee()
				if successImplies(g, "os.File.Sync") && successImplies(g, "os.File.Write") {
					c.Touch(g)
					syncs = append(syncs, an.ErrResult(call)...)
					wr = append(wr, an.ErrResult(call)...)
				}
			}
		}
		succ := map[ssa.Instruction]bool{}
		for _, r := range an.SuccessReturns(fn) {
			succ[r] = true
		}
		isSucc := func(in ssa.Instruction) bool { return succ[in] }
		e1 := an.SenseEdges(fn, syncs, an.IsNil)
		e2 := an.SenseEdges(fn, wr, an.IsNil)
		h1 := an.Ungated(an.CutSpec{Fn: fn, GateEdge: e1, Sink: isSucc})
		h2 := an.Ungated(an.CutSpec{Fn: fn, GateEdge: e2, Sink: isSucc})
		delegated := false
		if g := tailDelegate(fn); g != nil && len(succ) == 1 && successImplies(g, "os.File.Sync") && successImplies(g, "os.File.Write") {
			// `return helper(path, data)`: the helper's verdict is WriteToFile's
			delegated = true
		}
		c.Result(delegated || (len(e1) > 0 && len(e2) > 0 && len(h1) == 0 && len(h2) == 0 && len(succ) > 0), "C03.c", "ORD", "WriteToFile:write-sync-before-success", c.P.Pos(fn.Pos()),
			"WriteToFile returns nil only after Write and Sync both succeeded", "WriteToFile can report success without a successful Write and Sync: the marker may be renamed into place before its content is durable", nil)
	}

	// ---- C03.d WAL discarded on open
	if fn := c.Fn("C03.d", "store", "createDBOnDisk"); fn != nil {
		var rm []ssa.Value
		for _, call := range an.CallsTo(fn, false, "db.RemoveFiles", "db.RemoveWALFiles") {
			if an.Unwrap(call.Common().Args[0]) == ssa.Value(fn.Params[0]) {
				rm = append(rm, call.Value())
			}
		}
		okE := an.SenseEdges(fn, rm, an.IsNil)
		opens := func(in ssa.Instruction) bool {
			call, ok := in.(*ssa.Call)
			return ok && an.IsCall(call, "db.OpenSwappable")
		}
		hits := an.Ungated(an.CutSpec{Fn: fn, GateEdge: okE, Sink: opens})
		c.Result(len(rm) >= 2 && len(hits) == 0, "C03.d", "DOM", "createDBOnDisk:wal-removed-before-open", c.P.Pos(fn.Pos()),
			"the database is opened only after its files, or at least its WAL files, were removed", "createDBOnDisk can open the database with a WAL left over from the previous run: writes that the log will replay are applied on top of themselves", nil)
		// remove==true selects RemoveFiles
		var full []ssa.Value
		for _, call := range an.CallsTo(fn, false, "db.RemoveFiles") {
			full = append(full, call.Value())
		}
		tr := an.SenseEdges(fn, []ssa.Value{fn.Params[2]}, an.IsTrue)
		okFull := len(full) == 1 && len(tr) > 0
		if okFull {
			call := full[0].(*ssa.Call)
			h := an.Ungated(an.CutSpec{Fn: fn, GateEdge: tr, Sink: func(in ssa.Instruction) bool { return in == ssa.Instruction(call) }})
			fl := an.SenseEdges(fn, []ssa.Value{fn.Params[2]}, an.IsFalse)
			h2 := an.Ungated(an.CutSpec{Fn: fn, GateEdge: union(fl, an.SenseEdges(fn, full, an.IsNil)), Sink: opens})
			okFull = len(h) == 0 && len(h2) == 0
		}
		c.Result(okFull, "C03.d", "DOM", "createDBOnDisk:remove-flag-honoured", c.P.Pos(fn.Pos()),
			"remove=true deletes the database files before opening; only remove=false keeps the main file", "createDBOnDisk does not delete the database files when asked to: a restore-on-start then runs over stale files", nil)
	}

	// ---- C03.f the raft log is synced
	nOpt := 0
	for _, fn := range all {
		an.Instrs(fn, func(in ssa.Instruction) {
			st, ok := in.(*ssa.Store)
			if !ok {
				return
			}
			_, f, _, isF := an.FieldOf(st.Addr)
			if !isF || (f != "NoSync" && f != "NoGrowSync") {
				return
			}
			fa := st.Addr.(*ssa.FieldAddr)
			if !strings.Contains(fa.X.Type().String(), "bbolt") && !strings.Contains(fa.X.Type().String(), "raftboltdb") && !strings.Contains(fa.X.Type().String(), "raft-boltdb") {
				return
			}
			nOpt++
			b, isB := an.ConstBool(st.Val)
			c.Result(isB && !b, "C03.f", "CONST", "bolt:"+f+":"+core.FuncName(fn), c.P.Pos(st.Pos()), f+" is false",
				core.FuncName(fn)+" turns off fsync of a bolt store ("+f+"): an acknowledged write in the raft log can be lost on a crash", nil)
		})
	}
	if fn := c.Fn("C03.f", "store/log", "New"); fn != nil {
		calls := an.CallsTo(fn, false, "github.com/rqlite/raft-boltdb/v2.New", "raft-boltdb/v2.New")
		if len(calls) == 0 {
			for _, call := range an.AllCalls(fn, false) {
				if strings.HasSuffix(an.CalleeID(call), "raft-boltdb/v2.New") {
					calls = append(calls, call)
				}
			}
		}
		c.Result(len(calls) == 1, "C03.f", "CONST", "log.New:bolt-options", c.P.Pos(fn.Pos()),
			"the raft log store is created by raftboltdb.New with options that leave NoSync unset (stores to NoSync found: "+itoa(nOpt)+")",
			"the raft log store is no longer created by raftboltdb.New with the reviewed options", nil)
	}
	_ = sort.Strings
}

func boolStr(b bool) string {
	if b {
		return "true"
	}
	return "false"
}

func itoa(n int) string {
	if n == 0 {
		return "0"
	}
	s := ""
	for n > 0 {
		s = string(rune('0'+n%10)) + s
		n /= 10
	}
	return s
}

// checkCRCGoroutine: the verification goroutine returns normally only when a
// checksum matched (or the legacy zero CRC / test handler), and its exit path
// removes the marker before terminating the process.
func checkCRCGoroutine(c *core.Ctx, fn *ssa.Function) {
	c.Touch(fn)
	isFPcrc := func(v ssa.Value) bool { return an.LoadedField(deCell(an.Unwrap(v)), "FileFingerprint", "CRC32") }
	var sums []ssa.Value
	for _, call := range an.CallsTo(fn, false, "internal/rsum.CRC32WithTiming", "internal/rsum.CRC32IEEE", "internal/rsum.CRC32") {
		if an.MentionsField(call.Common().Args[0], "Store", "dbPath") {
			sums = append(sums, an.Result(call, 0)...)
		}
	}
	isSum := func(v ssa.Value) bool {
		v = deCell(an.Unwrap(v))
		for _, s := range sums {
			if v == s {
				return true
			}
		}
		if p, ok := v.(*ssa.Phi); ok {
			for _, e := range p.Edges {
				found := false
				for _, s := range sums {
					if e == s {
						found = true
					}
				}
				if !found {
					return false
				}
			}
			return true
		}
		return false
	}
	match := eqEdges(fn, isSum, isFPcrc)
	legacy := eqEdges(fn, isFPcrc, func(v ssa.Value) bool { k, ok := an.ConstInt(v); return ok && k == 0 })
	var exitFn *ssa.Function
	// the exit routine: a closure of the goroutine, or a private function of the package it calls
	cands := append([]*ssa.Function{}, fn.AnonFuncs...)
	for _, call := range an.AllCalls(fn, false) {
		if g := call.Common().StaticCallee(); g != nil && g.Pkg == an.TopFunc(fn).Pkg && len(g.Blocks) > 0 && isHelperName(g) {
			cands = append(cands, g)
		}
	}
	for _, cl := range cands {
		hasFatal := false
		for _, call := range an.AllCalls(cl, false) {
			if an.IsCall(call, "log.Logger.Fatal", "log.Logger.Fatalf", "os.Exit") {
				hasFatal = true
			}
		}
		if hasFatal {
			exitFn = cl
		}
	}
	gateInstr := func(in ssa.Instruction) bool {
		call, ok := in.(*ssa.Call)
		if !ok {
			return false
		}
		if mc, ok := call.Common().Value.(*ssa.MakeClosure); ok && exitFn != nil && mc.Fn == ssa.Value(exitFn) {
			return true
		}
		if g := call.Common().StaticCallee(); g != nil && exitFn != nil && g == exitFn {
			return true
		}
		return an.LoadedField(call.Common().Value, "Store", "crcBadHandler")
	}
	isRet := func(in ssa.Instruction) bool {
		r, ok := in.(*ssa.Return)
		return ok && (fn.Recover == nil || r.Block() != fn.Recover)
	}
	hits := an.Ungated(an.CutSpec{Fn: fn, GateEdge: union(match, legacy), GateInstr: gateInstr, Sink: isRet})
	c.Result(len(sums) > 0 && len(match) > 0 && exitFn != nil && len(hits) == 0, "C03.b", "DOM", "Open:crc-goroutine:returns-only-on-match", c.P.Pos(fn.Pos()),
		"the verification goroutine ends normally only when a checksum of Store.dbPath equals the marker's (or the marker has no checksum); every other path exits the process",
		"the checksum verification can end normally although the database file's checksum differs from the marker: a database file changed behind rqlite's back is kept", nil)
	if exitFn != nil {
		c.Touch(exitFn)
		var fatal ssa.Instruction
		for _, call := range an.AllCalls(exitFn, false) {
			if an.IsCall(call, "log.Logger.Fatal", "log.Logger.Fatalf", "os.Exit") {
				fatal = call.(ssa.Instruction)
			}
		}
		rm := func(in ssa.Instruction) bool {
			call, ok := in.(*ssa.Call)
			return ok && an.IsCall(call, "os.Remove", "internal/fsutil.RemoveFile") && isMarkerPath(call.Common().Args[0])
		}
		h := an.Ungated(an.CutSpec{Fn: exitFn, GateInstr: rm, Sink: func(in ssa.Instruction) bool { return in == fatal }})
		c.Result(fatal != nil && len(h) == 0, "C03.b", "ORD", "Open:crc-goroutine:marker-removed-before-exit", c.P.Pos(exitFn.Pos()),
			"the marker is removed before the process exits on a checksum failure, so the next start restores from the snapshot store",
			"the process exits on a checksum failure without removing the marker: every restart repeats the fast path on the bad file", nil)
	}
}
