package props

import (
	"go/types"

	"golang.org/x/tools/go/ssa"

	"rqverif/checker/internal/an"
	"rqverif/checker/internal/core"
)

// C03.g: a snapshot received from the leader is installed in the snapshot
// store by raft (sink.Close) before the FSM restores from it. From that moment
// the marker — "the database file equals the newest snapshot" — is false, so it
// must already be gone: the snapshot store handed to raft removes the marker
// before it hands out a sink.
func c03Install(c *core.Ctx) {
	open := c.Fn("C03.g", "store", "(*Store).Open")
	if open == nil {
		return
	}
	var newRaft ssa.CallInstruction
	for _, call := range an.AllCalls(open, false) {
		if an.CalleeID(call) == "github.com/hashicorp/raft.NewRaft" {
			newRaft = call
		}
	}
	if newRaft == nil || len(newRaft.Common().Args) < 6 {
		c.Unk("C03.g", "WHO", "Open:raft.NewRaft", c.P.Pos(open.Pos()), "the call of raft.NewRaft was not found in Store.Open")
		return
	}
	arg := newRaft.Common().Args[4]
	if ci, isCI := arg.(*ssa.ChangeInterface); isCI {
		arg = ci.X
	}
	if an.LoadedField(arg, "Store", "snapshotStore") {
		c.Bad("C03.g", "WHO", "Open:raft-snapshot-store-invalidates-marker", c.P.Pos(newRaft.Pos()),
			"Store.Open hands raft the snapshot store itself: creating a sink does not remove the clean_snapshot marker. When a snapshot is received from the leader, raft installs it in the store (sink.Close) before the FSM restores from it; a process that dies in between restarts with the old marker matching the old database file while the NEW snapshot is the newest in the store — the fast path is taken, the node adopts the new snapshot's index and keeps the old database (acknowledged writes are missing on that node)", nil)
		return
	}
	mi, ok := arg.(*ssa.MakeInterface)
	if !ok {
		c.Unk("C03.g", "WHO", "Open:raft.NewRaft:snapshots", c.P.Pos(newRaft.Pos()), "cannot tell the concrete type of the snapshot store handed to raft")
		return
	}
	t := mi.X.Type()
	named := t
	if p, isP := t.(*types.Pointer); isP {
		named = p.Elem()
	}
	tn := ""
	if n, isN := named.(*types.Named); isN {
		tn = n.Obj().Pkg().Path() + "." + n.Obj().Name()
	}
	sel := c.P.SSA.MethodSets.MethodSet(t).Lookup(nil, "Create")
	if sel == nil {
		for i := 0; i < c.P.SSA.MethodSets.MethodSet(t).Len(); i++ {
			if s := c.P.SSA.MethodSets.MethodSet(t).At(i); s.Obj().Name() == "Create" {
				sel = s
			}
		}
	}
	var create *ssa.Function
	if sel != nil {
		create = c.P.SSA.MethodValue(sel)
	}
	bad := "Store.Open hands raft a snapshot store (" + core.Short(tn) + ") whose Create does not remove the clean_snapshot marker first: when a snapshot is received from the leader, raft installs it in the store (sink.Close) before the FSM restores from it; a process that dies in between restarts with the old marker matching the old database file while the NEW snapshot is the newest in the store — the fast path is taken, the node adopts the new snapshot's index and keeps the old database (acknowledged writes are missing on that node)"
	if create == nil || len(create.Blocks) == 0 || create.Pkg == nil || create.Pkg.Pkg.Path() != core.ModPath+"/store" {
		c.Bad("C03.g", "WHO", "Open:raft-snapshot-store-invalidates-marker", c.P.Pos(newRaft.Pos()), bad, nil)
		return
	}
	c.Touch(create)
	// in Create: an invalidation (direct removal of the marker, or a call through a func field) whose nil edge gates the inner Create
	var inval []ssa.CallInstruction
	var inner []ssa.CallInstruction
	var fieldName string
	for _, call := range an.AllCalls(create, false) {
		cc := call.Common()
		switch {
		case cc.IsInvoke() && cc.Method.Name() == "Create":
			inner = append(inner, call)
		case !cc.IsInvoke() && cc.StaticCallee() == nil:
			if u, isU := cc.Value.(*ssa.UnOp); isU {
				if _, f, _, isF := an.FieldOf(u.X); isF {
					fieldName = f
					inval = append(inval, call)
				}
			}
		case an.IsCall(call, "internal/fsutil.RemoveFile", "os.Remove") && isMarkerPath(cc.Args[0]):
			inval = append(inval, call)
		}
	}
	okCreate := len(inval) == 1 && len(inner) == 1
	if okCreate {
		g := an.SenseEdges(create, an.ErrResult(inval[0]), an.IsNil)
		h := an.Ungated(an.CutSpec{Fn: create, GateEdge: g, Sink: func(in ssa.Instruction) bool { return in == inner[0].(ssa.Instruction) }})
		okCreate = len(g) > 0 && len(h) == 0
	}
	// the func field, if any, is bound in Open to a function that removes the marker
	okBind := fieldName == ""
	if fieldName != "" {
		for _, f := range an.WithClosures(open) {
			an.Instrs(f, func(in ssa.Instruction) {
				st, isS := in.(*ssa.Store)
				if !isS {
					return
				}
				if _, fl, _, isF := an.FieldOf(st.Addr); !isF || fl != fieldName {
					return
				}
				var body *ssa.Function
				switch v := st.Val.(type) {
				case *ssa.MakeClosure:
					body, _ = v.Fn.(*ssa.Function)
				case *ssa.Function:
					body = v
				}
				if body != nil && an.MayDo(body, func(x ssa.Instruction) bool {
					call, isC := x.(*ssa.Call)
					if !isC || !an.IsCall(call, "internal/fsutil.RemoveFile", "os.Remove") {
						return false
					}
					return an.MentionsField(call.Call.Args[0], "Store", "cleanSnapshotPath")
				}, 1, core.InModule) {
					okBind = true
				}
			})
		}
	}
	c.Result(okCreate && okBind, "C03.g", "WHO", "Open:raft-snapshot-store-invalidates-marker", c.P.Pos(newRaft.Pos()),
		"the snapshot store handed to raft ("+core.Short(tn)+") removes the marker, and only on success creates the sink", bad, nil)
}
