package props

import (
	"strings"

	"golang.org/x/tools/go/ssa"

	"rqverif/checker/internal/an"
	"rqverif/checker/internal/core"
)

func init() {
	register(&core.Check{
		ID:    "C04",
		Title: "Snapshot store plus log always rebuilds the applied state",
		Explanation: "C04.a DOM (typestate 'staged-WAL lineage'): WAL segments staged for an incremental snapshot are valid only for the database they were cut from. Decided by two obligations whose conjunction implies the invariant: (R1) in fsmSnapshot the dueNext.IsFull() edge passes a removal of Store.walStagingDir before any success return; (R2) every context that replaces the store's database (the LOAD case of fsmApply, ReadFrom, fsmRestore) passes, on its success path, SetDueNext(Full) (then R1 clears before any incremental) or the removal itself. " +
			"C04.b DECIDE: the OnRelease callback marks the next snapshot Full iff invoked ∧ ¬succeeded ∧ the staging directory no longer exists, and changes nothing otherwise (8 valuations). " +
			"C04.c DECIDE: snapshotDueNext returns Full iff the store says Full, the lookup failed, or dbModified() holds; dbModified's baseline is written only at snapshot/restore points (C22.d). " +
			"C04.d ORD: in the incremental branch of fsmSnapshot the staged segment is validated (walWriter.Close) only after Checkpoint returned nil, every error exit after CreateWAL runs walWriter.Cancel (deferred), and the stream handed to raft names the staging directory; snapshot.Sink.Close and ResolveFiles ordering is C09.",
		NotCovered: []string{"byte equality of the rebuilt database (needs executions)", "raft's own log compaction arithmetic"},
		Run:        runC04,
	})
}

func isRemoveStaging(in ssa.Instruction) bool {
	call, ok := in.(*ssa.Call)
	if !ok || !an.IsCall(call, "os.RemoveAll") {
		return false
	}
	return an.MentionsField(call.Common().Args[0], "Store", "walStagingDir")
}

func runC04(c *core.Ctx) {
	full := snapshotTypeConst(c, "Full")
	fsnap := c.Fn("C04.a", "store", "(*Store).fsmSnapshot")
	if fsnap != nil {
		// R1
		var isFull []ssa.Value
		for _, call := range an.CallsTo(fsnap, false, "snapshot.Type.IsFull") {
			isFull = append(isFull, call.Value())
		}
		fullEdges := an.SenseEdges(fsnap, isFull, an.IsTrue)
		var starts []*ssa.BasicBlock
		for e := range fullEdges {
			starts = append(starts, e.To)
		}
		if len(starts) == 0 {
			c.Unk("C04.a", "DOM", "fsmSnapshot:R1", c.P.Pos(fsnap.Pos()), "the full-snapshot branch (dueNext.IsFull()) was not found")
		} else {
			succ := map[ssa.Instruction]bool{}
			for _, r := range an.SuccessReturns(fsnap) {
				succ[r] = true
			}
			// the first IsFull test selects the branch; later IsFull tests (logging) come after the work
			hits := an.Ungated(an.CutSpec{Fn: fsnap, StartBlocks: starts[:1], GateInstr: isRemoveStaging,
				Sink: func(in ssa.Instruction) bool { return succ[in] }})
			// choose the earliest start block (branch selection), by block index
			best := starts[0]
			for _, s := range starts {
				if s.Index < best.Index {
					best = s
				}
			}
			hits = an.Ungated(an.CutSpec{Fn: fsnap, StartBlocks: []*ssa.BasicBlock{best}, GateInstr: isRemoveStaging,
				Sink: func(in ssa.Instruction) bool { return succ[in] }})
			c.Result(len(hits) == 0, "C04.a", "DOM", "fsmSnapshot:R1:full-clears-staging", c.P.Pos(fsnap.Pos()),
				"a full snapshot removes the WAL staging directory before it can succeed",
				"a full snapshot can succeed without removing the WAL staging directory: a segment staged earlier (persist skipped) survives and is packaged in front of the next incremental segment, reverting pages of the newer database", nil)
		}
	}
	// R2
	type ctxRow struct {
		name   string
		inCase int64 // command type case inside fsmApply, or -1
	}
	for _, row := range []ctxRow{{"(*Store).fsmApply", 4}, {"(*Store).ReadFrom", -1}, {"(*Store).fsmRestore", -1}} {
		fn := c.Fn("C04.a", "store", row.name)
		if fn == nil {
			continue
		}
		okR2 := false
		if row.inCase >= 0 {
			blocks := caseRegions(fn)[row.inCase]
			okR2 = regionHas(blocks, func(in ssa.Instruction) bool { return isSetDueNext(in, full) || isRemoveStaging(in) })
		} else {
			swaps := an.CallsTo(fn, false, "db.SwappableDB.Swap")
			if len(swaps) == 1 {
				okEdges := an.SenseEdges(fn, an.ErrResult(swaps[0]), an.IsNil)
				var starts []*ssa.BasicBlock
				for e := range okEdges {
					starts = append(starts, e.To)
				}
				succ := map[ssa.Instruction]bool{}
				for _, r := range an.SuccessReturns(fn) {
					succ[r] = true
				}
				hits := an.Ungated(an.CutSpec{Fn: fn, StartBlocks: starts,
					GateInstr: func(in ssa.Instruction) bool { return isSetDueNext(in, full) || isRemoveStaging(in) },
					Sink:      func(in ssa.Instruction) bool { return succ[in] }})
				okR2 = len(starts) > 0 && len(hits) == 0
			}
		}
		c.Result(okR2, "C04.a", "DOM", row.name+":R2:lineage-break", c.P.Pos(fn.Pos()),
			"after replacing the database this path marks the next snapshot Full or removes the staged segments",
			row.name+" replaces the database but neither marks the next snapshot Full nor removes the WAL staging directory: segments cut from the old database can be replayed over the new one", nil)
	}

	// C04.b OnRelease
	if fsnap != nil {
		var rel *ssa.Function
		for _, cl := range fsnap.AnonFuncs {
			if len(cl.Params) == 2 && cl.Params[0].Type().String() == "bool" && cl.Params[1].Type().String() == "bool" {
				rel = cl
			}
		}
		if rel == nil {
			c.Unk("C04.b", "DECIDE", "fsmSnapshot:OnRelease", c.P.Pos(fsnap.Pos()), "the OnRelease(invoked, succeeded) closure was not found")
		} else {
			c.Touch(rel)
			spec := an.DecideSpec{Fn: rel,
				Vars: []an.Var{an.Bool("invoked"), an.Bool("succeeded"), an.Bool("stagingExists"), {Name: "setOK", Values: []int{1}}},
				Conds: []an.CondMatcher{
					an.BoolCond("invoked", isParamN(rel, 0)),
					an.BoolCond("succeeded", isParamN(rel, 1)),
					an.BoolCond("stagingExists", func(v ssa.Value) bool {
						call, ok := v.(*ssa.Call)
						return ok && an.IsCall(call, "internal/fsutil.DirExists") && an.Mentions(call.Common().Args[0], func(x ssa.Value) bool {
							t, f, _, ok := an.FieldOf(x)
							return ok && t == "Store" && f == "walStagingDir"
						})
					}),
					an.NilCond("setOK", func(v ssa.Value) bool {
						return callResult(v, -1, "store.SnapshotStore.SetDueNext", "snapshot.Store.SetDueNext")
					}),
				},
				Effect: func(in ssa.Instruction) (string, bool) {
					if isSetDueNext(in, full) {
						return "SetDueNext(Full)", true
					}
					if call, ok := in.(*ssa.Call); ok && strings.HasSuffix(an.CalleeID(call), "SetDueNext") {
						return "SetDueNext(?)", true
					}
					if isRemoveStaging(in) {
						return "removeStaging", true
					}
					return "", false
				},
				Ret: func(*ssa.Return, func(ssa.Value) ssa.Value) string { return "" },
				Ref: func(v an.Val) string {
					if v["invoked"] == 1 && v["succeeded"] == 0 && v["stagingExists"] == 0 {
						return "SetDueNext(Full) => "
					}
					return " => "
				},
			}
			reportDecide(c, "C04.b", "fsmSnapshot:OnRelease", c.P.Pos(rel.Pos()), an.Decide(spec, c.P.Pos))
		}
	}

	// C04.c snapshotDueNext
	if fn := c.Fn("C04.c", "store", "(*Store).snapshotDueNext"); fn != nil {
		spec := an.DecideSpec{Fn: fn,
			Vars: []an.Var{an.Bool("lookupOK"), an.Bool("storeSaysFull"), an.Bool("modified")},
			Conds: []an.CondMatcher{
				an.NilCond("lookupOK", func(v ssa.Value) bool {
					return callResult(v, 1, "store.SnapshotStore.DueNext", "snapshot.Store.DueNext")
				}),
				func(cond ssa.Value) (func(an.Val) bool, bool) {
					ev, ok := an.CmpCond("_", func(v ssa.Value) bool {
						return callResult(v, 0, "store.SnapshotStore.DueNext", "snapshot.Store.DueNext")
					}, an.IsConstInt(full))(cond)
					if !ok {
						return nil, false
					}
					return func(v an.Val) bool { return ev(an.Val{"_": 1 - v["storeSaysFull"]}) }, true
				},
				boolOf("modified", -1, "store.Store.dbModified"),
			},
			Ret: func(r *ssa.Return, resolve func(ssa.Value) ssa.Value) string {
				k, ok := an.ConstInt(resolve(r.Results[0]))
				if !ok {
					return "?"
				}
				if k == full {
					return "Full"
				}
				return "Incremental"
			},
			Ref: func(v an.Val) string {
				if v["lookupOK"] == 0 || v["storeSaysFull"] == 1 || v["modified"] == 1 {
					return " => Full"
				}
				return " => Incremental"
			},
		}
		reportDecide(c, "C04.c", "(*Store).snapshotDueNext", c.P.Pos(fn.Pos()), an.Decide(spec, c.P.Pos))
	}
	checkDBModifiedWriters(c, "C04.c")

	// C04.d incremental branch ordering
	if fsnap != nil {
		creates := an.CallsTo(fsnap, false, "snapshot.StagingDir.CreateWAL")
		cps := an.CallsTo(fsnap, false, "store.checkpointer.Checkpoint", "db.SwappableDB.Checkpoint", "store.Checkpointer.Checkpoint")
		var closeW ssa.CallInstruction
		for _, cl := range an.CallsTo(fsnap, false, "snapshot.WALWriter.Close") {
			if _, isDefer := cl.(*ssa.Defer); !isDefer {
				closeW = cl
			}
		}
		if len(creates) != 1 || closeW == nil {
			c.Unk("C04.d", "ORD", "fsmSnapshot:incremental", c.P.Pos(fsnap.Pos()), "CreateWAL / walWriter.Close not found in fsmSnapshot")
			return
		}
		// the checkpoint that receives the WAL writer
		var cp ssa.CallInstruction
		w := an.Result(creates[0], 0)
		for _, x := range an.AllCalls(fsnap, false) {
			if strings.HasSuffix(an.CalleeID(x), ".Checkpoint") {
				for _, a := range x.Common().Args {
					for _, wv := range w {
						if an.MentionsValue(a, wv) {
							cp = x
						}
					}
				}
			}
		}
		_ = cps
		if cp == nil {
			c.Unk("C04.d", "ORD", "fsmSnapshot:incremental:checkpoint", c.P.Pos(fsnap.Pos()), "the checkpoint that writes into the staged WAL was not found")
			return
		}
		okEdges := an.SenseEdges(fsnap, an.ErrResult(cp), an.IsNil)
		ci := closeW.(ssa.Instruction)
		hits := an.Ungated(an.CutSpec{Fn: fsnap, GateEdge: okEdges, Sink: func(in ssa.Instruction) bool { return in == ci }})
		c.Result(len(okEdges) > 0 && len(hits) == 0, "C04.d", "ORD", "fsmSnapshot:incremental:close-after-checkpoint", c.P.Pos(closeW.Pos()),
			"the staged segment is marked valid (walWriter.Close) only after Checkpoint returned nil",
			"the staged segment can be marked valid without a successful checkpoint", nil)
		// deferred Cancel right after CreateWAL
		okC := an.SenseEdges(fsnap, an.ErrResult(creates[0]), an.IsNil)
		var st2 []*ssa.BasicBlock
		for e := range okC {
			st2 = append(st2, e.To)
		}
		hits = an.Ungated(an.CutSpec{Fn: fsnap, StartBlocks: st2,
			GateInstr: func(in ssa.Instruction) bool {
				d, ok := in.(*ssa.Defer)
				return ok && an.IsCall(d, "snapshot.WALWriter.Cancel")
			},
			Sink: func(in ssa.Instruction) bool {
				if _, ok := in.(*ssa.Return); ok {
					return true
				}
				return in == cp.(ssa.Instruction)
			}})
		c.Result(len(st2) > 0 && len(hits) == 0, "C04.d", "PAIR", "fsmSnapshot:incremental:cancel-deferred", c.P.Pos(creates[0].Pos()),
			"walWriter.Cancel is deferred before the checkpoint and before any exit", "an exit (or the checkpoint) after CreateWAL is reachable without Cancel having been deferred: a failed checkpoint leaves a segment staged", nil)
	}
}
