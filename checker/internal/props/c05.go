package props

import (
	"fmt"
	"go/token"
	"sort"
	"strings"

	"golang.org/x/tools/go/ssa"

	"rqverif/checker/internal/an"
	"rqverif/checker/internal/core"
)

func init() {
	register(&core.Check{
		ID:    "C05",
		Title: "WAL compaction is equivalent to the original WAL",
		Explanation: "Decides structural necessary conditions of the compaction, not the byte equality of the checkpointed databases (a statement about values). " +
			"C05.a TABLE: every encoder and decoder of the WAL format in the module (Reader.ReadHeader/ReadFrame, WALHeader.Copy, Writer.writeWALHeader/writeFrame, CompactingFrameScanner.Bytes, ReadSaltAt, db.IsValidSQLiteWALData) places each field at the byte offset of the SQLite WAL specification (header: magic 0, version 4, page size 8, sequence 12, salt 16/20, checksum 24/28; frame: page 0, commit 4, salt 8/12, checksum 16/20); a codec site in db/wal that is not in the reviewed table is undecided. " +
			"C05.b ORD (checksum chain): in every frame writer and in ReadFrame the running checksum is advanced over the first 8 header bytes and then over the page data, each step seeded by the previous one, the stored/compared checksum is the result of the second step, and the chain is seeded from the WAL header's checksum (field stores in NewWriter/writeWALHeader, phi entry edges in Bytes, ReadHeader). " +
			"C05.c DOM (scan): frames reach the output map only through maps.Copy on the commit!=0 edge and keyed by page number; the loop-carried waitingForCommit flag is true exactly on the commit==0 back edge; a nil-error return requires waitingForCommit false (ErrOpenTransaction otherwise) and passes the sort by file offset; the per-frame offset is derived from Reader.Offset; Next/Bytes read page data at Offset+WALFrameHeaderSize; Writer.WriteTo returns nil only after Next returned io.EOF. " +
			"C05.d DOM (valid prefix): ReadFrame returns success only if both salts equal the header's, and — when page data is read — only if both checksums equal the chain; every production construction of a compacting scanner must request checksum validation, otherwise frames beyond the valid prefix with matching salts (left by a rolled-back transaction that spilled into the WAL) are scanned. " +
			"C05.e CONST (byte order): in package db/wal a byte order held in a variable (the one the magic number selects) reads or writes integers only inside WALChecksum; every WAL field, including the stored checksums, is accessed through binary.BigEndian. " +
			"C05.f CONST (page sizes): no comparison of a page-size value (a pageSize field, a value stored into one, or a parameter that receives one inside the package) with a constant lies strictly between 512 and 65536.",
		NotCovered: []string{"byte equality of the databases after checkpoint (needs SQLite executions)", "the arithmetic of Reader.Offset and of the start offset", "WALChecksum's arithmetic"},
		Run:        runC05,
	})
}

var walHeaderTable = map[string]int64{"magic": 0, "version": 4, "pagesize": 8, "seq": 12, "salt1": 16, "salt2": 20, "checksum1": 24, "checksum2": 28}
var walFrameTable = map[string]int64{"pgno": 0, "commit": 4, "salt1": 8, "salt2": 12, "checksum1": 16, "checksum2": 20}

// reviewed codec functions: which table they use and a base file offset
var walCodecFuncs = map[string]struct {
	table string
	base  int64
}{
	"(*db/wal.Reader).ReadHeader":                     {"header", 0},
	"(*db/wal.WALHeader).Copy":                        {"header", 0},
	"(*db/wal.Writer).writeWALHeader":                 {"header", 0},
	"db/wal.ReadSaltAt":                               {"header", 16},
	"db.IsValidSQLiteWALData":                         {"header", 0},
	"(*db/wal.Reader).ReadFrame":                      {"frame", 0},
	"(*db/wal.Writer).writeFrame":                     {"frame", 0},
	"(*db/wal.CompactingFrameScanner).Bytes":          {"frame", 0},
	"(*db/wal.CompactingFrameScanner).rescanVerified": {"frame", 0},
}

// isVerifiedRescan: fn switches the scanner to checksum validation, installs a
// reader whose chain starts from a freshly read WAL header, and scans again.
func isVerifiedRescan(fn *ssa.Function) bool {
	if len(fn.Blocks) == 0 {
		return false
	}
	var setFull, newHdr, rescan ssa.Instruction
	an.Instrs(fn, func(in ssa.Instruction) {
		if st, ok := in.(*ssa.Store); ok {
			if b, isB := an.ConstBool(st.Val); isB && b && an.LoadedField(st.Addr, "CompactingFrameScanner", "fullScan") {
				setFull = in
			}
		}
		if call, ok := in.(*ssa.Call); ok {
			if an.IsCall(call, "db/wal.Reader.ReadHeader") {
				newHdr = in
			}
			if an.IsCall(call, "db/wal.CompactingFrameScanner.scan") {
				rescan = in
			}
		}
	})
	return setFull != nil && newHdr != nil && rescan != nil && an.Dominates(setFull, rescan) && an.Dominates(newHdr, rescan)
}

// inferWALTable decides, for a codec function outside the reviewed table,
// whether it handles the WAL header or a frame header: by a field only one of
// them has, otherwise by the offsets used for the fields both have.
func inferWALTable(fn *ssa.Function) string {
	hdr, frm := 0, 0
	for _, call := range an.AllCalls(fn, false) {
		enc, ok := isBinaryCodec(call)
		if !ok || call.Common().IsInvoke() {
			continue
		}
		args := call.Common().Args
		buf := args[len(args)-1]
		if enc {
			buf = args[len(args)-2]
		}
		off, _, okOff := sliceLow(buf)
		var roles []string
		if enc {
			roles = encRole(args[len(args)-1])
		} else {
			roles = decRoles(fn, call.Value())
		}
		if len(roles) != 1 || !okOff {
			continue
		}
		switch roles[0] {
		case "magic", "version", "pagesize", "seq":
			hdr += 10
		case "pgno", "commit":
			frm += 10
		default:
			if walHeaderTable[roles[0]] == off {
				hdr++
			}
			if walFrameTable[roles[0]] == off {
				frm++
			}
		}
	}
	switch {
	case hdr > 0 && frm == 0, hdr >= 10 && frm < 10:
		return "header"
	case frm > 0 && hdr == 0, frm >= 10 && hdr < 10:
		return "frame"
	}
	return ""
}

func normRole(f string) string {
	f = strings.ToLower(f)
	f = strings.Replace(f, "chksum", "checksum", 1)
	return f
}

// sliceLow splits the low bound of a slice expression into variable part and constant.
func sliceLow(v ssa.Value) (off int64, varPart string, ok bool) {
	sl, isSl := v.(*ssa.Slice)
	if !isSl {
		return 0, "", false
	}
	if sl.Low == nil {
		// a reslice of a slice: inherit
		if o, vp, ok2 := sliceLow(sl.X); ok2 {
			return o, vp, true
		}
		return 0, "", true
	}
	if k, isK := an.ConstInt(sl.Low); isK {
		return k, "", true
	}
	if bo, isB := sl.Low.(*ssa.BinOp); isB && bo.Op == token.ADD {
		if k, isK := an.ConstInt(bo.Y); isK {
			return k, an.Canon(bo.X), true
		}
		if k, isK := an.ConstInt(bo.X); isK {
			return k, an.Canon(bo.Y), true
		}
	}
	return 0, an.Canon(sl.Low), true
}

// isHdr8 reports whether v is the first eight bytes of a frame header buffer.
func isHdr8(v ssa.Value) bool {
	sl, ok := v.(*ssa.Slice)
	if !ok || sl.High == nil {
		return false
	}
	if sl.Low == nil {
		k, isK := an.ConstInt(sl.High)
		return isK && k == 8
	}
	if bo, isB := sl.High.(*ssa.BinOp); isB && bo.Op == token.ADD {
		k, isK := an.ConstInt(bo.Y)
		return isK && k == 8 && bo.X == sl.Low
	}
	return false
}

// fwdField forwards a load of a struct field to the value last stored to the
// same field in the same function when that store dominates the load and every
// other store to the field either dominates that store or comes after the load.
func fwdField(v ssa.Value) ssa.Value {
	for i := 0; i < 4; i++ {
		u, ok := v.(*ssa.UnOp)
		if !ok || u.Op != token.MUL {
			return v
		}
		fa, ok := u.X.(*ssa.FieldAddr)
		if !ok {
			return v
		}
		key := an.Canon(fa)
		var best *ssa.Store
		okAll := true
		an.Instrs(u.Parent(), func(in ssa.Instruction) {
			st, isSt := in.(*ssa.Store)
			if !isSt {
				return
			}
			sfa, isFA := st.Addr.(*ssa.FieldAddr)
			if !isFA || an.Canon(sfa) != key {
				return
			}
			switch {
			case an.Dominates(st, u):
				if best == nil || an.Dominates(best, st) {
					best = st
				} else if !an.Dominates(st, best) {
					okAll = false
				}
			case an.Dominates(u, st):
			default:
				okAll = false
			}
		})
		if best == nil || !okAll {
			return v
		}
		v = best.Val
	}
	return v
}

// checksumIdx: v is result #i (0 or 1) of a WALChecksum call.
func checksumIdx(v ssa.Value) (*ssa.Call, int, bool) {
	ex, ok := v.(*ssa.Extract)
	if !ok {
		return nil, 0, false
	}
	call, ok := ex.Tuple.(*ssa.Call)
	if !ok || !an.IsCall(call, "db/wal.WALChecksum") || ex.Index > 1 {
		return nil, 0, false
	}
	return call, ex.Index, true
}

func isBinaryCodec(call ssa.CallInstruction) (enc bool, ok bool) {
	id := an.CalleeID(call)
	switch {
	case strings.HasSuffix(id, "ndian.PutUint32"):
		return true, true
	case strings.HasSuffix(id, "ndian.Uint32"):
		return false, true
	}
	return false, false
}

// encRole: the role of the value written by an encoder.
func encRole(v ssa.Value) []string {
	v = fwdField(v)
	if _, i, ok := checksumIdx(v); ok {
		return []string{fmt.Sprintf("checksum%d", i+1)}
	}
	if u, ok := v.(*ssa.UnOp); ok && u.Op == token.MUL {
		if _, f, _, ok := an.FieldOf(u.X); ok {
			return []string{normRole(f)}
		}
	}
	return nil
}

// decRoles: the roles a decoded value is used in.
func decRoles(fn *ssa.Function, v ssa.Value) []string {
	set := map[string]bool{}
	var visit func(x ssa.Value, depth int)
	visit = func(x ssa.Value, depth int) {
		refs := x.Referrers()
		if refs == nil || depth > 2 {
			return
		}
		for _, r := range *refs {
			switch t := r.(type) {
			case *ssa.Store:
				if t.Val != x {
					continue
				}
				if _, f, _, ok := an.FieldOf(t.Addr); ok {
					set[normRole(f)] = true
				} else if ia, ok := t.Addr.(*ssa.IndexAddr); ok {
					if k, ok := an.ConstInt(ia.Index); ok && strings.Contains(ia.X.Type().String(), "Salt") {
						set[fmt.Sprintf("salt%d", k+1)] = true
					}
				}
			case *ssa.BinOp:
				if t.Op != token.EQL && t.Op != token.NEQ {
					continue
				}
				other := t.Y
				if other == x {
					other = t.X
				}
				if k, ok := an.ConstInt(other); ok {
					switch k {
					case 3007000:
						set["version"] = true
					case 0x377f0682, 0x377f0683:
						set["magic"] = true
					case 0:
						// pgno == 0 test: not a role by itself
					}
					continue
				}
				o := fwdField(other)
				if _, i, ok := checksumIdx(o); ok {
					set[fmt.Sprintf("checksum%d", i+1)] = true
				} else if u, ok := other.(*ssa.UnOp); ok && u.Op == token.MUL {
					if _, f, _, ok := an.FieldOf(u.X); ok {
						set[normRole(f)] = true
					}
				}
			case *ssa.Return:
				for i, rv := range t.Results {
					if rv == x && i < fn.Signature.Results().Len() {
						if n := fn.Signature.Results().At(i).Name(); n != "" {
							set[normRole(n)] = true
						}
					}
				}
			case *ssa.Phi:
				visit(t, depth+1)
			}
		}
	}
	visit(v, 0)
	var out []string
	for k := range set {
		out = append(out, k)
	}
	sort.Strings(out)
	return out
}

func runC05(c *core.Ctx) {
	c05e(c)
	// ---- C05.a layout table
	nSites := 0
	walPkg := c.P.SPkg("db/wal")
	dbPkg := c.P.SPkg("db")
	var fns []*ssa.Function
	if walPkg != nil {
		fns = append(fns, pkgFuncs(walPkg)...)
	}
	if dbPkg != nil {
		for _, f := range pkgFuncs(dbPkg) {
			if core.FuncName(f) == "db.IsValidSQLiteWALData" {
				fns = append(fns, f)
			}
		}
	}
	seenFn := map[string]bool{}
	for _, fn := range fns {
		name := core.FuncName(fn)
		for _, call := range an.AllCalls(fn, false) {
			enc, ok := isBinaryCodec(call)
			if !ok {
				continue
			}
			args := call.Common().Args
			// method on a value receiver: args[0] is the receiver
			bufArg := args[len(args)-1]
			if enc {
				bufArg = args[len(args)-2]
			}
			// byte-order generic helpers (WALChecksum uses bo.Uint32 via the interface: invoke, skipped by IsCall on static callee)
			if call.Common().IsInvoke() {
				continue
			}
			row, reviewed := walCodecFuncs[name]
			if !reviewed {
				// a helper that is not in the reviewed table (e.g. extracted by a
				// refactor): infer which structure it handles from the fields it
				// names; only an ambiguous helper is undecided
				tbl := inferWALTable(fn)
				if tbl == "" {
					c.Unk("C05.a", "TABLE", "codec-site:"+name, c.P.Pos(call.Pos()), name+" encodes or decodes 32-bit big-endian fields, is not in the reviewed table of WAL codec functions, and the fields it names do not tell whether it handles the WAL header or a frame header")
					continue
				}
				row.table, row.base = tbl, 0
			}
			seenFn[name] = true
			off, _, okOff := sliceLow(bufArg)
			if !okOff {
				c.Unk("C05.a", "TABLE", "codec-site:"+name+":offset", c.P.Pos(call.Pos()), "the byte offset of this field access is not a slice expression with a constant part")
				continue
			}
			var roles []string
			if enc {
				roles = encRole(args[len(args)-1])
			} else {
				roles = decRoles(fn, call.Value())
			}
			table := walHeaderTable
			if row.table == "frame" {
				table = walFrameTable
			}
			nSites++
			c.Sites++
			dir := "decodes"
			if enc {
				dir = "encodes"
			}
			if len(roles) != 1 {
				c.Unk("C05.a", "TABLE", fmt.Sprintf("layout:%s:%s@%d", name, dir, off+row.base), c.P.Pos(call.Pos()),
					fmt.Sprintf("cannot name the field accessed at offset %d (candidates %v)", off+row.base, roles))
				continue
			}
			want, known := table[roles[0]]
			c.Result(known && want == off+row.base, "C05.a", "TABLE", fmt.Sprintf("layout:%s:%s:%s", name, dir, roles[0]), c.P.Pos(call.Pos()),
				fmt.Sprintf("%s %s at %s offset %d", dir, roles[0], row.table, off+row.base),
				fmt.Sprintf("%s %s %s at %s offset %d; the SQLite WAL format places it at %d: the compacted WAL is not readable by SQLite (or valid frames are rejected)", name, dir, roles[0], row.table, off+row.base, want), nil)
		}
	}
	c.Count("WAL codec field accesses", nSites)
	c.Min("WAL codec field accesses", 40)
	for n := range walCodecFuncs {
		if !seenFn[n] && n != "(*db/wal.CompactingFrameScanner).rescanVerified" {
			// moved into a helper by a refactor: the helper is checked where it is; the floor on the number of accesses guards against losing them
			c.Note("reviewed codec function %s has no field accesses of its own any more", n)
		}
	}
	// size constants
	for _, kc := range []struct {
		name string
		want int64
	}{{"WALHeaderSize", 32}, {"WALFrameHeaderSize", 24}} {
		ok := false
		if walPkg != nil {
			if m, isC := walPkg.Members[kc.name].(*ssa.NamedConst); isC {
				if v, isI := an.ConstInt(m.Value); isI && v == kc.want {
					ok = true
				}
			}
		}
		c.Result(ok, "C05.a", "CONST", "size:"+kc.name, "", fmt.Sprintf("%s = %d", kc.name, kc.want), fmt.Sprintf("%s is not %d", kc.name, kc.want), nil)
	}

	// ---- C05.b checksum chain
	type chainFn struct {
		name   string
		reader bool
	}
	for _, cf := range []chainFn{{"(*Writer).writeFrame", false}, {"(*CompactingFrameScanner).Bytes", false}, {"(*Reader).ReadFrame", true}} {
		fn := c.Fn("C05.b", "db/wal", cf.name)
		if fn == nil {
			continue
		}
		var c1, c2 *ssa.Call
		n := 0
		for _, call := range an.CallsTo(fn, false, "db/wal.WALChecksum") {
			cc, _ := call.(*ssa.Call)
			if cc == nil {
				continue
			}
			n++
			if isHdr8(cc.Call.Args[3]) {
				c1 = cc
			} else {
				c2 = cc
			}
		}
		key := "chain:" + cf.name
		if n != 2 || c1 == nil || c2 == nil {
			c.Unk("C05.b", "ORD", key, c.P.Pos(fn.Pos()), fmt.Sprintf("expected one checksum step over the first 8 header bytes and one over the page data, found %d WALChecksum calls", n))
			continue
		}
		// page data step: argument is the frame's data
		dataOK := false
		d := c2.Call.Args[3]
		switch {
		case cf.reader:
			dataOK = len(fn.Params) > 1 && an.Unwrap(d) == ssa.Value(fn.Params[1])
		case cf.name == "(*Writer).writeFrame":
			dataOK = an.LoadedField(d, "Frame", "Data")
		default:
			// Bytes: buf[frmData : frmData+pageSz] where frmData = frmHdr + WALFrameHeaderSize
			if sl, ok := d.(*ssa.Slice); ok && sl.Low != nil {
				if bo, ok := sl.Low.(*ssa.BinOp); ok && bo.Op == token.ADD {
					k, isK := an.ConstInt(bo.Y)
					dataOK = isK && k == 24
				}
			}
		}
		c.Result(dataOK, "C05.b", "ORD", key+":data-step-covers-page", c.P.Pos(c2.Pos()), "the second checksum step covers the frame's page data", "the second checksum step does not cover the frame's page data", nil)
		// c2 seeded by c1
		seeded := an.Dominates(c1, c2)
		for i := 0; i < 2 && seeded; i++ {
			cc, idx, ok := checksumIdx(fwdField(c2.Call.Args[1+i]))
			seeded = ok && cc == c1 && idx == i
		}
		c.Result(seeded, "C05.b", "ORD", key+":data-step-seeded-by-header-step", c.P.Pos(c2.Pos()),
			"the page-data step continues from the result of the header step (s0,s1 in order)",
			cf.name+": the checksum over the page data is not seeded with the result of the step over the first 8 header bytes: the frame checksums no longer chain and SQLite stops reading the compacted WAL at this frame", nil)
		// c1 seeded by running state
		stateOK := true
		var stateDesc []string
		for i := 0; i < 2; i++ {
			a := fwdField(c1.Call.Args[1+i])
			want := fmt.Sprintf("checksum%d", i+1)
			switch x := a.(type) {
			case *ssa.UnOp:
				_, f, _, ok := an.FieldOf(x.X)
				if !(ok && normRole(f) == want) {
					stateOK = false
				}
				stateDesc = append(stateDesc, "field "+f)
			case *ssa.Phi:
				// loop-carried: entry edge = header checksum, back edge = result i of c2
				okPhi := len(x.Edges) == 2
				for _, e := range x.Edges {
					e = fwdField(e)
					if cc, idx, ok := checksumIdx(e); ok {
						if cc != c2 || idx != i {
							okPhi = false
						}
						continue
					}
					if !an.LoadedField(e, "WALHeader", fmt.Sprintf("Checksum%d", i+1)) {
						okPhi = false
					}
				}
				if !okPhi {
					stateOK = false
				}
				stateDesc = append(stateDesc, "loop-carried from header.Checksum")
			default:
				stateOK = false
			}
		}
		c.Result(stateOK, "C05.b", "ORD", key+":header-step-seeded-by-running-checksum", c.P.Pos(c1.Pos()),
			"the header step continues from the running checksum ("+strings.Join(stateDesc, ", ")+")",
			cf.name+": the checksum over the frame header does not continue from the running checksum of the previous frame / WAL header", nil)
		// the stored / compared checksum is c2's result, and the running state after the frame is c2's result
		if cf.reader {
			// success requires equality of chain result and stored checksum
			okCmp := true
			for i := 0; i < 2; i++ {
				idx := i
				isChain := func(v ssa.Value) bool {
					cc, j, ok := checksumIdx(fwdField(v))
					return ok && cc == c2 && j == idx
				}
				isStored := func(v ssa.Value) bool {
					call, ok := v.(*ssa.Call)
					if !ok {
						return false
					}
					if _, isCodec := isBinaryCodec(call); !isCodec {
						return false
					}
					off, _, ok := sliceLow(call.Call.Args[len(call.Call.Args)-1])
					return ok && off == int64(16+4*idx)
				}
				eq := eqEdges(fn, isChain, isStored)
				succ := map[ssa.Instruction]bool{}
				for _, r := range an.SuccessReturns(fn) {
					succ[r] = true
				}
				// only on the data != nil side
				notNil := an.SenseEdges(fn, []ssa.Value{fn.Params[1]}, an.NotNil)
				var starts []*ssa.BasicBlock
				for e := range notNil {
					// the test that guards the reading of the page data
					if len(e.To.Instrs) > 0 && (e.To == c2.Block() || an.Dominates(e.To.Instrs[0], c2)) {
						starts = append(starts, e.To)
					}
				}
				h := an.Ungated(an.CutSpec{Fn: fn, StartBlocks: starts, GateEdge: eq, Sink: func(in ssa.Instruction) bool { return succ[in] }})
				if len(eq) == 0 || len(starts) == 0 || len(h) > 0 {
					okCmp = false
				}
			}
			c.Result(okCmp, "C05.d", "DOM", "ReadFrame:checksum-verified-when-data-read", c.P.Pos(fn.Pos()),
				"when page data is read, ReadFrame succeeds only if both chained checksums equal the ones stored in the frame header",
				"ReadFrame can accept a frame whose checksum does not continue the chain although the page data was read: frames beyond the valid prefix are returned", nil)
		} else {
			okPut := true
			nPut := 0
			for _, call := range an.AllCalls(fn, false) {
				enc, ok := isBinaryCodec(call)
				if !ok || !enc {
					continue
				}
				args := call.Common().Args
				off, _, _ := sliceLow(args[len(args)-2])
				if off != 16 && off != 20 {
					continue
				}
				nPut++
				cc, idx, ok := checksumIdx(fwdField(args[len(args)-1]))
				if !(ok && cc == c2 && int64(16+4*idx) == off && an.Dominates(c2, call.(ssa.Instruction))) {
					okPut = false
				}
			}
			c.Result(okPut && nPut == 2, "C05.b", "ORD", key+":stored-checksum-is-chain-result", c.P.Pos(fn.Pos()),
				"the checksums written at frame offsets 16/20 are results 0/1 of the page-data step",
				cf.name+": the checksum written into the frame header is not the result of the header+data chain", nil)
		}
	}
	// seeds
	for _, sf := range []string{"NewWriter", "(*Writer).writeWALHeader"} {
		fn := c.Fn("C05.b", "db/wal", sf)
		if fn == nil {
			continue
		}
		ok := 0
		an.Instrs(fn, func(in ssa.Instruction) {
			st, isSt := in.(*ssa.Store)
			if !isSt {
				return
			}
			_, f, _, isF := an.FieldOf(st.Addr)
			if !isF {
				return
			}
			for i := 1; i <= 2; i++ {
				if f == fmt.Sprintf("chksum%d", i) {
					if an.LoadedField(st.Val, "WALHeader", fmt.Sprintf("Checksum%d", i)) {
						ok++
					} else {
						ok -= 10
					}
				}
			}
		})
		c.Result(ok == 2, "C05.b", "ORD", "chain:seed:"+sf, c.P.Pos(fn.Pos()), "the writer's running checksum starts from the source WAL header's checksum",
			sf+" does not seed the running checksum from the source header's Checksum1/Checksum2 (in order): every frame checksum of the compacted WAL is wrong", nil)
	}

	// ---- C05.c scan
	if fn := c.Fn("C05.c", "db/wal", "(*CompactingFrameScanner).scan"); fn != nil {
		rfs := an.CallsTo(fn, false, "db/wal.Reader.ReadFrame")
		if len(rfs) != 1 {
			c.Unk("C05.c", "DOM", "scan:ReadFrame", c.P.Pos(fn.Pos()), "expected one ReadFrame call in scan")
		} else {
			rf := rfs[0]
			pgno, commit := an.Result(rf, 0), an.Result(rf, 1)
			isCommit := func(v ssa.Value) bool {
				for _, x := range commit {
					if v == x {
						return true
					}
				}
				return false
			}
			isZero := func(v ssa.Value) bool { k, ok := an.ConstInt(v); return ok && k == 0 }
			zeroEdges := eqEdges(fn, isCommit, isZero)
			nonZero := map[an.Edge]bool{}
			for e := range zeroEdges {
				for _, s := range e.From.Succs {
					if s != e.To {
						nonZero[an.Edge{From: e.From, To: s}] = true
					}
				}
			}
			// output map: the destination of maps.Copy
			var copies []*ssa.Call
			for _, call := range an.AllCalls(fn, false) {
				if cc, ok := call.(*ssa.Call); ok && strings.HasPrefix(an.CalleeID(call), "maps.Copy") {
					copies = append(copies, cc)
				}
			}
			if len(copies) != 1 || len(zeroEdges) == 0 {
				c.Unk("C05.c", "DOM", "scan:commit-structure", c.P.Pos(fn.Pos()), "expected one maps.Copy and a commit==0 test in scan")
			} else {
				cp := copies[0]
				out, tx := cp.Call.Args[0], cp.Call.Args[1]
				h := an.Ungated(an.CutSpec{Fn: fn, GateEdge: nonZero, Sink: func(in ssa.Instruction) bool { return in == ssa.Instruction(cp) }})
				c.Result(len(h) == 0 && out != tx, "C05.c", "DOM", "scan:publish-only-on-commit", c.P.Pos(cp.Pos()),
					"a transaction's frames are merged into the output only on a frame with commit != 0",
					"scan merges a transaction's frames into the output without having seen its commit frame: uncommitted pages are checkpointed into the snapshot", nil)
				// no other writer of the output map; the tx map is keyed by page number
				okW, okKey, nTx := true, true, 0
				an.Instrs(fn, func(in ssa.Instruction) {
					mu, ok := in.(*ssa.MapUpdate)
					if !ok {
						return
					}
					if mu.Map == out {
						okW = false
					}
					if mu.Map == tx {
						nTx++
						isP := false
						for _, p := range pgno {
							if mu.Key == p {
								isP = true
							}
						}
						if !isP {
							okKey = false
						}
						// the stored frame records pgno, commit, offset
					}
				})
				c.Result(okW && okKey && nTx == 1, "C05.c", "DOM", "scan:latest-version-per-page", c.P.Pos(fn.Pos()),
					"within a transaction frames are keyed by page number (later frames replace earlier ones) and the output map is written only by the commit merge",
					"scan writes the output map outside the commit merge, or does not key frames by page number", nil)
				// the frame record
				recOK := 0
				an.Instrs(fn, func(in ssa.Instruction) {
					st, ok := in.(*ssa.Store)
					if !ok {
						return
					}
					t, f, _, isF := an.FieldOf(st.Addr)
					if !isF || t != "cFrame" {
						return
					}
					switch f {
					case "Pgno":
						if len(pgno) > 0 && st.Val == pgno[0] {
							recOK++
						}
					case "Commit":
						if len(commit) > 0 && st.Val == commit[0] {
							recOK++
						}
					case "Offset":
						if an.MentionsCall(st.Val, "db/wal.Reader.Offset") && an.MentionsField(st.Val, "CompactingFrameScanner", "start") {
							recOK++
						}
					}
				})
				// … on every path from the read to the commit test (a reused record must be brought up to date)
				var commitTest ssa.Instruction
				for e := range zeroEdges {
					commitTest = e.From.Instrs[len(e.From.Instrs)-1]
				}
				for _, fld := range []string{"Commit", "Offset"} {
					f := fld
					gate := func(in ssa.Instruction) bool {
						st, ok := in.(*ssa.Store)
						if !ok {
							return false
						}
						t, fn2, _, isF := an.FieldOf(st.Addr)
						if !isF || t != "cFrame" || fn2 != f {
							return false
						}
						if f == "Commit" {
							return len(commit) > 0 && st.Val == commit[0]
						}
						return an.MentionsCall(st.Val, "db/wal.Reader.Offset")
					}
					h := an.Ungated(an.CutSpec{Fn: fn, Start: rf.(ssa.Instruction), GateInstr: gate, Sink: func(in ssa.Instruction) bool { return in == commitTest }})
					c.Result(commitTest != nil && len(h) == 0, "C05.c", "DOM", "scan:frame-record:"+f+"-on-every-path", c.P.Pos(fn.Pos()),
						"every scanned frame's "+f+" is recorded before the commit test, whichever way the record is obtained",
						"scan can reach the commit test without recording this frame's "+f+" (for example when it reuses the record of an earlier write of the same page): the compacted WAL carries a stale "+f+" for the page — a commit frame can lose its commit marker and SQLite then ignores the frames after the previous commit", nil)
				}
				c.Result(recOK == 3, "C05.c", "TABLE", "scan:frame-record", c.P.Pos(fn.Pos()),
					"each scanned frame records its page number, its commit field and an offset derived from Reader.Offset and the scan start",
					"the record kept for a scanned frame does not carry the frame's own page number / commit field / file offset", nil)
			}
			// waitingForCommit phi
			var wait *ssa.Phi
			for _, b := range fn.Blocks {
				for _, in := range b.Instrs {
					if p, ok := in.(*ssa.Phi); ok && p.Comment == "waitingForCommit" {
						wait = p
					}
				}
			}
			if wait == nil {
				// fall back: a bool phi in the block of the ReadFrame call
				for _, in := range rf.Block().Instrs {
					if p, ok := in.(*ssa.Phi); ok && p.Type().String() == "bool" {
						wait = p
					}
				}
			}
			if wait == nil {
				c.Unk("C05.c", "DOM", "scan:open-transaction-flag", c.P.Pos(fn.Pos()), "the loop-carried open-transaction flag was not found")
			} else {
				okPhi := true
				for i, e := range wait.Edges {
					pred := wait.Block().Preds[i]
					b, isB := an.ConstBool(e)
					if !isB {
						okPhi = false
						continue
					}
					fromZero, fromNonZero := false, false
					for ze := range zeroEdges {
						if ze.To == pred || (ze.From == pred && ze.To == wait.Block()) {
							fromZero = true
						}
					}
					for ne := range nonZero {
						if ne.To == pred || (ne.From == pred && ne.To == wait.Block()) {
							fromNonZero = true
						}
					}
					switch {
					case fromZero:
						if !b {
							okPhi = false
						}
					case fromNonZero:
						if b {
							okPhi = false
						}
					default: // loop entry
						if b {
							okPhi = false
						}
					}
				}
				c.Result(okPhi && len(wait.Edges) == 3, "C05.c", "DOM", "scan:open-transaction-flag", c.P.Pos(wait.Pos()),
					"the open-transaction flag is false at loop entry, true after a frame with commit == 0 and false after a commit frame",
					"the open-transaction flag is not set exactly by frames with commit == 0: an unterminated trailing transaction is silently dropped, or a terminated one reported as open", nil)
				succ := map[ssa.Instruction]bool{}
				for _, r := range an.SuccessReturns(fn) {
					// a return that forwards the verified rescan's results is decided by the rescan (same function, same rules)
					if ex, ok := r.Results[len(r.Results)-1].(*ssa.Extract); ok {
						if call, ok := ex.Tuple.(*ssa.Call); ok {
							if callee := call.Common().StaticCallee(); callee != nil && isVerifiedRescan(callee) {
								continue
							}
						}
					}
					succ[r] = true
				}
				isSucc := func(in ssa.Instruction) bool { return succ[in] }
				closed := an.SenseEdges(fn, []ssa.Value{wait}, an.IsFalse)
				h := an.Ungated(an.CutSpec{Fn: fn, GateEdge: closed, Sink: isSucc})
				c.Result(len(closed) > 0 && len(h) == 0 && len(succ) > 0, "C05.c", "DOM", "scan:open-transaction-is-an-error", c.P.Pos(fn.Pos()),
					"scan returns a nil error only when no transaction is open at the end of the valid WAL", "scan can return success although the last scanned transaction has no commit frame: its frames are silently dropped", nil)
				// open edge returns ErrOpenTransaction
				open := an.SenseEdges(fn, []ssa.Value{wait}, an.IsTrue)
				okErr := len(open) > 0
				var openStarts []*ssa.BasicBlock
				for e := range open {
					openStarts = append(openStarts, e.To)
				}
				badRet := func(in ssa.Instruction) bool {
					r, ok := in.(*ssa.Return)
					if !ok || len(r.Results) != 2 {
						return ok
					}
					if u, ok := r.Results[1].(*ssa.UnOp); ok {
						if g, ok := u.X.(*ssa.Global); ok && g.Name() == "ErrOpenTransaction" {
							return false
						}
					}
					if ex, ok := r.Results[1].(*ssa.Extract); ok {
						if call, ok := ex.Tuple.(*ssa.Call); ok {
							if callee := call.Common().StaticCallee(); callee != nil && isVerifiedRescan(callee) {
								return false
							}
						}
					}
					return true
				}
				if len(an.Ungated(an.CutSpec{Fn: fn, StartBlocks: openStarts, Sink: badRet})) > 0 {
					okErr = false
				}
				c.Result(okErr, "C05.c", "DOM", "scan:open-transaction-error-value", c.P.Pos(fn.Pos()), "an open trailing transaction returns ErrOpenTransaction", "an open trailing transaction does not return ErrOpenTransaction", nil)
				// sorted by offset before success
				isSort := func(in ssa.Instruction) bool {
					call, ok := in.(*ssa.Call)
					return ok && (an.IsCall(call, "sort.Sort", "sort.Stable") || strings.HasPrefix(an.CalleeID(call), "slices.Sort") || strings.HasPrefix(an.CalleeID(call), "sort.Slice"))
				}
				// the sort may live in a helper that every path of which sorts
				h = an.Ungated(an.CutSpec{Fn: fn, GateInstr: an.Lift(isSort, 2, core.InModule), Sink: isSucc})
				c.Result(len(h) == 0, "C05.c", "ORD", "scan:sorted-before-success", c.P.Pos(fn.Pos()), "the output frames are sorted before scan succeeds", "scan can succeed with the output frames in map order", nil)
			}
			// the loop ends only at io.EOF or an error return
			errv := an.Result(rf, 2)
			isErr := func(v ssa.Value) bool {
				for _, x := range errv {
					if v == x {
						return true
					}
				}
				return false
			}
			isEOF := func(v ssa.Value) bool {
				u, ok := v.(*ssa.UnOp)
				if !ok {
					return false
				}
				g, ok := u.X.(*ssa.Global)
				return ok && g.Name() == "EOF" && g.Pkg.Pkg.Path() == "io"
			}
			eof := eqEdges(fn, isErr, isEOF)
			c.Result(len(eof) == 1, "C05.c", "DOM", "scan:stops-at-EOF", c.P.Pos(rf.Pos()), "the scan loop ends when ReadFrame reports io.EOF (end of the valid WAL)", "the scan loop no longer ends on ReadFrame's io.EOF", nil)
		}
	}
	// Less orders by Offset
	if fn := c.Fn("C05.c", "db/wal", "(cFrames).Less"); fn != nil {
		ok := false
		for _, r := range an.Returns(fn) {
			if bo, isB := r.Results[0].(*ssa.BinOp); isB && (bo.Op == token.LSS || bo.Op == token.GTR) {
				x, y := bo.X, bo.Y
				if bo.Op == token.GTR {
					x, y = y, x
				}
				idxOf := func(v ssa.Value) int {
					if !an.LoadedField(v, "cFrame", "Offset") {
						return -1
					}
					for i := 0; i < 2; i++ {
						p := fn.Params[1+i]
						if an.MentionsValue(v, p) {
							return i
						}
					}
					return -1
				}
				ok = idxOf(x) == 0 && idxOf(y) == 1
			}
		}
		c.Result(ok, "C05.c", "TABLE", "cFrames.Less:by-offset-ascending", c.P.Pos(fn.Pos()), "frames are ordered by ascending file offset", "cFrames.Less does not order by ascending file offset: a later version of a page can be checkpointed before an earlier commit frame's database size is applied", nil)
	}
	// page data is read at Offset + WALFrameHeaderSize
	for _, name := range []string{"(*CompactingFrameScanner).Next", "(*CompactingFrameScanner).Bytes"} {
		fn := c.Fn("C05.c", "db/wal", name)
		if fn == nil {
			continue
		}
		ok := false
		n := 0
		for _, call := range an.AllCalls(fn, false) {
			cc := call.Common()
			if !cc.IsInvoke() || cc.Method.Name() != "Seek" {
				continue
			}
			n++
			bo, isB := cc.Args[0].(*ssa.BinOp)
			if !isB || bo.Op != token.ADD {
				continue
			}
			k, isK := an.ConstInt(bo.Y)
			wh, isW := an.ConstInt(cc.Args[1])
			ok = isK && k == 24 && an.LoadedField(bo.X, "cFrame", "Offset") && isW && wh == 0
		}
		c.Result(ok && n == 1, "C05.c", "CONST", "page-data-at-offset+24:"+name, c.P.Pos(fn.Pos()), "page data is read at the frame's offset plus the frame header size, from the start of the file",
			name+" does not read the page data at frame offset + WALFrameHeaderSize (absolute)", nil)
	}
	// WriteTo
	if fn := c.Fn("C05.c", "db/wal", "(*Writer).WriteTo"); fn != nil {
		var nextErr []ssa.Value
		for _, call := range an.AllCalls(fn, false) {
			cc := call.Common()
			if cc.IsInvoke() && cc.Method.Name() == "Next" {
				nextErr = append(nextErr, an.Result(call, 1)...)
			}
		}
		isErr := func(v ssa.Value) bool {
			for _, x := range nextErr {
				if v == x {
					return true
				}
			}
			return false
		}
		isEOF := func(v ssa.Value) bool {
			u, ok := v.(*ssa.UnOp)
			if !ok {
				return false
			}
			g, ok := u.X.(*ssa.Global)
			return ok && g.Name() == "EOF"
		}
		eof := eqEdges(fn, isErr, isEOF)
		succ := map[ssa.Instruction]bool{}
		for _, r := range an.SuccessReturns(fn) {
			succ[r] = true
		}
		h := an.Ungated(an.CutSpec{Fn: fn, GateEdge: eof, Sink: func(in ssa.Instruction) bool { return succ[in] }})
		hdr := an.CallsTo(fn, false, "db/wal.Writer.writeWALHeader")
		frm := an.CallsTo(fn, false, "db/wal.Writer.writeFrame")
		okOrd := len(hdr) == 1 && len(frm) == 1 && an.Dominates(hdr[0].(ssa.Instruction), frm[0].(ssa.Instruction))
		c.Result(len(eof) > 0 && len(h) == 0 && len(succ) > 0 && okOrd, "C05.c", "DOM", "WriteTo:all-frames-then-success", c.P.Pos(fn.Pos()),
			"WriteTo writes the header first and returns nil only after the iterator reported io.EOF; any other iterator error is returned",
			"Writer.WriteTo can return success before the iterator is exhausted (or writes frames before the header): the compacted WAL is silently truncated", nil)
	}

	// ---- C05.d valid prefix
	if fn := c.Fn("C05.d", "db/wal", "(*Reader).ReadFrame"); fn != nil {
		succ := map[ssa.Instruction]bool{}
		for _, r := range an.SuccessReturns(fn) {
			succ[r] = true
		}
		okSalt := true
		for i := 0; i < 2; i++ {
			idx := i
			isField := func(v ssa.Value) bool { return an.LoadedField(v, "Reader", fmt.Sprintf("salt%d", idx+1)) }
			isStored := func(v ssa.Value) bool {
				call, ok := v.(*ssa.Call)
				if !ok {
					return false
				}
				if _, isCodec := isBinaryCodec(call); !isCodec {
					return false
				}
				off, _, ok := sliceLow(call.Call.Args[len(call.Call.Args)-1])
				return ok && off == int64(8+4*idx)
			}
			eq := eqEdges(fn, isField, isStored)
			h := an.Ungated(an.CutSpec{Fn: fn, GateEdge: eq, Sink: func(in ssa.Instruction) bool { return succ[in] }})
			if len(eq) == 0 || len(h) > 0 {
				okSalt = false
			}
		}
		c.Result(okSalt && len(succ) > 0, "C05.d", "DOM", "ReadFrame:salts-equal-header", c.P.Pos(fn.Pos()),
			"ReadFrame succeeds only for a frame whose two salts equal the WAL header's", "ReadFrame can accept a frame whose salts differ from the header's: stale frames of an earlier WAL generation are included", nil)
	}
	// a salt-only scan must not trust an apparently open tail
	rechecks := false
	if fn := c.Fn("C05.d", "db/wal", "(*CompactingFrameScanner).scan"); fn != nil {
		var wait *ssa.Phi
		for _, b := range fn.Blocks {
			for _, in := range b.Instrs {
				if p, ok := in.(*ssa.Phi); ok && p.Type().String() == "bool" && len(p.Edges) == 3 {
					wait = p
				}
			}
		}
		if wait == nil {
			c.Unk("C05.d", "DOM", "scan:unverified-tail-is-rechecked", c.P.Pos(fn.Pos()), "the open-transaction flag was not found")
		} else {
			open := an.SenseEdges(fn, []ssa.Value{wait}, an.IsTrue)
			var starts []*ssa.BasicBlock
			for e := range open {
				starts = append(starts, e.To)
			}
			verified := an.SenseEdges(fn, loadsOfField(fn, "CompactingFrameScanner", "fullScan"), an.IsTrue)
			isRescan := func(in ssa.Instruction) bool {
				call, ok := in.(*ssa.Call)
				if !ok {
					return false
				}
				callee := call.Common().StaticCallee()
				return callee != nil && isVerifiedRescan(callee)
			}
			h := an.Ungated(an.CutSpec{Fn: fn, StartBlocks: starts, GateEdge: verified, GateInstr: isRescan,
				Sink: func(in ssa.Instruction) bool { _, ok := in.(*ssa.Return); return ok }})
			rechecks = len(starts) > 0 && len(h) == 0
			// only reported through the construction sites below
			c.Note("scan re-verifies an apparently open tail before reporting it: %v", rechecks)
		}
	}
	nScan := 0
	for _, fn := range moduleFuncs(c) {
		name := core.FuncName(fn)
		if name == "db/wal.NewFastCompactingScanner" {
			continue
		}
		for _, call := range an.AllCalls(fn, false) {
			id := an.CalleeID(call)
			switch id {
			case "db/wal.NewCompactingFrameScanner":
				nScan++
				c.Sites++
				b, isB := an.ConstBool(call.Common().Args[2])
				c.Result((isB && b) || rechecks, "C05.d", "CONST", "scanner-validates-checksums:"+name, c.P.Pos(call.Pos()),
					"the scanner validates the checksum chain, or its salt-only scan re-verifies an apparently open tail with checksums before reporting it",
					name+" constructs the compacting scanner with fullScan=false: the end of the valid WAL is then decided by salt equality alone, and frames left beyond it by a rolled-back transaction that spilled into the WAL (same salts, checksums that do not chain) are scanned as an unterminated transaction — every snapshot fails with ErrOpenTransaction until later writes overwrite them", nil)
			case "db/wal.NewFastCompactingScanner":
				nScan++
				c.Sites++
				c.Result(rechecks, "C05.d", "CONST", "scanner-validates-checksums:"+name, c.P.Pos(call.Pos()), "the salt-only scanner re-verifies an apparently open tail", name+" uses the salt-only scanner, which trusts frames beyond the valid prefix", nil)
			}
		}
	}
	c.Count("compacting scanner constructions", nScan)
	c.Min("compacting scanner constructions", 1)
}
