package props

import (
	"fmt"
	"go/token"
	"go/types"

	"golang.org/x/tools/go/ssa"

	"rqverif/checker/internal/an"
	"rqverif/checker/internal/core"
)

// C05.e: SQLite stores every field of the WAL header and of the frame headers
// big-endian; the byte order chosen by the magic number governs only how the
// checksum is *computed*. In package db/wal a byte order held in a variable
// (Reader.bo, Writer.bo, a parameter) decodes or encodes integers only inside
// WALChecksum; every other integer read or written goes through
// binary.BigEndian.
//
// C05.f: every page size SQLite can produce (512 … 65536) is accepted: no
// comparison of a page-size value with a constant lies strictly between those
// bounds.
func c05e(c *core.Ctx) {
	sp := c.P.SPkg("db/wal")
	if sp == nil {
		return
	}
	fixed, dynamic := 0, 0
	for _, fn := range pkgFuncs(sp) {
		an.Instrs(fn, func(in ssa.Instruction) {
			ci, ok := in.(ssa.CallInstruction)
			if !ok {
				return
			}
			cc := ci.Common()
			if cc.IsInvoke() {
				n, isNamed := cc.Value.Type().(*types.Named)
				if !isNamed || n.Obj().Name() != "ByteOrder" || n.Obj().Pkg() == nil || n.Obj().Pkg().Path() != "encoding/binary" {
					return
				}
				switch cc.Method.Name() {
				case "Uint16", "Uint32", "Uint64", "PutUint16", "PutUint32", "PutUint64":
				default:
					return
				}
				dynamic++
				c.Sites++
				c.Result(an.TopFunc(fn).Name() == "WALChecksum", "C05.e", "CONST", fmt.Sprintf("%s:%s:magic-byte-order-only-in-checksum", core.FuncName(fn), cc.Method.Name()), c.P.Pos(in.Pos()),
					"the magic number's byte order is used to compute the checksum",
					core.FuncName(fn)+" decodes or encodes a WAL field with the byte order selected by the magic number: all WAL header and frame-header fields (including the stored checksums) are big-endian whatever the magic says, so on a little-endian WAL the value is read byte-swapped", nil)
				return
			}
			id := an.CalleeID(ci)
			switch id {
			case "encoding/binary.bigEndian.Uint32", "encoding/binary.bigEndian.PutUint32", "encoding/binary.bigEndian.Uint64", "encoding/binary.bigEndian.PutUint64":
				fixed++
			case "encoding/binary.littleEndian.Uint32", "encoding/binary.littleEndian.PutUint32", "encoding/binary.littleEndian.Uint64", "encoding/binary.littleEndian.PutUint64":
				c.Bad("C05.e", "CONST", core.FuncName(fn)+":little-endian-field", c.P.Pos(in.Pos()), core.FuncName(fn)+" reads or writes a WAL field little-endian: WAL fields are big-endian", nil)
			}
		})
	}
	c.Count("big-endian WAL field accesses in db/wal", fixed)
	c.Min("big-endian WAL field accesses in db/wal", 10)
	c.Count("magic-byte-order integer reads in db/wal", dynamic)
	c.Min("magic-byte-order integer reads in db/wal", 1)

	// C05.f
	isPageSize := func(v ssa.Value) bool {
		v = an.Unwrap(v)
		if u, ok := v.(*ssa.UnOp); ok && u.Op == token.MUL {
			if _, f, _, ok := an.FieldOf(u.X); ok && (f == "pageSize" || f == "PageSize") {
				return true
			}
		}
		if cv, ok := v.(*ssa.Convert); ok {
			if u, ok := an.Unwrap(cv.X).(*ssa.UnOp); ok && u.Op == token.MUL {
				if _, f, _, ok := an.FieldOf(u.X); ok && (f == "pageSize" || f == "PageSize") {
					return true
				}
			}
		}
		return false
	}
	// parameters that receive a page size at some call site of the package
	psParam := map[*ssa.Parameter]bool{}
	stored := map[ssa.Value]bool{} // values stored into a pageSize field
	for _, fn := range pkgFuncs(sp) {
		an.Instrs(fn, func(in ssa.Instruction) {
			if st, ok := in.(*ssa.Store); ok {
				if _, f, _, ok := an.FieldOf(st.Addr); ok && (f == "pageSize" || f == "PageSize") {
					stored[an.Unwrap(st.Val)] = true
				}
			}
		})
	}
	for _, fn := range pkgFuncs(sp) {
		for _, ci := range an.AllCalls(fn, false) {
			g := ci.Common().StaticCallee()
			if g == nil || g.Pkg != sp || len(g.Blocks) == 0 {
				continue
			}
			off := 0
			for i, a := range ci.Common().Args {
				if i+off < len(g.Params) && (isPageSize(a) || stored[an.Unwrap(a)]) {
					psParam[g.Params[i+off]] = true
				}
			}
		}
	}
	cmps := 0
	for _, fn := range pkgFuncs(sp) {
		an.Instrs(fn, func(in ssa.Instruction) {
			bo, ok := in.(*ssa.BinOp)
			if !ok {
				return
			}
			switch bo.Op {
			case token.LSS, token.LEQ, token.GTR, token.GEQ, token.EQL, token.NEQ:
			default:
				return
			}
			is := func(v ssa.Value) bool {
				if isPageSize(v) || stored[an.Unwrap(v)] {
					return true
				}
				p, isP := an.Unwrap(v).(*ssa.Parameter)
				return isP && psParam[p]
			}
			var k int64
			var kok bool
			switch {
			case is(bo.X):
				k, kok = an.ConstInt(bo.Y)
			case is(bo.Y):
				k, kok = an.ConstInt(bo.X)
			}
			if !kok {
				return
			}
			cmps++
			c.Sites++
			c.Result(k <= 512 || k >= 65536, "C05.f", "CONST", fmt.Sprintf("%s:page-size-bound:%d", core.FuncName(fn), k), c.P.Pos(in.Pos()),
				"the page-size test does not cut the valid range 512 … 65536",
				fmt.Sprintf("%s compares the WAL's page size with %d, which lies inside the range of valid SQLite page sizes (512 … 65536): WALs of databases with a page size on one side of it (65536 is valid and does not fit 16 bits) are rejected or mishandled", core.FuncName(fn), k), nil)
		})
	}
	if cmps == 0 {
		c.OK("C05.f", "CONST", "db/wal:no-page-size-bound", "", "no constant bound is placed on the WAL's page size")
	}
}
