package props

import (
	"strings"

	"golang.org/x/tools/go/ssa"

	"rqverif/checker/internal/an"
	"rqverif/checker/internal/core"
)

func init() {
	register(&core.Check{
		ID:    "C06",
		Title: "Incremental WAL segments stay correct under busy or partial checkpoints",
		Explanation: "C06.a DECIDE: CheckpointManager.Checkpoint is interpreted for all valuations of {WAL empty, writer given, checkpoint call ok, truncate result code zero, pages moved vs pages in WAL (<,=,>)} with every other error fixed to success. With a writer: the WAL salt is read before the checkpoint and handed to WALResetWatch.Check; the compacting scanner starts at the frame index Check returned; after the truncate attempt: code 0 ⇒ Disarm and the segment length is returned; moved < pages ⇒ no change to the watch, ErrDatabaseCheckpointBusy; moved == pages ⇒ Arm(the salt read BEFORE the checkpoint, moved) and nil; otherwise the invariant error. " +
			"C06.b DECIDE: WALResetWatch.Check: unarmed ⇒ (0,false); armed and salts equal ⇒ (resumeFrameIdx,false); otherwise Disarm and (0,true); Arm/Disarm overwrite the whole watch. " +
			"C06.c PAIR (with C04.d): in fsmSnapshot the staged segment is marked valid only after Checkpoint returned nil and every other exit cancels it.",
		NotCovered: []string{"equality of the database rebuilt from the segments with the live database (needs SQLite executions)", "SQLite's own checkpoint semantics (pages/moved counters)"},
		Run:        runC06,
	})
}

func runC06(c *core.Ctx) {
	fn := c.Fn("C06.a", "db", "(*CheckpointManager).Checkpoint")
	if fn != nil {
		one := func(n string) an.Var { return an.Var{Name: n, Values: []int{1}} }
		var salt, startIdx ssa.Value
		for _, call := range an.CallsTo(fn, false, "db/wal.ReadSaltAt") {
			if v := an.Result(call, 0); len(v) > 0 {
				salt = v[0]
			}
		}
		for _, call := range an.CallsTo(fn, false, "db.WALResetWatch.Check") {
			if v := an.Result(call, 0); len(v) > 0 {
				startIdx = v[0]
			}
		}
		moved := func(v ssa.Value) bool { return an.MentionsField(v, "CheckpointMeta", "Moved") }
		pages := func(v ssa.Value) bool { return an.MentionsField(v, "CheckpointMeta", "Pages") }
		spec := an.DecideSpec{Fn: fn,
			Vars: []an.Var{an.Bool("walEmpty"), an.Bool("writer"), an.Bool("ckptOK"), an.Bool("success"), an.Bool("codeZero"), an.Sign("movedVsPages"),
				one("sizeOK"), one("openOK"), one("saltOK"), one("scannerOK"), one("writerOK"), one("writeOK"), one("closeOK")},
			Conds: []an.CondMatcher{
				an.NilCond("sizeOK", func(v ssa.Value) bool { return callResult(v, 1, "internal/fsutil.FileSize") }),
				func(cond ssa.Value) (func(an.Val) bool, bool) {
					ev, ok := an.CmpCond("_", func(v ssa.Value) bool { return callResult(v, 0, "internal/fsutil.FileSize") }, an.IsConstInt(0))(cond)
					if !ok {
						return nil, false
					}
					return func(v an.Val) bool { return ev(an.Val{"_": 1 - v["walEmpty"]}) }, true
				},
				func(cond ssa.Value) (func(an.Val) bool, bool) {
					ev, ok := an.NilCond("_", isParamN(fn, 1))(cond)
					if !ok {
						return nil, false
					}
					return func(v an.Val) bool { return ev(an.Val{"_": 1 - v["writer"]}) }, true
				},
				an.NilCond("ckptOK", func(v ssa.Value) bool { return callResult(v, 1, "db.DB.CheckpointWithTimeout") }),
				boolOf("success", -1, "db.CheckpointMeta.Success"),
				an.NilCond("openOK", func(v ssa.Value) bool { return callResult(v, 1, "os.Open") }),
				an.NilCond("saltOK", func(v ssa.Value) bool { return callResult(v, 1, "db/wal.ReadSaltAt") }),
				an.NilCond("scannerOK", func(v ssa.Value) bool { return callResult(v, 1, "db/wal.NewCompactingFrameScanner") }),
				an.NilCond("writerOK", func(v ssa.Value) bool { return callResult(v, 1, "db/wal.NewWriter") }),
				an.NilCond("writeOK", func(v ssa.Value) bool { return callResult(v, 1, "db/wal.Writer.WriteTo") }),
				errOf("closeOK", "os.File.Close"),
				func(cond ssa.Value) (func(an.Val) bool, bool) {
					ev, ok := an.CmpCond("_", func(v ssa.Value) bool { return an.MentionsField(v, "CheckpointMeta", "Code") }, an.IsConstInt(0))(cond)
					if !ok {
						return nil, false
					}
					return func(v an.Val) bool { return ev(an.Val{"_": 1 - v["codeZero"]}) }, true
				},
				an.CmpCond("movedVsPages", moved, pages),
			},
			Effect: func(in ssa.Instruction) (string, bool) {
				call, ok := in.(*ssa.Call)
				if !ok {
					return "", false
				}
				switch {
				case an.IsCall(call, "db.WALResetWatch.Disarm"):
					return "Disarm", true
				case an.IsCall(call, "db.WALResetWatch.Arm"):
					a := call.Common().Args
					s, m := "?", "?"
					if a[1] == salt {
						s = "saltBefore"
					}
					if cv, ok := a[2].(*ssa.Convert); ok && moved(cv.X) {
						if _, isBin := cv.X.(*ssa.BinOp); !isBin {
							m = "moved"
						}
					}
					return "Arm(" + s + "," + m + ")", true
				case an.IsCall(call, "db.WALResetWatch.Check"):
					if call.Common().Args[1] == salt {
						return "Check(saltBefore)", true
					}
					return "Check(?)", true
				case an.IsCall(call, "db/wal.ReadSaltAt"):
					return "readSalt", true
				case an.IsCall(call, "db/wal.NewCompactingFrameScanner"):
					if a := call.Common().Args[1]; a == startIdx || an.Rz(a) == startIdx {
						return "scan(from=Check)", true
					}
					return "scan(from=?)", true
				case an.IsCall(call, "db/wal.Writer.WriteTo"):
					return "writeSegment", true
				case an.IsCall(call, "db.DB.CheckpointWithTimeout"):
					return "truncate", true
				}
				return "", false
			},
			Ret: func(r *ssa.Return, resolve func(ssa.Value) ssa.Value) string {
				n := resolve(r.Results[1])
				ns := "n?"
				if k, ok := an.ConstInt(n); ok && k == 0 {
					ns = "0"
				} else if callResult(n, 0, "db/wal.Writer.WriteTo") {
					ns = "segmentLen"
				}
				return ns + "," + errName(resolve(r.Results[2]))
			},
			Feasible: func(v an.Val) bool { return true },
			Ref: func(v an.Val) string {
				if v["walEmpty"] == 1 {
					return "Disarm => 0,nil"
				}
				if v["writer"] == 0 {
					if v["ckptOK"] == 0 {
						return "truncate => 0,err(CheckpointWithTimeout)"
					}
					if v["success"] == 0 {
						return "truncate => 0,err(Errorf)"
					}
					return "truncate;Disarm => 0,nil"
				}
				eff := "readSalt;Check(saltBefore);scan(from=Check);writeSegment;truncate"
				if v["ckptOK"] == 0 {
					return eff + " => 0,err(Errorf)"
				}
				if v["codeZero"] == 1 {
					return eff + ";Disarm => segmentLen,nil"
				}
				switch {
				case v["movedVsPages"] < 0:
					return eff + " => 0,ErrDatabaseCheckpointBusy"
				case v["movedVsPages"] == 0:
					return eff + ";Arm(saltBefore,moved) => 0,nil"
				}
				return eff + " => 0,ErrDatabaseCheckpointInvariant"
			},
		}
		reportDecide(c, "C06.a", "(*CheckpointManager).Checkpoint", c.P.Pos(fn.Pos()), an.Decide(spec, c.P.Pos))
	}

	if fn := c.Fn("C06.b", "db", "(*WALResetWatch).Check"); fn != nil {
		spec := an.DecideSpec{Fn: fn,
			Vars: []an.Var{an.Bool("armed"), an.Bool("sameSalt")},
			Conds: []an.CondMatcher{
				an.BoolCond("armed", an.IsFieldLoad("WALResetWatch", "armed")),
				an.BoolCond("sameSalt", func(v ssa.Value) bool {
					call, ok := v.(*ssa.Call)
					return ok && strings.HasSuffix(an.CalleeID(call), "Salt.Equal") && an.MentionsField(call.Common().Args[0], "WALResetWatch", "salt") && isParamN(fn, 1)(call.Common().Args[1])
				}),
			},
			Effect: func(in ssa.Instruction) (string, bool) {
				if an.IsPlainCall(in, "db.WALResetWatch.Disarm") {
					return "Disarm", true
				}
				return "", false
			},
			Ret: func(r *ssa.Return, resolve func(ssa.Value) ssa.Value) string {
				a := resolve(r.Results[0])
				as := "?"
				if k, ok := an.ConstInt(a); ok && k == 0 {
					as = "0"
				} else if an.LoadedField(a, "WALResetWatch", "resumeFrameIdx") {
					as = "resume"
				}
				b, _ := an.ConstBool(resolve(r.Results[1]))
				if b {
					return as + ",true"
				}
				return as + ",false"
			},
			Ref: func(v an.Val) string {
				if v["armed"] == 0 {
					return " => 0,false"
				}
				if v["sameSalt"] == 1 {
					return " => resume,false"
				}
				return "Disarm => 0,true"
			}}
		reportDecide(c, "C06.b", "(*WALResetWatch).Check", c.P.Pos(fn.Pos()), an.Decide(spec, c.P.Pos))
	}
	for _, name := range []string{"Arm", "Disarm"} {
		fn := c.Fn("C06.b", "db", "(*WALResetWatch)."+name)
		if fn == nil {
			continue
		}
		// whole-struct overwrite: stores to every field (armed, salt, resumeFrameIdx) or a struct store through the receiver
		fields := map[string]string{}
		whole := false
		an.Instrs(fn, func(in ssa.Instruction) {
			st, ok := in.(*ssa.Store)
			if !ok {
				return
			}
			if isParamN(fn, 0)(st.Addr) {
				whole = true
			}
			if t, f, _, ok := an.FieldOf(st.Addr); ok && t == "WALResetWatch" {
				fields[f] = an.CanonPos(st.Val)
			}
		})
		ok := whole || len(fields) == 3
		if name == "Arm" && ok && !whole {
			ok = fields["armed"] == "true" && fields["salt"] == "p1" && fields["resumeFrameIdx"] == "p2"
		}
		if ok && !whole {
			// … on every path: each field is stored before every return, and (Arm) every store carries the argument
			want := map[string]string{"armed": "true", "salt": "p1", "resumeFrameIdx": "p2"}
			isRet := func(in ssa.Instruction) bool { _, isR := in.(*ssa.Return); return isR }
			for f := range fields {
				field := f
				gate := func(in ssa.Instruction) bool {
					st, isS := in.(*ssa.Store)
					if !isS {
						return false
					}
					t, ff, _, isF := an.FieldOf(st.Addr)
					return isF && t == "WALResetWatch" && ff == field && (name != "Arm" || an.CanonPos(st.Val) == want[field])
				}
				if len(an.Ungated(an.CutSpec{Fn: fn, GateInstr: gate, Sink: isRet})) > 0 {
					ok = false
				}
				// no store of a different value anywhere
				if name == "Arm" {
					an.Instrs(fn, func(in ssa.Instruction) {
						if st, isS := in.(*ssa.Store); isS {
							if t, ff, _, isF := an.FieldOf(st.Addr); isF && t == "WALResetWatch" && ff == field && an.CanonPos(st.Val) != want[field] {
								ok = false
							}
						}
					})
				}
			}
		}
		if name == "Arm" && whole {
			// the composite stored carries armed=true and both parameters
			okA := false
			an.Instrs(fn, func(in ssa.Instruction) {
				if st, isS := in.(*ssa.Store); isS {
					if t, f, base, isF := an.FieldOf(st.Addr); isF && t == "WALResetWatch" {
						if _, isAl := base.(*ssa.Alloc); isAl {
							fields[f] = an.CanonPos(st.Val)
						}
					}
				}
			})
			okA = fields["armed"] == "true" && fields["salt"] == "p1" && fields["resumeFrameIdx"] == "p2"
			ok = okA
		}
		if whole {
			// the whole-struct store lies on every path to a return, and nothing updates a single field of the receiver
			wholeStore := func(in ssa.Instruction) bool {
				st, isS := in.(*ssa.Store)
				return isS && isParamN(fn, 0)(st.Addr)
			}
			if len(an.Ungated(an.CutSpec{Fn: fn, GateInstr: wholeStore, Sink: func(in ssa.Instruction) bool { _, isR := in.(*ssa.Return); return isR }})) > 0 {
				ok = false
			}
			an.Instrs(fn, func(in ssa.Instruction) {
				if st, isS := in.(*ssa.Store); isS {
					if t, _, base, isF := an.FieldOf(st.Addr); isF && t == "WALResetWatch" && isParamN(fn, 0)(base) {
						ok = false
					}
				}
			})
		}
		c.Result(ok, "C06.b", "DECIDE", "(*WALResetWatch)."+name+":overwrites-all", c.P.Pos(fn.Pos()), name+" replaces the whole watch state on every path", name+" does not, on every path, set every field of the watch to its argument (a stale salt or a resume index that is not the number of frames already captured survives: the next segment starts at the wrong frame and acknowledged writes are missing from base+segments)", nil)
	}

	// C06.c: shared with C04.d
	if fsnap := c.Fn("C06.c", "store", "(*Store).fsmSnapshot"); fsnap != nil {
		creates := an.CallsTo(fsnap, false, "snapshot.StagingDir.CreateWAL")
		var closeW, cp ssa.CallInstruction
		for _, cl := range an.CallsTo(fsnap, false, "snapshot.WALWriter.Close") {
			if _, isDefer := cl.(*ssa.Defer); !isDefer {
				closeW = cl
			}
		}
		if len(creates) == 1 {
			w := an.Result(creates[0], 0)
			for _, x := range an.AllCalls(fsnap, false) {
				if strings.HasSuffix(an.CalleeID(x), ".Checkpoint") {
					for _, a := range x.Common().Args {
						for _, wv := range w {
							if an.MentionsValue(a, wv) {
								cp = x
							}
						}
					}
				}
			}
		}
		ok := closeW != nil && cp != nil
		if ok {
			g := an.SenseEdges(fsnap, an.ErrResult(cp), an.IsNil)
			ci := closeW.(ssa.Instruction)
			ok = len(g) > 0 && len(an.Ungated(an.CutSpec{Fn: fsnap, GateEdge: g, Sink: func(in ssa.Instruction) bool { return in == ci }})) == 0
			// Cancel deferred before the checkpoint
			h := an.Ungated(an.CutSpec{Fn: fsnap,
				GateInstr: func(in ssa.Instruction) bool {
					d, isD := in.(*ssa.Defer)
					return isD && an.IsCall(d, "snapshot.WALWriter.Cancel")
				},
				Sink: func(in ssa.Instruction) bool { return in == cp.(ssa.Instruction) }})
			ok = ok && len(h) == 0
		}
		c.Result(ok, "C06.c", "PAIR", "fsmSnapshot:segment-valid-only-after-checkpoint", c.P.Pos(fsnap.Pos()),
			"a busy or failed checkpoint cancels the staged segment; only a nil result validates it", "a segment can stay staged (valid) although its checkpoint did not succeed", nil)
	}
}
