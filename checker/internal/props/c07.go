package props

import (
	"fmt"
	"go/constant"
	"go/token"
	"go/types"
	"sort"
	"strings"

	"golang.org/x/tools/go/ssa"

	"rqverif/checker/internal/an"
	"rqverif/checker/internal/core"
)

func init() {
	register(&core.Check{
		ID:    "C07",
		Title: "Reaping is crash-safe and preserves the newest state",
		Explanation: "C07.a TABLE (exhaustiveness + sibling agreement): the constants of plan.OpType are enumerated; each has an Add* constructor, a case in Plan.Execute that invokes a Visitor method and a case in Plan.LastOpDone that invokes an Inspector method, and the Operation fields each case reads are among the fields that type's constructor writes; *plan.Executor implements Visitor and *plan.Checker implements Inspector. Executor.Checkpoint and Checker.CheckpointDone must agree on the post-condition: every successful return of Checkpoint is preceded by the handling of a leftover <db>-wal. " +
			"C07.b DOM+WHO: in Store.reapInternal a freshly built plan reaches executeReapPlan only after plan.WriteToFile returned nil; reapInternal itself performs no file-system mutation (only the plan's executor does); a checkpoint operation in the plan is followed by the CRC recomputation of the same database file. " +
			"C07.c ORD: Store.check resumes a persisted plan (read → LastOpDone → execute or remove) before it sweeps temporary directories; plan.WriteToFile is write-tmp → sync → rename; executeReapPlan removes the plan file only after Execute and the directory sync returned nil. " +
			"C07.d TABLE (cross-check, reported as notes): the resume sites of a persisted plan and their guards. " +
			"C07.e DECIDE/ORD: the executor operations have the idempotent semantics the replay model assumes — Rename (src gone and dst present is success), Remove (missing is success), RemoveAll (= os.RemoveAll), WriteMeta (a directory that was renamed away is success), Checkpoint (each existing WAL moved to <db>-wal and folded after a successful move; nothing left is success), Checker.RenameDone (src gone and dst present). " +
			"C07.f PLAN: the reap plan is extracted from reapInternal's SSA (operation kinds in reachability order, argument roles: full snapshot directory and database, WAL list = full's then each newer snapshot's WAL files, directories of newer / older snapshots, published directory; branch conditions), instantiated for every store shape up to a bound (0–1 older, 0–2 WALs in the full snapshot, 0–2 incrementals with 1–2 WALs; thorough: 0–2 older) and replayed on an abstract file system in which database files carry the ordered list of folded WAL segments: a crash after every file-system effect — inside the multi-WAL checkpoint and inside directory removals too — then the resume of Store.check (nothing if the last operation is done, else the whole plan), thorough: a second crash after every effect of the resumed run; the final state must be exactly one snapshot holding every segment in order, a checksum of that content and the new meta. " +
			"C07.g ORD: NewStore calls Store.check (the resume of a persisted plan) before anything scans the snapshot directory (getSnapshots, Scan, List, Len …).",
		NotCovered: []string{"the resolved database bytes after a reap (the model tracks which segments were folded, in which order, not page contents)", "SQLite's and the file system's own behaviour at a crash (torn writes inside one operation)", "index/term values written into the meta"},
		Run:        runC07,
	})
}

func runC07(c *core.Ctx) {
	c07g(c)
	c07ReapReplay(c)
	c07Executor(c)
	pk := c.P.Pkg("snapshot/plan")
	if pk == nil {
		c.Unk("C07.a", "TABLE", "snapshot/plan", "", "package not loaded")
		return
	}
	// enumerate OpType constants
	ops := map[string]string{} // value -> const name
	for _, n := range pk.Types.Scope().Names() {
		cst, ok := pk.Types.Scope().Lookup(n).(*types.Const)
		if !ok {
			continue
		}
		if named, ok := cst.Type().(*types.Named); ok && named.Obj().Name() == "OpType" {
			ops[constant.StringVal(cst.Val())] = n
		}
	}
	c.Count("plan operation types", len(ops))
	c.Min("plan operation types", 9)

	// constructors: fields written per type
	written := map[string]map[string]bool{}
	sp := c.P.SPkg("snapshot/plan")
	for _, fn := range pkgFuncs(sp) {
		if !strings.HasPrefix(fn.Name(), "Add") || fn.Signature.Recv() == nil {
			continue
		}
		typ := ""
		fields := map[string]bool{}
		an.Instrs(fn, func(in ssa.Instruction) {
			st, ok := in.(*ssa.Store)
			if !ok {
				return
			}
			t, f, _, ok := an.FieldOf(st.Addr)
			if !ok || t != "Operation" {
				return
			}
			if f == "Type" {
				typ, _ = an.ConstString(st.Val)
			} else {
				fields[f] = true
			}
		})
		if typ != "" {
			written[typ] = fields
			c.Touch(fn)
		}
	}
	// cases in Execute / LastOpDone
	caseInfo := func(fn *ssa.Function, iface string) map[string]struct {
		method string
		reads  map[string]bool
	} {
		out := map[string]struct {
			method string
			reads  map[string]bool
		}{}
		for _, b := range fn.Blocks {
			if len(b.Instrs) == 0 {
				continue
			}
			ifi, ok := b.Instrs[len(b.Instrs)-1].(*ssa.If)
			if !ok {
				continue
			}
			bo, ok := ifi.Cond.(*ssa.BinOp)
			if !ok || bo.Op != token.EQL {
				continue
			}
			k, ok := an.ConstString(bo.Y)
			if !ok || !an.Mentions(bo.X, func(v ssa.Value) bool {
				t, f, _, ok := an.FieldOf(v)
				return ok && t == "Operation" && f == "Type"
			}) {
				continue
			}
			top := b.Succs[0]
			info := struct {
				method string
				reads  map[string]bool
			}{reads: map[string]bool{}}
			for _, in := range top.Instrs {
				if call, ok := in.(*ssa.Call); ok && call.Common().IsInvoke() && strings.HasSuffix(an.CalleeID(call), "."+iface+"."+call.Common().Method.Name()) {
					info.method = call.Common().Method.Name()
					for _, a := range call.Common().Args {
						an.Mentions(a, func(v ssa.Value) bool {
							if t, f, _, ok := an.FieldOf(v); ok && t == "Operation" {
								info.reads[f] = true
							}
							return false
						})
					}
				}
			}
			out[k] = info
		}
		return out
	}
	exec := c.Fn("C07.a", "snapshot/plan", "(*Plan).Execute")
	last := c.Fn("C07.a", "snapshot/plan", "(*Plan).LastOpDone")
	if exec == nil || last == nil {
		return
	}
	// the per-operation switch may have been moved into a private helper of Execute / LastOpDone
	hasSwitch := func(iface string) func(*ssa.Function) bool {
		return func(f *ssa.Function) bool { return len(caseInfo(f, iface)) > 0 }
	}
	if h := hostOf(exec, hasSwitch("Visitor")); h != nil {
		c.Touch(h)
		exec = h
	}
	if h := hostOf(last, hasSwitch("Inspector")); h != nil {
		c.Touch(h)
		last = h
	}
	ex := caseInfo(exec, "Visitor")
	lo := caseInfo(last, "Inspector")
	vals := make([]string, 0, len(ops))
	for v := range ops {
		vals = append(vals, v)
	}
	sort.Strings(vals)
	for _, v := range vals {
		name := ops[v]
		w, hasCtor := written[v]
		e, hasExec := ex[v]
		l, hasLast := lo[v]
		ok := hasCtor && hasExec && hasLast && e.method != "" && l.method != ""
		msg := ""
		if !hasCtor {
			msg += "no Add* constructor; "
		}
		if !hasExec || e.method == "" {
			msg += "no case in Execute; "
		}
		if !hasLast || l.method == "" {
			msg += "no case in LastOpDone; "
		}
		if ok {
			for f := range e.reads {
				if !w[f] {
					ok = false
					msg += "Execute reads field " + f + " which the constructor never sets; "
				}
			}
			for f := range l.reads {
				if !w[f] {
					ok = false
					msg += "LastOpDone reads field " + f + " which the constructor never sets; "
				}
			}
			// the inspector consulted matches the visitor executed
			if l.method != e.method+"Done" {
				ok = false
				msg += fmt.Sprintf("Execute calls %s but LastOpDone calls %s; ", e.method, l.method)
			}
		}
		c.Result(ok, "C07.a", "TABLE", "op:"+name, c.P.Pos(exec.Pos()), fmt.Sprintf("%s: constructor, Execute→%s, LastOpDone→%s, fields consistent", name, e.method, l.method), name+": "+msg, nil)
	}
	// interface implementation
	for _, p := range [][2]string{{"Executor", "Visitor"}, {"Checker", "Inspector"}} {
		to := pk.Types.Scope().Lookup(p[0])
		io := pk.Types.Scope().Lookup(p[1])
		ok := false
		if to != nil && io != nil {
			if it, isI := io.Type().Underlying().(*types.Interface); isI {
				ok = types.Implements(types.NewPointer(to.Type()), it)
			}
		}
		c.Result(ok, "C07.a", "TABLE", p[0]+":implements:"+p[1], "", "*plan."+p[0]+" implements plan."+p[1], "*plan."+p[0]+" does not implement plan."+p[1], nil)
	}
	// checkpoint post-condition agreement
	if fn := c.Fn("C07.a", "snapshot/plan", "(*Executor).Checkpoint"); fn != nil {
		isLeftoverStat := func(in ssa.Instruction) bool {
			call, ok := in.(*ssa.Call)
			if !ok || !an.IsCall(call, "os.Stat") {
				return false
			}
			a := call.Common().Args[0]
			bo, ok := a.(*ssa.BinOp)
			if !ok || bo.Op != token.ADD {
				return false
			}
			s, ok := an.ConstString(bo.Y)
			return ok && s == "-wal" && isParamN(fn, 1)(bo.X)
		}
		succ := map[ssa.Instruction]bool{}
		for _, r := range an.SuccessReturns(fn) {
			succ[r] = true
		}
		h := an.Ungated(an.CutSpec{Fn: fn, GateInstr: isLeftoverStat, Sink: func(in ssa.Instruction) bool { return succ[in] }})
		// and on the "exists" edge the leftover is checkpointed
		finished := false
		an.Instrs(fn, func(in ssa.Instruction) {
			if !isLeftoverStat(in) {
				return
			}
			okE := an.SenseEdges(fn, an.ErrResult(in.(ssa.CallInstruction)), an.IsNil)
			for e := range okE {
				hh := an.Ungated(an.CutSpec{Fn: fn, StartBlocks: []*ssa.BasicBlock{e.To}, GateInstr: func(x ssa.Instruction) bool { return an.IsCall(x, "db.CheckpointRemove") },
					Sink: func(x ssa.Instruction) bool { return succ[x] }})
				if len(hh) == 0 {
					finished = true
				}
			}
		})
		c.Result(len(h) == 0 && finished, "C07.a", "TABLE", "Executor.Checkpoint↔Checker.CheckpointDone", c.P.Pos(fn.Pos()),
			"no successful return of Checkpoint precedes the handling of a leftover <db>-wal (the state CheckpointDone calls 'not done')",
			"Checkpoint can return success without having looked for (and finished) a leftover <db>-wal from an interrupted checkpoint: after a crash between the rename and the checkpoint of the last WAL, the replay reports success while that WAL's pages are never folded into the database", nil)
	}

	// C07.b
	if fn := c.Fn("C07.b", "snapshot", "(*Store).reapInternal"); fn != nil {
		writes := an.CallsTo(fn, false, "snapshot/plan.WriteToFile")
		news := an.CallsTo(fn, false, "snapshot/plan.New")
		if len(writes) != 1 || len(news) != 1 {
			c.Unk("C07.b", "DOM", "reapInternal:plan", c.P.Pos(fn.Pos()), "expected one plan.New and one plan.WriteToFile")
		} else {
			gate := an.SenseEdges(fn, an.ErrResult(writes[0]), an.IsNil)
			fresh := news[0].Value()
			h := an.Ungated(an.CutSpec{Fn: fn, GateEdge: gate, Sink: func(in ssa.Instruction) bool {
				call, ok := in.(*ssa.Call)
				return ok && an.IsCall(call, "snapshot.Store.executeReapPlan") && an.Unwrap(call.Common().Args[1]) == fresh
			}})
			c.Result(len(gate) > 0 && len(h) == 0, "C07.b", "DOM", "reapInternal:persist-before-execute", c.P.Pos(writes[0].Pos()),
				"a freshly built plan is executed only after it was written durably", "a freshly built plan can be executed before it is persisted: a crash mid-plan leaves a half-consolidated store with nothing to resume from", nil)
		}
		var muts []string
		an.Instrs(fn, func(in ssa.Instruction) {
			if ci, ok := in.(ssa.CallInstruction); ok {
				id := an.CalleeID(ci)
				switch id {
				case "os.Remove", "os.RemoveAll", "os.Rename", "os.WriteFile", "os.Create", "os.MkdirAll", "db.CheckpointRemove":
					muts = append(muts, id)
				}
			}
		})
		c.Result(len(muts) == 0, "C07.b", "WHO", "reapInternal:no-direct-mutation", c.P.Pos(fn.Pos()), "reapInternal changes the store only through the persisted plan", "reapInternal mutates the store directly ("+strings.Join(muts, ",")+"), outside the crash-safe plan", nil)
		// checkpoint followed by CRC of the same db path
		cps := an.CallsTo(fn, false, "snapshot/plan.Plan.AddCheckpoint")
		okCRC := len(cps) > 0
		for _, cp := range cps {
			dbv := cp.Common().Args[1]
			h := an.Ungated(an.CutSpec{Fn: fn, Start: cp.(ssa.Instruction),
				GateInstr: func(in ssa.Instruction) bool {
					call, ok := in.(*ssa.Call)
					return ok && an.IsCall(call, "snapshot/plan.Plan.AddCalcCRC32") && call.Common().Args[1] == dbv
				},
				Sink: func(in ssa.Instruction) bool { return an.IsCall(in, "snapshot/plan.WriteToFile") }})
			if len(h) > 0 {
				okCRC = false
			}
		}
		c.Result(okCRC, "C07.b", "DOM", "reapInternal:checkpoint-then-crc", c.P.Pos(fn.Pos()), "a planned checkpoint is always followed by the CRC recomputation of the same database file", "a plan can checkpoint WALs into the database without recomputing its checksum sidecar", nil)
	}

	// C07.c
	if fn := c.Fn("C07.c", "snapshot/plan", "WriteToFile"); fn != nil {
		w := an.CallsTo(fn, false, "os.WriteFile")
		s := an.CallsTo(fn, false, "snapshot/plan.syncFileMaybe")
		r := an.CallsTo(fn, false, "os.Rename")
		ok := len(w) == 1 && len(s) == 1 && len(r) == 1
		viaHelper := false
		if !ok && len(r) == 1 && len(w) == 0 {
			// write + sync moved into a helper: a call whose success implies both, on the rename's source
			for _, call := range an.AllCalls(fn, false) {
				callee := call.Common().StaticCallee()
				if callee == nil || !core.InModule(callee) {
					continue
				}
				idx, good := writesAndSyncs(callee)
				if !good || idx >= len(call.Common().Args) {
					continue
				}
				g := an.SenseEdges(fn, an.ErrResult(call), an.IsNil)
				if len(g) > 0 && call.Common().Args[idx] == r[0].Common().Args[0] && isParamN(fn, 1)(r[0].Common().Args[1]) &&
					len(an.Ungated(an.CutSpec{Fn: fn, GateEdge: g, Sink: func(in ssa.Instruction) bool { return in == r[0].(ssa.Instruction) }})) == 0 {
					c.Touch(callee)
					c.OK("C07.c", "ORD", "plan.WriteToFile:tmp-sync-rename", c.P.Pos(fn.Pos()), "the plan is written to a temporary file and synced (in "+core.FuncName(callee)+"), then renamed into place")
					ok = true
				}
			}
			viaHelper = ok
		}
		if ok && !viaHelper {
			g1 := an.SenseEdges(fn, an.ErrResult(w[0]), an.IsNil)
			g2 := an.SenseEdges(fn, an.ErrResult(s[0]), an.IsNil)
			ok = len(an.Ungated(an.CutSpec{Fn: fn, GateEdge: g1, Sink: func(in ssa.Instruction) bool { return in == s[0].(ssa.Instruction) }})) == 0 &&
				len(an.Ungated(an.CutSpec{Fn: fn, GateEdge: g2, Sink: func(in ssa.Instruction) bool { return in == r[0].(ssa.Instruction) }})) == 0
			// the file written and synced is the rename's source, the target is the parameter
			ok = ok && w[0].Common().Args[0] == r[0].Common().Args[0] && s[0].Common().Args[0] == w[0].Common().Args[0] && isParamN(fn, 1)(r[0].Common().Args[1])
		}
		if !viaHelper {
			c.Result(ok, "C07.c", "ORD", "plan.WriteToFile:tmp-sync-rename", c.P.Pos(fn.Pos()), "the plan is written to a temporary file, synced, then renamed into place", "plan.WriteToFile is not write-tmp → sync → rename: a crash can leave a torn plan under the real name", nil)
		}
	}
	if fn := c.Fn("C07.c", "snapshot", "(*Store).check"); fn != nil {
		reads := an.CallsTo(fn, false, "snapshot/plan.ReadFromFile")
		sweep := anchorCalls(fn, "os.ReadDir")
		ok := len(reads) == 1 && len(sweep) == 1
		if ok {
			// the sweep is not reachable before the plan test
			var planTest ssa.Instruction
			for _, call := range an.CallsTo(fn, false, "internal/fsutil.FileExists") {
				if an.MentionsField(call.Common().Args[0], "Store", "reapPlanPath") {
					planTest = call.(ssa.Instruction)
				}
			}
			ok = planTest != nil && len(an.Ungated(an.CutSpec{Fn: fn, GateInstr: func(in ssa.Instruction) bool { return in == planTest }, Sink: func(in ssa.Instruction) bool { return in == sweep[0].(ssa.Instruction) }})) == 0
			// execution guarded by LastOpDone == false
			lod := an.CallsTo(fn, false, "snapshot/plan.Plan.LastOpDone")
			exs := an.CallsTo(fn, false, "snapshot.Store.executeReapPlan")
			if len(lod) == 1 && len(exs) == 1 {
				notDone := an.SenseEdges(fn, an.Result(lod[0], 0), an.IsFalse)
				ok = ok && len(notDone) > 0 && len(an.Ungated(an.CutSpec{Fn: fn, GateEdge: notDone, Sink: func(in ssa.Instruction) bool { return in == exs[0].(ssa.Instruction) }})) == 0
				// a failed resume aborts before the sweep
				bad := an.SenseEdges(fn, an.ErrResult(exs[0]), an.NotNil)
				var st []*ssa.BasicBlock
				for e := range bad {
					st = append(st, e.To)
				}
				ok = ok && len(st) > 0 && len(an.Ungated(an.CutSpec{Fn: fn, StartBlocks: st, Sink: func(in ssa.Instruction) bool { return in == sweep[0].(ssa.Instruction) }})) == 0
			} else {
				ok = false
			}
		}
		c.Result(ok, "C07.c", "ORD", "Store.check:resume-before-sweep", c.P.Pos(fn.Pos()), "an interrupted plan is resumed (when its last operation is not done) before temporary directories are swept, and a failed resume aborts the open", "Store.check does not resume the persisted plan before sweeping, or continues after a failed resume", nil)
	}
	if fn := c.Fn("C07.c", "snapshot", "(*Store).executeReapPlan"); fn != nil {
		ex := an.CallsTo(fn, false, "snapshot/plan.Plan.Execute")
		sy := an.CallsTo(fn, false, "internal/fsutil.SyncDirMaybe")
		rm := an.CallsTo(fn, false, "os.Remove")
		ok := len(ex) == 1 && len(sy) == 1 && len(rm) == 1
		if ok {
			g := union(an.SenseEdges(fn, an.ErrResult(ex[0]), an.IsNil), nil)
			g2 := an.SenseEdges(fn, an.ErrResult(sy[0]), an.IsNil)
			ok = len(an.Ungated(an.CutSpec{Fn: fn, GateEdge: g, Sink: func(in ssa.Instruction) bool { return in == sy[0].(ssa.Instruction) }})) == 0 &&
				len(an.Ungated(an.CutSpec{Fn: fn, GateEdge: g2, Sink: func(in ssa.Instruction) bool { return in == rm[0].(ssa.Instruction) }})) == 0
		}
		c.Result(ok, "C07.c", "ORD", "executeReapPlan:remove-plan-last", c.P.Pos(fn.Pos()), "the plan file is removed only after Execute and the directory sync succeeded", "the plan file can be removed before the plan was fully executed and synced", nil)
	}

	// C07.d cross-check of resume sites
	sites := []string{}
	for _, pkg := range []string{"snapshot"} {
		for _, fn := range pkgFuncs(c.P.SPkg(pkg)) {
			if len(an.CallsTo(fn, false, "snapshot/plan.ReadFromFile")) == 0 {
				continue
			}
			guard := "none"
			if len(an.CallsTo(fn, false, "snapshot/plan.Plan.LastOpDone")) > 0 {
				guard = "LastOpDone"
			}
			sites = append(sites, core.FuncName(fn)+"["+guard+"]")
		}
	}
	sort.Strings(sites)
	c.Note("resume sites of a persisted plan and their guards: %s", strings.Join(sites, "; "))
	c.OK("C07.d", "TABLE", "plan-resume-sites", "", "cross-check (informational): "+strings.Join(sites, "; "))
}
