package props

import (
	"go/token"

	"golang.org/x/tools/go/ssa"

	"rqverif/checker/internal/an"
	"rqverif/checker/internal/core"
)

// C07.e: the executor operations have the idempotent semantics the replay
// model (an/reapmodel.go, an/planfs.go) assumes.
func c07Executor(c *core.Ctx) {
	c07CopyFileTable(c, "C07.e")
	retErr := func(idx int) func(*ssa.Return, func(ssa.Value) ssa.Value) string {
		return func(r *ssa.Return, resolve func(ssa.Value) ssa.Value) string {
			v := resolve(r.Results[idx])
			if an.IsNilConst(v) {
				return "nil"
			}
			if call, ok := v.(*ssa.Call); ok && an.IsCall(call, "snapshot/plan.syncFileMaybe") {
				return "result of snapshot/plan.syncFileMaybe"
			}
			return "err"
		}
	}
	effCalls := func(ids ...string) func(ssa.Instruction) (string, bool) {
		return func(in ssa.Instruction) (string, bool) {
			call, ok := in.(*ssa.Call)
			if !ok {
				return "", false
			}
			for _, id := range ids {
				if an.IsCall(call, id) {
					return id, true
				}
			}
			return "", false
		}
	}
	if fn := c.Fn("C07.e", "snapshot/plan", "(*Executor).Rename"); fn != nil {
		spec := an.DecideSpec{Fn: fn,
			Vars:   []an.Var{an.Bool("renameOK"), an.Bool("notExist"), an.Bool("dstExists")},
			Conds:  []an.CondMatcher{errOf("renameOK", "os.Rename"), boolOf("notExist", -1, "os.IsNotExist"), an.NilCond("dstExists", func(v ssa.Value) bool { return callResult(v, 1, "os.Stat") })},
			Effect: effCalls("os.Rename", "os.Stat", "os.RemoveAll", "os.Remove"),
			Ret:    retErr(0),
			Ref: func(v an.Val) string {
				switch {
				case v["renameOK"] == 1:
					return "os.Rename => nil"
				case v["notExist"] == 1 && v["dstExists"] == 1:
					return "os.Rename;os.Stat => nil"
				case v["notExist"] == 1:
					return "os.Rename;os.Stat => err"
				}
				return "os.Rename => err"
			}}
		reportDecide(c, "C07.e", "(*Executor).Rename", c.P.Pos(fn.Pos()), an.Decide(spec, c.P.Pos))
		// the stat is of the destination, the rename of (src, dst)
		ok := false
		for _, call := range an.CallsTo(fn, false, "os.Stat") {
			ok = an.Unwrap(call.Common().Args[0]) == ssa.Value(fn.Params[2])
		}
		for _, call := range an.CallsTo(fn, false, "os.Rename") {
			a := call.Common().Args
			ok = ok && an.Unwrap(a[0]) == ssa.Value(fn.Params[1]) && an.Unwrap(a[1]) == ssa.Value(fn.Params[2])
		}
		c.Result(ok, "C07.e", "CONST", "(*Executor).Rename:args", c.P.Pos(fn.Pos()), "renames src to dst and, when src is gone, accepts an existing dst", "Executor.Rename does not rename (src, dst) / does not test dst when src is gone: a replayed rename fails or succeeds wrongly", nil)
	}
	if fn := c.Fn("C07.e", "snapshot/plan", "(*Executor).Remove"); fn != nil {
		spec := an.DecideSpec{Fn: fn,
			Vars:   []an.Var{an.Bool("removeOK"), an.Bool("notExist")},
			Conds:  []an.CondMatcher{errOf("removeOK", "os.Remove"), boolOf("notExist", -1, "os.IsNotExist")},
			Effect: effCalls("os.Remove"),
			Ret:    retErr(0),
			Ref: func(v an.Val) string {
				if v["removeOK"] == 1 || v["notExist"] == 1 {
					return "os.Remove => nil"
				}
				return "os.Remove => err"
			}}
		reportDecide(c, "C07.e", "(*Executor).Remove", c.P.Pos(fn.Pos()), an.Decide(spec, c.P.Pos))
	}
	if fn := c.Fn("C07.e", "snapshot/plan", "(*Executor).RemoveAll"); fn != nil {
		ok := false
		for _, r := range an.Returns(fn) {
			if call, isC := r.Results[0].(*ssa.Call); isC && an.IsCall(call, "os.RemoveAll") && an.Unwrap(call.Call.Args[0]) == ssa.Value(fn.Params[1]) {
				ok = true
			}
		}
		c.Result(ok, "C07.e", "CONST", "(*Executor).RemoveAll", c.P.Pos(fn.Pos()), "RemoveAll removes the tree (a missing path is not an error)", "Executor.RemoveAll is no longer os.RemoveAll(path)", nil)
	}
	if fn := c.Fn("C07.e", "snapshot/plan", "(*Executor).WriteMeta"); fn != nil {
		spec := an.DecideSpec{Fn: fn,
			Vars:   []an.Var{an.Bool("writeOK"), an.Bool("notExist"), an.Bool("openOK")},
			Conds:  []an.CondMatcher{errOf("writeOK", "os.WriteFile"), boolOf("notExist", -1, "os.IsNotExist"), an.NilCond("openOK", func(v ssa.Value) bool { return callResult(v, 1, "os.Open") })},
			Effect: effCalls("os.WriteFile", "os.Open"),
			Ret:    retErr(0),
			Ref: func(v an.Val) string {
				switch {
				case v["writeOK"] == 0 && v["notExist"] == 1:
					return "os.WriteFile => nil"
				case v["writeOK"] == 0:
					return "os.WriteFile => err"
				case v["openOK"] == 0:
					return "os.WriteFile;os.Open => err"
				}
				return "os.WriteFile;os.Open => result of snapshot/plan.syncFileMaybe"
			}}
		reportDecide(c, "C07.e", "(*Executor).WriteMeta", c.P.Pos(fn.Pos()), an.Decide(spec, c.P.Pos))
	}
	if fn := c.Fn("C07.e", "snapshot/plan", "(*Executor).Checkpoint"); fn != nil {
		// every WAL is moved to <db>-wal and then folded; a missing WAL is skipped
		var mv ssa.CallInstruction
		for _, call := range an.CallsTo(fn, false, "os.Rename") {
			mv = call
		}
		var folds []ssa.CallInstruction
		for _, call := range an.CallsTo(fn, false, "db.CheckpointRemove") {
			folds = append(folds, call)
		}
		ok := mv != nil && len(folds) == 2
		if ok {
			dst := mv.Common().Args[1]
			bo, isB := dst.(*ssa.BinOp)
			s := ""
			if isB {
				s, _ = an.ConstString(bo.Y)
			}
			ok = isB && bo.Op == token.ADD && an.Unwrap(bo.X) == ssa.Value(fn.Params[1]) && s == "-wal"
			// the fold after the move is gated by the move's success
			okE := an.SenseEdges(fn, an.ErrResult(mv), an.IsNil)
			var after ssa.CallInstruction
			for _, f := range folds {
				if an.ReachableFrom(mv.(ssa.Instruction), f.(ssa.Instruction), nil) && f.Block() == mv.Block() || an.Dominates(mv.(ssa.Instruction), f.(ssa.Instruction)) {
					after = f
				}
			}
			if after == nil {
				ok = false
			} else {
				h := an.Ungated(an.CutSpec{Fn: fn, Start: mv.(ssa.Instruction), GateEdge: okE, Sink: func(in ssa.Instruction) bool { return in == after.(ssa.Instruction) }})
				ok = ok && len(okE) > 0 && len(h) == 0
			}
			// the moved file is an element of the list of existing WALs, which is filtered by Stat
			stats := an.CallsTo(fn, false, "os.Stat")
			ok = ok && len(stats) >= 2
		}
		c.Result(ok, "C07.e", "ORD", "(*Executor).Checkpoint:move-then-fold", c.P.Pos(fn.Pos()),
			"each existing WAL is renamed to <db>-wal and folded only after the rename succeeded; a leftover <db>-wal is folded first (C07.a)",
			"Executor.Checkpoint no longer moves each WAL to <db>-wal and folds it after a successful move", nil)
		// success with n == 0 does not require the database
		succ := an.SuccessReturns(fn)
		c.Result(len(succ) >= 2, "C07.e", "ORD", "(*Executor).Checkpoint:nothing-to-do-is-success", c.P.Pos(fn.Pos()),
			"a replay that finds no WAL left returns success", "Executor.Checkpoint has no early success return when every WAL is already folded: a replay after the final rename fails", nil)
	}
	if fn := c.Fn("C07.e", "snapshot/plan", "(*Checker).RenameDone"); fn != nil {
		spec := an.DecideSpec{Fn: fn,
			Vars: []an.Var{an.Bool("statOK"), an.Bool("srcExists")},
			Conds: []an.CondMatcher{
				an.NilCond("statOK", func(v ssa.Value) bool { return callResult(v, 1, "snapshot/plan.pathExists") }),
				an.BoolCond("srcExists", func(v ssa.Value) bool { return callResult(v, 0, "snapshot/plan.pathExists") }),
			},
			Ret: func(r *ssa.Return, resolve func(ssa.Value) ssa.Value) string {
				b := resolve(r.Results[0])
				if k, ok := an.ConstBool(b); ok && !k {
					if an.IsNilConst(resolve(r.Results[1])) {
						return "false,nil"
					}
					return "false,err"
				}
				if ex, ok := b.(*ssa.Extract); ok {
					if call, ok := ex.Tuple.(*ssa.Call); ok && an.IsCall(call, "snapshot/plan.pathExists") && an.Unwrap(call.Call.Args[0]) == ssa.Value(fn.Params[2]) {
						return "exists(dst)"
					}
				}
				return "?"
			},
			Ref: func(v an.Val) string {
				switch {
				case v["statOK"] == 0:
					return " => false,err"
				case v["srcExists"] == 1:
					return " => false,nil"
				}
				return " => exists(dst)"
			}}
		reportDecide(c, "C07.e", "(*Checker).RenameDone", c.P.Pos(fn.Pos()), an.Decide(spec, c.P.Pos))
	}
	_ = core.ModPath
}

// writesAndSyncs: a successful return of h implies that the file named by its
// parameter idx was written (os.WriteFile) and synced (syncFileMaybe /
// File.Sync on the same path).
func writesAndSyncs(h *ssa.Function) (int, bool) {
	if len(h.Blocks) == 0 {
		return 0, false
	}
	ws := an.CallsTo(h, false, "os.WriteFile")
	ss := an.CallsTo(h, false, "snapshot/plan.syncFileMaybe", "os.File.Sync")
	if len(ws) != 1 || len(ss) != 1 {
		return 0, false
	}
	idx := -1
	for i, p := range h.Params {
		if an.Unwrap(ws[0].Common().Args[0]) == ssa.Value(p) {
			idx = i
		}
	}
	if idx < 0 || ss[0].Common().Args[0] != ws[0].Common().Args[0] {
		return 0, false
	}
	g1 := an.SenseEdges(h, an.ErrResult(ws[0]), an.IsNil)
	g2 := an.SenseEdges(h, an.ErrResult(ss[0]), an.IsNil)
	if len(g1) == 0 {
		return 0, false
	}
	succ := an.SuccessReturns(h)
	if len(succ) == 0 {
		return 0, false
	}
	for _, r := range succ {
		ret := r
		sink := func(in ssa.Instruction) bool { return in == ssa.Instruction(ret) }
		if len(an.Ungated(an.CutSpec{Fn: h, GateEdge: g1, Sink: sink})) > 0 {
			return 0, false
		}
		// the sync's own result is returned, or its nil edge gates the return
		direct := len(ret.Results) > 0 && ret.Results[len(ret.Results)-1] == ss[0].Value()
		if !direct && (len(g2) == 0 || len(an.Ungated(an.CutSpec{Fn: h, GateEdge: g2, Sink: sink})) > 0) {
			return 0, false
		}
		if direct && !an.Dominates(ws[0].(ssa.Instruction), ss[0].(ssa.Instruction)) {
			return 0, false
		}
	}
	return idx, true
}

// tailDelegate: if a success return of fn hands back the error result of a
// static call to a module function (`return s.helper()`), the helper decides
// the outcome of that path; it returns that helper. Rules about "what must have
// happened before success" are then applied to the helper as well.
func tailDelegate(fn *ssa.Function) *ssa.Function {
	var out *ssa.Function
	for _, r := range an.SuccessReturns(fn) {
		if len(r.Results) == 0 {
			continue
		}
		v := r.Results[len(r.Results)-1]
		// named result spilled to a cell: take the value stored in the returning block
		if ld, ok := v.(*ssa.UnOp); ok && ld.Op == token.MUL {
			if cell, ok := ld.X.(*ssa.Alloc); ok {
				instrs := r.Block().Instrs
				for i := len(instrs) - 1; i >= 0; i-- {
					if st, ok := instrs[i].(*ssa.Store); ok && st.Addr == ssa.Value(cell) {
						v = st.Val
						break
					}
				}
			}
		}
		if ex, ok := v.(*ssa.Extract); ok {
			v = ex.Tuple
		}
		call, ok := v.(*ssa.Call)
		if !ok {
			continue
		}
		callee := call.Call.StaticCallee()
		if callee != nil && core.InModule(callee) && len(callee.Blocks) > 0 {
			out = callee
		}
	}
	return out
}

// selectCaseBlock returns the block entered when a select chooses state idx.
func selectCaseBlock(sel *ssa.Select, idx int) *ssa.BasicBlock {
	var out *ssa.BasicBlock
	for _, r := range *sel.Referrers() {
		ex, ok := r.(*ssa.Extract)
		if !ok || ex.Index != 0 {
			continue
		}
		for _, rr := range *ex.Referrers() {
			bo, ok := rr.(*ssa.BinOp)
			if !ok || bo.Op != token.EQL {
				continue
			}
			k, isK := an.ConstInt(bo.Y)
			if !isK || int(k) != idx {
				continue
			}
			for _, r3 := range *bo.Referrers() {
				if ifi, ok := r3.(*ssa.If); ok {
					out = ifi.Block().Succs[0]
				}
			}
		}
	}
	return out
}

// c07CopyFileTable: Executor.CopyFile makes dst an independent copy of src and
// is idempotent: src gone and dst present is success. Every file-system call it
// makes is part of the table, so a shortcut such as a hard link (which makes
// src and dst one inode — replaying the copy then truncates both) is a mismatch.
func c07CopyFileTable(c *core.Ctx, clause string) {
	fn := c.Fn(clause, "snapshot/plan", "(*Executor).CopyFile")
	if fn == nil {
		return
	}
	fsCall := func(in ssa.Instruction) (string, bool) {
		var ci ssa.CallInstruction
		switch x := in.(type) {
		case *ssa.Call:
			ci = x
		default:
			return "", false
		}
		id := an.CalleeID(ci)
		switch {
		case id == "io.Copy" || id == "io.CopyN" || id == "io.CopyBuffer":
			return "copy", true
		case len(id) > 3 && id[:3] == "os." && id != "os.IsNotExist" && id != "os.IsExist":
			return id, true
		case id == "internal/fsutil.CopyFile":
			return id, true
		}
		return "", false
	}
	spec := an.DecideSpec{Fn: fn,
		Vars: []an.Var{an.Bool("openOK"), an.Bool("notExist"), an.Bool("dstExists"), an.Bool("statOK"), an.Bool("createOK"), an.Bool("copyOK")},
		Conds: []an.CondMatcher{
			an.NilCond("openOK", func(v ssa.Value) bool { return callResult(v, 1, "os.Open") }),
			boolOf("notExist", -1, "os.IsNotExist"),
			an.NilCond("dstExists", func(v ssa.Value) bool { return callResult(v, 1, "os.Stat") }),
			an.NilCond("statOK", func(v ssa.Value) bool { return callResult(v, 1, "os.File.Stat") }),
			an.NilCond("createOK", func(v ssa.Value) bool { return callResult(v, 1, "os.OpenFile") }),
			an.NilCond("copyOK", func(v ssa.Value) bool { return callResult(v, 1, "io.Copy") }),
		},
		Effect: fsCall,
		Ret: func(r *ssa.Return, resolve func(ssa.Value) ssa.Value) string {
			v := resolve(r.Results[0])
			if an.IsNilConst(v) {
				return "nil"
			}
			if call, ok := v.(*ssa.Call); ok && an.IsCall(call, "os.File.Sync") {
				return "sync"
			}
			return "err"
		},
		Ref: func(v an.Val) string {
			switch {
			case v["openOK"] == 0 && v["notExist"] == 1 && v["dstExists"] == 1:
				return "os.Open;os.Stat => nil"
			case v["openOK"] == 0 && v["notExist"] == 1:
				return "os.Open;os.Stat => err"
			case v["openOK"] == 0:
				return "os.Open => err"
			case v["statOK"] == 0:
				return "os.Open;os.File.Stat => err"
			case v["createOK"] == 0:
				return "os.Open;os.File.Stat;os.OpenFile => err"
			case v["copyOK"] == 0:
				return "os.Open;os.File.Stat;os.OpenFile;copy => err"
			}
			return "os.Open;os.File.Stat;os.OpenFile;copy;os.File.Sync => sync"
		}}
	reportDecide(c, clause, "(*Executor).CopyFile", c.P.Pos(fn.Pos()), an.Decide(spec, c.P.Pos))
	// the destination is created/truncated as its own file with the source's mode
	ok := false
	for _, call := range an.CallsTo(fn, false, "os.OpenFile") {
		a := call.Common().Args
		flags, isK := an.ConstInt(a[1])
		ok = an.Unwrap(a[0]) == ssa.Value(fn.Params[2]) && isK && flags&0x40 != 0 && flags&0x200 != 0 // O_CREATE|O_TRUNC
	}
	c.Result(ok, clause, "CONST", "(*Executor).CopyFile:dst-own-file", c.P.Pos(fn.Pos()), "dst is created and truncated as a file of its own",
		"Executor.CopyFile does not create/truncate dst as its own file", nil)
}
