package props

import (
	"fmt"
	"go/token"
	"sort"
	"strings"

	"golang.org/x/tools/go/ssa"

	"rqverif/checker/internal/an"
	"rqverif/checker/internal/core"
)

// C07.f: the reap plan as built by Store.reapInternal is extracted from the
// SSA (operation kinds, their order, the role of every argument: the full
// snapshot's directory and database, the WAL list composed of the full
// snapshot's and then the newer snapshots' WAL files, the directories of the
// newer and of the older snapshots, the published directory), instantiated for
// every store shape up to a bound, and replayed on the abstract file system of
// an/reapmodel.go with a crash after every file-system effect (thorough: and a
// second crash after every effect of the resumed run).

type reapItem struct {
	call *ssa.Call
	kind string // Checkpoint, CalcCRC32, RemoveAll, WriteMeta, VerifyDB, Rename
	set  string // for RemoveAll: "newer" | "older"
	opt  bool   // not executed on every path of its branch
}

func c07ReapReplay(c *core.Ctx) {
	fn := c.Fn("C07.f", "snapshot", "(*Store).reapInternal")
	if fn == nil {
		return
	}
	unk := func(what string) {
		c.Unk("C07.f", "PLAN", "reapInternal:template", c.P.Pos(fn.Pos()), what+" — the plan template cannot be extracted; the crash exploration was not run")
	}
	// anchors
	var planNew, part, newestCall, before ssa.Value
	for _, call := range an.AllCalls(fn, false) {
		cc, ok := call.(*ssa.Call)
		if !ok {
			continue
		}
		switch an.CalleeID(call) {
		case "snapshot/plan.New":
			planNew = cc
		case "snapshot.SnapshotSet.PartitionAtFull":
			part = cc
		case "snapshot.SnapshotSet.Newest":
			if newestCall == nil {
				newestCall = cc
			}
		case "snapshot.SnapshotSet.BeforeID":
			before = cc
		}
	}
	if planNew == nil || part == nil || newestCall == nil || before == nil {
		unk("plan.New / PartitionAtFull / Newest / BeforeID not found in reapInternal")
		return
	}
	extract := func(t ssa.Value, idx int) ssa.Value {
		for _, r := range *t.Referrers() {
			if ex, ok := r.(*ssa.Extract); ok && ex.Index == idx {
				return ex
			}
		}
		return nil
	}
	fullSet, newerSet := extract(part, 0), extract(part, 1)
	full := extract(newestCall, 0)
	if fullSet == nil || newerSet == nil || full == nil || newestCall.(*ssa.Call).Call.Args[0] != fullSet {
		unk("the full snapshot is not the newest element of PartitionAtFull's first result")
		return
	}
	// value roles
	isFullField := func(v ssa.Value, field string) bool {
		u, ok := v.(*ssa.UnOp)
		if !ok || u.Op != token.MUL {
			return false
		}
		fa, ok := u.X.(*ssa.FieldAddr)
		if !ok || fa.X != full {
			return false
		}
		_, f, _, _ := an.FieldOf(fa)
		return f == field
	}
	isFullDB := func(v ssa.Value) bool {
		call, ok := v.(*ssa.Call)
		if !ok || !an.IsCall(call, "path/filepath.Join") {
			return false
		}
		el := sliceElems(call.Call.Args[0])
		if len(el) != 2 {
			return false
		}
		a, b := el[0], el[1]
		if !isFullField(a, "path") {
			a, b = b, a
		}
		s, isS := an.ConstString(b)
		return isFullField(a, "path") && isS && s != ""
	}
	// element of a range over <set>.All(): returns the set value
	elemSet := func(v ssa.Value) ssa.Value {
		u, ok := v.(*ssa.UnOp)
		if !ok || u.Op != token.MUL {
			return nil
		}
		ia, ok := u.X.(*ssa.IndexAddr)
		if !ok {
			return nil
		}
		call, ok := ia.X.(*ssa.Call)
		if !ok || !an.IsCall(call, "snapshot.SnapshotSet.All") {
			return nil
		}
		return call.Call.Args[0]
	}
	setName := func(s ssa.Value) string {
		switch s {
		case newerSet:
			return "newer"
		case before:
			return "older"
		}
		return ""
	}
	// Add* calls on the plan
	var items []*reapItem
	for _, call := range an.AllCalls(fn, false) {
		cc, ok := call.(*ssa.Call)
		if !ok {
			continue
		}
		id := an.CalleeID(call)
		if !strings.HasPrefix(id, "snapshot/plan.Plan.Add") {
			continue
		}
		if cc.Call.Args[0] != planNew {
			unk("an operation is added to a plan other than the one built here")
			return
		}
		it := &reapItem{call: cc, kind: strings.TrimPrefix(id, "snapshot/plan.Plan.Add")}
		a := cc.Call.Args
		okRole := false
		switch it.kind {
		case "Checkpoint":
			okRole = isFullDB(a[1]) && c07walList(c, fn, a[2], full, newerSet, elemSet)
		case "CalcCRC32":
			if bo, isB := a[2].(*ssa.BinOp); isB && bo.Op == token.ADD {
				s, isS := an.ConstString(bo.Y)
				okRole = isFullDB(a[1]) && bo.X == a[1] && isS && s != ""
			}
		case "RemoveAll":
			if u, isU := a[1].(*ssa.UnOp); isU && u.Op == token.MUL {
				if fa, isFA := u.X.(*ssa.FieldAddr); isFA {
					_, f, _, _ := an.FieldOf(fa)
					it.set = setName(elemSet(fa.X))
					okRole = f == "path" && it.set != ""
				}
			}
		case "WriteMeta":
			okRole = isFullField(a[1], "path")
		case "VerifyDB":
			okRole = isFullDB(a[1])
		case "Rename":
			dstOK := false
			if call2, isC := a[2].(*ssa.Call); isC && an.IsCall(call2, "path/filepath.Join") {
				el := sliceElems(call2.Call.Args[0])
				dstOK = len(el) == 2 && (an.LoadedField(el[0], "Store", "dir") || an.LoadedField(el[1], "Store", "dir"))
			}
			okRole = isFullField(a[1], "path") && dstOK
		}
		if !okRole {
			c.Unk("C07.f", "PLAN", "reapInternal:template:"+it.kind, c.P.Pos(cc.Pos()), "the arguments of Add"+it.kind+" no longer have the reviewed roles (full snapshot directory / database, WAL list of full then newer snapshots, directory of a newer or older snapshot, published directory); the crash exploration was not run")
			return
		}
		items = append(items, it)
	}
	c.Count("operations added to the reap plan", len(items))
	c.Min("operations added to the reap plan", 8)
	// order: a ≺ b iff b is reachable from a and not the other way round
	reach := func(a, b ssa.Instruction) bool {
		if a.Block() == b.Block() && an.InstrIndex(a) < an.InstrIndex(b) {
			return true
		}
		return an.ReachableFrom(a, b, nil)
	}
	var ckpt *reapItem
	for _, it := range items {
		if it.kind == "Checkpoint" {
			if ckpt != nil {
				unk("more than one AddCheckpoint")
				return
			}
			ckpt = it
		}
	}
	if ckpt == nil {
		unk("no AddCheckpoint")
		return
	}
	var branchB, branchA []*reapItem
	for _, it := range items {
		if it == ckpt || reach(ckpt.call, it.call) || reach(it.call, ckpt.call) {
			branchB = append(branchB, it)
		} else {
			branchA = append(branchA, it)
		}
	}
	okOrder := true
	sort.SliceStable(branchB, func(i, j int) bool {
		a, b := branchB[i].call, branchB[j].call
		ab, ba := reach(a, b), reach(b, a)
		if ab == ba && a != b {
			okOrder = false
		}
		return ab && !ba
	})
	if !okOrder {
		unk("two plan operations are not ordered (added in the same loop)")
		return
	}
	// optional operations: not on every path from the checkpoint to the rename
	var rename *reapItem
	for _, it := range branchB {
		if it.kind == "Rename" {
			rename = it
		}
	}
	if rename == nil {
		unk("branch with the checkpoint has no AddRename")
		return
	}
	for _, it := range branchB {
		if it.kind == "RemoveAll" || it == ckpt || it == rename {
			continue
		}
		item := it
		h := an.Ungated(an.CutSpec{Fn: fn, Start: ckpt.call, GateInstr: func(in ssa.Instruction) bool { return in == ssa.Instruction(item.call) },
			Sink: func(in ssa.Instruction) bool { return in == ssa.Instruction(rename.call) }})
		it.opt = len(h) > 0
	}
	// branch conditions
	walArg := ckpt.call.Call.Args[2]
	isLenWal := func(v ssa.Value) bool {
		call, ok := v.(*ssa.Call)
		if !ok {
			return false
		}
		b, ok := call.Call.Value.(*ssa.Builtin)
		return ok && b.Name() == "len" && call.Call.Args[0] == walArg
	}
	isNewerLen := func(v ssa.Value) bool {
		call, ok := v.(*ssa.Call)
		return ok && an.IsCall(call, "snapshot.SnapshotSet.Len") && call.Call.Args[0] == newerSet
	}
	isZero := func(v ssa.Value) bool { k, ok := an.ConstInt(v); return ok && k == 0 }
	walZero := eqEdges(fn, isLenWal, isZero)
	newerZero := eqEdges(fn, isNewerLen, isZero)
	// len(walFiles) > 0 edge
	walPos := map[an.Edge]bool{}
	for _, b := range fn.Blocks {
		if len(b.Instrs) == 0 {
			continue
		}
		ifi, ok := b.Instrs[len(b.Instrs)-1].(*ssa.If)
		if !ok {
			continue
		}
		bo, ok := ifi.Cond.(*ssa.BinOp)
		if !ok {
			continue
		}
		switch {
		case bo.Op == token.GTR && isLenWal(bo.X) && isZero(bo.Y), bo.Op == token.LSS && isZero(bo.X) && isLenWal(bo.Y), bo.Op == token.NEQ && isLenWal(bo.X) && isZero(bo.Y):
			walPos[an.Edge{From: b, To: b.Succs[0]}] = true
		}
	}
	hB := an.Ungated(an.CutSpec{Fn: fn, GateEdge: walPos, Sink: func(in ssa.Instruction) bool { return in == ssa.Instruction(ckpt.call) }})
	condB := len(walPos) > 0 && len(hB) == 0
	condA := true
	for _, it := range branchA {
		item := it
		sink := func(in ssa.Instruction) bool { return in == ssa.Instruction(item.call) }
		if len(walZero) == 0 || len(newerZero) == 0 ||
			len(an.Ungated(an.CutSpec{Fn: fn, GateEdge: walZero, Sink: sink})) > 0 ||
			len(an.Ungated(an.CutSpec{Fn: fn, GateEdge: newerZero, Sink: sink})) > 0 ||
			it.kind != "RemoveAll" || it.set != "older" {
			condA = false
		}
	}
	if !condB || !condA || len(branchA) != 1 {
		unk("the branch conditions of the plan builder changed (checkpoint branch iff WAL files exist; removal-only branch iff no newer snapshot and no WAL file)")
		return
	}
	var tmpl []string
	for _, it := range branchB {
		s := it.kind
		if it.set != "" {
			s += "[each " + it.set + "]"
		}
		if it.opt {
			s += "?"
		}
		tmpl = append(tmpl, s)
	}
	c.Note("reap plan template extracted from reapInternal: with WAL files: %s; without: RemoveAll[each older]", strings.Join(tmpl, " → "))

	// instantiate and explore
	double := c.Tier == "thorough"
	maxOld, maxFW, maxInc, maxIW := 1, 2, 2, 2
	if double {
		maxOld, maxFW, maxInc, maxIW = 2, 2, 2, 2
	}
	shapes, schedules := 0, 0
	type failure struct {
		shape string
		plan  []string
		cr    an.ReapCrash
	}
	var fails []failure
	var incShapes [][]int
	var gen func(cur []int)
	gen = func(cur []int) {
		incShapes = append(incShapes, append([]int(nil), cur...))
		if len(cur) == maxInc {
			return
		}
		for w := 1; w <= maxIW; w++ {
			gen(append(cur, w))
		}
	}
	gen(nil)
	optVariants := []bool{true}
	for _, it := range branchB {
		if it.opt {
			optVariants = []bool{true, false}
		}
	}
	for nOld := 0; nOld <= maxOld; nOld++ {
		for fw := 0; fw <= maxFW; fw++ {
			for _, incs := range incShapes {
				for _, withOpt := range optVariants {
					fs := an.RFS{"S": {Dir: true}}
					var olds, news []string
					for i := 1; i <= nOld; i++ {
						d := fmt.Sprintf("S/old%d", i)
						olds = append(olds, d)
						fs[d] = &an.RFile{Dir: true}
						fs[d+"/data.db"] = &an.RFile{Content: []string{"old"}}
						fs[d+"/meta.json"] = &an.RFile{Content: []string{"m"}}
					}
					fs["S/full"] = &an.RFile{Dir: true}
					fs["S/full/data.db"] = &an.RFile{Content: []string{"base"}}
					fs["S/full/data.db.crc32"] = &an.RFile{Content: []string{"base"}}
					fs["S/full/meta.json"] = &an.RFile{Content: []string{"oldmeta"}}
					want := []string{"base"}
					var wals []string
					for i := 1; i <= fw; i++ {
						p := fmt.Sprintf("S/full/w%d.wal", i)
						fs[p] = &an.RFile{Content: []string{fmt.Sprintf("full.w%d", i)}}
						wals = append(wals, p)
						want = append(want, fmt.Sprintf("full.w%d", i))
					}
					for k, n := range incs {
						d := fmt.Sprintf("S/inc%d", k+1)
						news = append(news, d)
						fs[d] = &an.RFile{Dir: true}
						fs[d+"/meta.json"] = &an.RFile{Content: []string{"m"}}
						for i := 1; i <= n; i++ {
							p := fmt.Sprintf("%s/w%d.wal", d, i)
							id := fmt.Sprintf("inc%d.w%d", k+1, i)
							fs[p] = &an.RFile{Content: []string{id}}
							wals = append(wals, p)
							want = append(want, id)
						}
					}
					var ops []an.ROp
					var spec func(an.RFS) string
					switch {
					case len(news) == 0 && len(wals) == 0:
						if nOld == 0 || !withOpt {
							continue
						}
						for _, d := range olds {
							ops = append(ops, an.ROp{Kind: "RemoveAll", A: d})
						}
						spec = func(f an.RFS) string {
							return specExact(f, map[string][]string{"S": nil, "S/full": nil, "S/full/data.db": {"base"}, "S/full/data.db.crc32": {"base"}, "S/full/meta.json": {"oldmeta"}})
						}
					case len(wals) > 0:
						for _, it := range branchB {
							if it.opt && !withOpt {
								continue
							}
							switch it.kind {
							case "Checkpoint":
								ops = append(ops, an.ROp{Kind: "Checkpoint", A: "S/full/data.db", WALs: wals})
							case "CalcCRC32":
								ops = append(ops, an.ROp{Kind: "CalcCRC32", A: "S/full/data.db", B: "S/full/data.db.crc32"})
							case "RemoveAll":
								ds := news
								if it.set == "older" {
									ds = olds
								}
								for _, d := range ds {
									ops = append(ops, an.ROp{Kind: "RemoveAll", A: d})
								}
							case "WriteMeta":
								ops = append(ops, an.ROp{Kind: "WriteMeta", A: "S/full", B: "newmeta"})
							case "VerifyDB":
								ops = append(ops, an.ROp{Kind: "VerifyDB", A: "S/full/data.db"})
							case "Rename":
								ops = append(ops, an.ROp{Kind: "Rename", A: "S/full", B: "S/new"})
							}
						}
						w := want
						spec = func(f an.RFS) string {
							return specExact(f, map[string][]string{"S": nil, "S/new": nil, "S/new/data.db": w, "S/new/data.db.crc32": w, "S/new/meta.json": {"newmeta"}})
						}
					default:
						continue
					}
					shapes++
					bad, n := an.ExploreReap(fs, ops, spec, double)
					schedules += n
					if len(bad) > 0 && len(fails) < 3 {
						var ps []string
						for _, o := range ops {
							ps = append(ps, o.String())
						}
						fails = append(fails, failure{fmt.Sprintf("%d older, full with %d WAL(s), incrementals with %v WAL(s)", nOld, fw, incs), ps, bad[0]})
					}
				}
			}
		}
	}
	c.Count("store shapes explored for the reap plan", shapes)
	c.Min("store shapes explored for the reap plan", 20)
	c.Count("crash schedules explored for the reap plan", schedules)
	c.Sites += schedules
	if len(fails) == 0 {
		how := "a crash after every file-system effect"
		if double {
			how += " and a second crash after every effect of the resumed run"
		}
		c.OK("C07.f", "PLAN", "reap-plan:crash-safe", c.P.Pos(fn.Pos()), fmt.Sprintf("%d store shapes, %d schedules (%s): the next start always completes the plan and leaves one snapshot holding every WAL segment of the full and newer snapshots in order, a matching checksum and the new meta; plan: %s", shapes, schedules, how, strings.Join(tmpl, " → ")))
		return
	}
	for i, f := range fails {
		when := fmt.Sprintf("crash after %d file-system effect(s)", f.cr.First)
		if f.cr.First < 0 {
			when = "no crash"
		}
		if f.cr.Second >= 0 {
			when += fmt.Sprintf(", second crash after %d effect(s) of the resumed run", f.cr.Second)
		}
		key := "reap-plan:crash-safe"
		if i > 0 {
			key += fmt.Sprintf("#%d", i+1)
		}
		c.Bad("C07.f", "PLAN", key, c.P.Pos(fn.Pos()),
			fmt.Sprintf("store with %s; %s: %s", f.shape, when, f.cr.Err), map[string]any{"plan": f.plan, "template": tmpl})
	}
}

// specExact: the file system holds exactly the given paths with the given contents.
func specExact(f an.RFS, want map[string][]string) string {
	for p, w := range want {
		got, ok := f[p]
		if !ok {
			return "the store lacks " + p + " (state: " + f.String() + ")"
		}
		if w != nil && strings.Join(got.Content, ",") != strings.Join(w, ",") {
			return p + " holds [" + strings.Join(got.Content, ",") + "], expected [" + strings.Join(w, ",") + "]"
		}
	}
	for p := range f {
		if _, ok := want[p]; !ok {
			return "the store still holds " + p + " (state: " + f.String() + ")"
		}
	}
	return ""
}

// c07walList: the WAL list handed to AddCheckpoint is the full snapshot's WAL
// files followed by the WAL files of each newer snapshot, in catalogue order.
func c07walList(c *core.Ctx, fn *ssa.Function, walArg ssa.Value, full, newerSet ssa.Value, elemSet func(ssa.Value) ssa.Value) bool {
	// the list built by a same-package helper from the full snapshot and the newer set
	if call, ok := walArg.(*ssa.Call); ok {
		if g := call.Common().StaticCallee(); g != nil && len(g.Blocks) > 0 && g.Pkg == fn.Pkg && g != fn {
			var pf, pn ssa.Value
			for i, a := range call.Call.Args {
				if i < len(g.Params) && a == full {
					pf = g.Params[i]
				}
				if i < len(g.Params) && a == newerSet {
					pn = g.Params[i]
				}
			}
			rets := an.Returns(g)
			if pf != nil && pn != nil && len(rets) == 1 && len(rets[0].Results) == 1 {
				c.Touch(g)
				return c07walList(c, g, rets[0].Results[0], pf, pn, elemSet)
			}
		}
	}
	// appends feeding walArg
	var apps []*ssa.Call
	seen := map[ssa.Value]bool{}
	var walk func(v ssa.Value)
	walk = func(v ssa.Value) {
		if v == nil || seen[v] {
			return
		}
		seen[v] = true
		switch x := v.(type) {
		case *ssa.Phi:
			for _, e := range x.Edges {
				walk(e)
			}
		case *ssa.Call:
			if b, ok := x.Call.Value.(*ssa.Builtin); ok && b.Name() == "append" {
				apps = append(apps, x)
				walk(x.Call.Args[0])
			}
		}
	}
	walk(walArg)
	if len(apps) != 2 {
		return false
	}
	role := func(app *ssa.Call) string {
		el := sliceElems(app.Call.Args[1])
		if len(el) != 1 {
			return ""
		}
		// el = (*x).Path where x = walFiles[i] of some snapshot
		u, ok := el[0].(*ssa.UnOp)
		if !ok {
			return ""
		}
		fa, ok := u.X.(*ssa.FieldAddr)
		if !ok {
			return ""
		}
		if _, f, _, _ := an.FieldOf(fa); f != "Path" {
			return ""
		}
		eu, ok := fa.X.(*ssa.UnOp)
		if !ok {
			return ""
		}
		ia, ok := eu.X.(*ssa.IndexAddr)
		if !ok {
			return ""
		}
		lu, ok := ia.X.(*ssa.UnOp) // load of <snap>.walFiles
		if !ok {
			return ""
		}
		wfa, ok := lu.X.(*ssa.FieldAddr)
		if !ok {
			return ""
		}
		if _, f, _, _ := an.FieldOf(wfa); f != "walFiles" {
			return ""
		}
		if wfa.X == full {
			return "full"
		}
		if elemSet(wfa.X) == newerSet {
			return "newer"
		}
		return ""
	}
	var fullApp, newerApp *ssa.Call
	for _, a := range apps {
		switch role(a) {
		case "full":
			fullApp = a
		case "newer":
			newerApp = a
		}
	}
	if fullApp == nil || newerApp == nil {
		return false
	}
	// the full snapshot's files come first: the newer append is reachable from the full one, not the other way round
	return an.ReachableFrom(fullApp, newerApp, nil) && !an.ReachableFrom(newerApp, fullApp, nil)
}
