package props

import (
	"fmt"
	"sort"
	"strings"

	"golang.org/x/tools/go/ssa"

	"rqverif/checker/internal/an"
	"rqverif/checker/internal/core"
)

func init() {
	register(&core.Check{
		ID:    "C08",
		Title: "Upgrades from older snapshot formats are crash-safe",
		Explanation: "C08.a abstract interpretation of the persisted upgrade plan: the operations Upgrade8To10 adds to its plan are extracted in order with symbolic paths (parameters, filepath.Join, tmpName, concatenation); starting from the state the function has established (old directory and its database exist, new does not) the plan is executed on an abstract file system with the executor's documented semantics, and for EVERY crash point between two operations the resume logic found in the source (replay from the first operation, or the short clean-up branch guarded by an existence test) must complete without error and reach the same final state as an uninterrupted run. The plan machinery itself (every operation type handled by Execute/LastOpDone, plan written tmp→sync→rename) is C07.a/c. " +
			"C08.b ORD: Upgrade7To8 removes a leftover temporary directory on entry, writes everything under tmpName(new), publishes with one Rename(tmp, new) that is reached only after the converted database was validated and switched to WAL mode, and removes the old directory only after that rename and the parent-directory sync. " +
			"C08.c ORD: Store.Open runs Upgrade7To8 then Upgrade8To10, each gated on the previous one's success, before snapshot.NewStore.",
		NotCovered: []string{"content of the upgraded snapshot (values)", "crashes inside a single operation (each operation's own idempotence is the executor's contract)"},
		Run:        runC08,
	})
}

func runC08(c *core.Ctx) {
	// the replay model treats CopyFile as "dst becomes an independent copy of src; src gone and dst present is success"
	c07CopyFileTable(c, "C08.c")
	c08plan(c)
	c08v7(c)
	c08open(c)
}

var planAdders = map[string]string{
	"AddRename": "Rename", "AddRemove": "Remove", "AddRemoveAll": "RemoveAll", "AddCheckpoint": "Checkpoint", "AddWriteMeta": "WriteMeta",
	"AddMkdirAll": "MkdirAll", "AddCopyFile": "CopyFile", "AddCalcCRC32": "CalcCRC32", "AddVerifyDB": "VerifyDB",
}

func c08plan(c *core.Ctx) {
	fn := c.Fn("C08.a", "snapshot", "Upgrade8To10")
	if fn == nil {
		return
	}
	var ops []an.PlanOp
	var adds []ssa.Instruction
	an.Instrs(fn, func(in ssa.Instruction) {
		call, ok := in.(*ssa.Call)
		if !ok {
			return
		}
		id := an.CalleeID(call)
		if !strings.HasPrefix(id, "snapshot/plan.Plan.Add") {
			return
		}
		kind, ok := planAdders[strings.TrimPrefix(id, "snapshot/plan.Plan.")]
		if !ok {
			c.Unk("C08.a", "PLAN", "Upgrade8To10:"+id, c.P.Pos(call.Pos()), "unknown plan constructor; extend the abstract semantics")
			return
		}
		a := call.Common().Args[1:]
		op := an.PlanOp{Kind: kind}
		switch kind {
		case "Rename", "CopyFile", "CalcCRC32":
			op.Src, op.Dst = an.TermOf(a[0]), an.TermOf(a[1])
		case "MkdirAll", "WriteMeta":
			op.Dst = an.TermOf(a[0])
		default:
			op.Src = an.TermOf(a[0])
		}
		ops = append(ops, op)
		adds = append(adds, in)
	})
	c.Count("operations in the 8→10 upgrade plan", len(ops))
	c.Min("operations in the 8→10 upgrade plan", 5)
	// straight-line: each Add dominates the next
	for i := 1; i < len(adds); i++ {
		if !an.Dominates(adds[i-1], adds[i]) {
			c.Unk("C08.a", "PLAN", "Upgrade8To10:straight-line", c.P.Pos(adds[i].Pos()), "the plan is not built as a straight-line sequence; the abstract replay cannot order its operations")
			return
		}
	}
	if len(ops) == 0 {
		return
	}
	// initial state: `old` exists with the database the plan copies
	init := an.FS{}
	oldT := an.TermOf(fn.Params[0])
	init.AddDir(oldT)
	for _, o := range ops {
		if (o.Kind == "CopyFile" || o.Kind == "Rename") && o.Src.Under(oldT) && o.Src.Key() != oldT.Key() {
			init.AddFile(o.Src)
		}
	}
	// resume site
	resume := an.Resume{}
	var resumeExec ssa.Instruction
	isResumeExec := func(call ssa.CallInstruction) bool {
		return callResult(call.Common().Args[0], 0, "snapshot/plan.ReadFromFile")
	}
	// the resume branch may have been moved into a private helper that is handed the paths
	planFn := fn
	termOf := an.TermOf
	if h := hostOf(fn, func(f *ssa.Function) bool {
		for _, call := range an.CallsTo(f, false, "snapshot/plan.Plan.Execute") {
			if isResumeExec(call) {
				return true
			}
		}
		return false
	}); h != nil && h != fn {
		c.Touch(h)
		// helper parameters stand for the caller's path arguments
		subst := map[string]an.PathTerm{}
		for _, call := range an.AllCalls(fn, true) {
			if call.Common().StaticCallee() != h {
				continue
			}
			for i, a := range call.Common().Args {
				if i < len(h.Params) {
					subst[an.TermOf(h.Params[i]).Base] = an.TermOf(a)
				}
			}
		}
		termOf = func(v ssa.Value) an.PathTerm {
			t := an.TermOf(v)
			if s, ok := subst[t.Base]; ok {
				return an.PathTerm{Base: s.Base, Comps: append(append([]string(nil), s.Comps...), t.Comps...)}
			}
			return t
		}
		fn = h
	}
	defer func() { fn = planFn }()
	for _, call := range an.CallsTo(fn, false, "snapshot/plan.Plan.Execute") {
		if isResumeExec(call) {
			resumeExec = call.(ssa.Instruction)
		}
	}
	if resumeExec == nil {
		c.Unk("C08.a", "PLAN", "Upgrade8To10:resume", c.P.Pos(fn.Pos()), "the resume of a persisted plan (ReadFromFile → Execute) was not found")
		return
	}
	desc := "replay from the first operation"
	for _, b := range fn.Blocks {
		if len(b.Instrs) == 0 {
			continue
		}
		ifi, ok := b.Instrs[len(b.Instrs)-1].(*ssa.If)
		if !ok {
			continue
		}
		call, ok := ifi.Cond.(*ssa.Call)
		if !ok || !an.IsCall(call, "internal/fsutil.DirExists", "internal/fsutil.FileExists", "internal/fsutil.PathExists") {
			continue
		}
		tb, fb := b.Succs[0], b.Succs[1]
		onFalse := fb == resumeExec.Block() || fb.Dominates(resumeExec.Block())
		onTrue := tb == resumeExec.Block() || tb.Dominates(resumeExec.Block())
		if !onFalse || onTrue {
			continue
		}
		// the true side: direct removals, in order
		g := termOf(call.Common().Args[0])
		resume.GuardExists = &g
		var short []an.PlanOp
		for _, rb := range fn.Blocks {
			if rb != tb && !tb.Dominates(rb) {
				continue
			}
			if rb == resumeExec.Block() {
				continue
			}
			for _, in := range rb.Instrs {
				if x, ok := in.(*ssa.Call); ok {
					switch an.CalleeID(x) {
					case "os.RemoveAll":
						short = append(short, an.PlanOp{Kind: "RemoveAll", Src: termOf(x.Common().Args[0])})
					case "os.Remove":
						// the plan file itself is outside the model
						if !strings.Contains(an.Canon(x.Common().Args[0]), "Plan") && !an.MentionsCall(x.Common().Args[0], "path/filepath.Dir") {
							short = append(short, an.PlanOp{Kind: "Remove", Src: termOf(x.Common().Args[0])})
						}
					}
				}
			}
		}
		// stop the short branch at the blocks shared with the replay path
		resume.Short = short
		desc = "if " + g.Key() + " exists: " + fmt.Sprint(short) + ", else replay from the first operation"
	}
	fn = planFn
	results := an.CheckReplay(init, ops, resume)
	c.Count("crash points explored for the 8→10 plan", len(results))
	c.Min("crash points explored for the 8→10 plan", 6)
	var planStr []string
	for _, o := range ops {
		planStr = append(planStr, o.String())
	}
	c.Note("8→10 plan: %s; resume: %s", strings.Join(planStr, " ; "), desc)
	bad := 0
	for _, r := range results {
		if r.Err == "" {
			continue
		}
		bad++
		where := "before any operation"
		if r.After > 0 && r.After <= len(ops) {
			where = fmt.Sprintf("after operation %d of %d (%s)", r.After, len(ops), ops[r.After-1].String())
		}
		if r.After < 0 {
			where = "uninterrupted"
		}
		c.Bad("C08.a", "PLAN", fmt.Sprintf("Upgrade8To10:crash-after-op-%d", r.After), c.P.Pos(fn.Pos()),
			"crash "+where+": "+r.Err+" — every later start fails the same way", map[string]any{"plan": planStr, "resume": desc})
	}
	if bad == 0 {
		c.OK("C08.a", "PLAN", "Upgrade8To10:all-crash-points", c.P.Pos(fn.Pos()), fmt.Sprintf("%d crash points: the resume (%s) always completes and reaches the uninterrupted final state", len(results), desc))
	}
	if c.Tier == "thorough" {
		// two crashes: during the first run and again during the resumed run
		r2 := an.CheckReplay2(init, ops, resume)
		c.Count("double crash points explored for the 8→10 plan", len(r2))
		bad2 := 0
		for _, r := range r2 {
			if r.Err == "" {
				continue
			}
			bad2++
			c.Bad("C08.a", "PLAN", fmt.Sprintf("Upgrade8To10:double-crash-%d-%d", r.After/1000, r.After%1000), c.P.Pos(fn.Pos()),
				fmt.Sprintf("crash after operation %d, then again after %d operations of the resumed run: %s", r.After/1000, r.After%1000, r.Err), map[string]any{"plan": planStr, "resume": desc})
		}
		if bad2 == 0 {
			c.OK("C08.a", "PLAN", "Upgrade8To10:all-double-crash-points", c.P.Pos(fn.Pos()), fmt.Sprintf("%d pairs of crash points: the second resume always completes and reaches the uninterrupted final state", len(r2)))
		}
	}
	// the plan is persisted before it is executed
	writes := an.CallsTo(fn, false, "snapshot/plan.WriteToFile")
	ok := len(writes) == 1
	if ok {
		gate := an.SenseEdges(fn, an.ErrResult(writes[0]), an.IsNil)
		h := an.Ungated(an.CutSpec{Fn: fn, GateEdge: gate, Sink: func(in ssa.Instruction) bool {
			call, isC := in.(*ssa.Call)
			return isC && an.IsCall(call, "snapshot/plan.Plan.Execute") && callResult(call.Common().Args[0], -1, "snapshot/plan.New")
		}})
		ok = len(gate) > 0 && len(h) == 0
	}
	c.Result(ok, "C08.a", "DOM", "Upgrade8To10:persist-before-execute", c.P.Pos(fn.Pos()), "the new plan is executed only after it was written durably", "the upgrade plan can be executed before it is persisted", nil)
}

func c08v7(c *core.Ctx) {
	fn := c.Fn("C08.b", "snapshot", "Upgrade7To8")
	if fn == nil {
		return
	}
	var pub ssa.CallInstruction
	for _, r := range an.CallsTo(fn, false, "os.Rename") {
		if isParamN(fn, 1)(r.Common().Args[1]) && callResult(deCell(r.Common().Args[0]), -1, "snapshot.tmpName") {
			pub = r
		}
	}
	if pub == nil {
		c.Unk("C08.b", "ORD", "Upgrade7To8:publish", c.P.Pos(fn.Pos()), "the publishing rename tmpName(new) → new was not found")
		return
	}
	pi := pub.(ssa.Instruction)
	// all creations target the temporary directory
	var outside []string
	for _, f := range an.WithClosures(fn) {
		an.Instrs(f, func(in ssa.Instruction) {
			call, ok := in.(*ssa.Call)
			if !ok {
				return
			}
			switch an.CalleeID(call) {
			case "os.Create", "os.MkdirAll", "snapshot.writeMeta", "os.WriteFile":
				a := call.Common().Args[0]
				tmpT := an.TermOf(pub.Common().Args[0])
				if t := an.TermOf(a); !t.Under(tmpT) {
					outside = append(outside, an.CalleeID(call)+"("+t.Key()+")")
				}
			}
		})
	}
	c.Result(len(outside) == 0, "C08.b", "ORD", "Upgrade7To8:writes-under-tmp", c.P.Pos(fn.Pos()), "every file and directory the upgrade creates lives under the temporary directory", "the upgrade creates "+strings.Join(outside, ", ")+" outside the temporary directory", nil)
	// publish only after the conversion closure returned nil (which validates and converts)
	var conv *ssa.Function
	for _, cl := range fn.AnonFuncs {
		if len(an.CallsTo(cl, false, "db.EnsureWALMode")) > 0 {
			conv = cl
		}
	}
	ok := conv != nil
	if ok {
		// the closure's call result gates the rename
		var cv []ssa.Value
		an.Instrs(fn, func(in ssa.Instruction) {
			if call, isC := in.(*ssa.Call); isC {
				if mc, isM := call.Common().Value.(*ssa.MakeClosure); isM && mc.Fn == ssa.Value(conv) {
					cv = append(cv, call)
				}
			}
		})
		gate := an.SenseEdges(fn, cv, an.IsNil)
		ok = len(gate) > 0 && len(an.Ungated(an.CutSpec{Fn: fn, GateEdge: gate, Sink: func(in ssa.Instruction) bool { return in == pi }})) == 0
		// inside: validity check precedes success when data was copied, WAL mode always
		wal := an.CallsTo(conv, false, "db.EnsureWALMode")
		succ := map[ssa.Instruction]bool{}
		for _, r := range an.SuccessReturns(conv) {
			succ[r] = true
		}
		g2 := an.SenseEdges(conv, an.ErrResult(wal[0]), an.IsNil)
		ok = ok && len(an.Ungated(an.CutSpec{Fn: conv, GateEdge: g2, Sink: func(in ssa.Instruction) bool { return succ[in] }})) == 0
	}
	c.Result(ok, "C08.b", "ORD", "Upgrade7To8:publish-after-conversion", c.P.Pos(pub.Pos()), "the upgraded directory is published only after the database was converted (and switched to WAL mode) without error", "the upgraded directory can be published although the conversion failed", nil)
	// old removed only after the rename and the sync
	okOld := true
	gate := an.SenseEdges(fn, an.ErrResult(pub), an.IsNil)
	var syncGate map[an.Edge]bool
	for _, s := range an.CallsTo(fn, false, "internal/fsutil.SyncDirParentMaybe") {
		syncGate = an.SenseEdges(fn, an.ErrResult(s), an.IsNil)
	}
	for _, rm := range an.CallsTo(fn, false, "internal/fsutil.RemoveDirSync") {
		ri := rm.(ssa.Instruction)
		if len(an.Ungated(an.CutSpec{Fn: fn, GateEdge: gate, Sink: func(in ssa.Instruction) bool { return in == ri }})) > 0 {
			okOld = false
		}
		if len(syncGate) == 0 || len(an.Ungated(an.CutSpec{Fn: fn, GateEdge: syncGate, Sink: func(in ssa.Instruction) bool { return in == ri }})) > 0 {
			okOld = false
		}
	}
	c.Result(okOld && len(gate) > 0, "C08.b", "ORD", "Upgrade7To8:old-removed-last", c.P.Pos(fn.Pos()), "the old directory is removed only after the new one was published and synced", "the old snapshot directory can be removed before the upgraded one is durably in place", nil)
	// leftover tmp removed on entry: a RemoveAll(tmp) on the DirExists(tmp) edge, before MkdirAll(tmp)
	var mk ssa.Instruction
	for _, m := range an.CallsTo(fn, false, "os.MkdirAll") {
		if callResult(deCell(m.Common().Args[0]), -1, "snapshot.tmpName") && mk == nil {
			mk = m.(ssa.Instruction)
		}
	}
	okTmp := false
	for _, b := range fn.Blocks {
		if len(b.Instrs) == 0 {
			continue
		}
		ifi, isIf := b.Instrs[len(b.Instrs)-1].(*ssa.If)
		if !isIf {
			continue
		}
		if call, isC := ifi.Cond.(*ssa.Call); isC && an.IsCall(call, "internal/fsutil.DirExists") && callResult(deCell(call.Common().Args[0]), -1, "snapshot.tmpName") {
			h := an.Ungated(an.CutSpec{Fn: fn, StartBlocks: []*ssa.BasicBlock{b.Succs[0]},
				GateInstr: func(in ssa.Instruction) bool { return an.IsCall(in, "os.RemoveAll") },
				Sink:      func(in ssa.Instruction) bool { return mk != nil && in == mk }})
			okTmp = len(h) == 0 && mk != nil
		}
	}
	c.Result(okTmp, "C08.b", "ORD", "Upgrade7To8:leftover-tmp-removed", c.P.Pos(fn.Pos()), "a temporary directory left by an interrupted upgrade is removed before a new attempt", "a leftover temporary directory is not removed before the upgrade is attempted again", nil)
}

func c08open(c *core.Ctx) {
	fn := c.Fn("C08.c", "store", "(*Store).Open")
	if fn == nil {
		return
	}
	u7 := an.CallsTo(fn, false, "snapshot.Upgrade7To8")
	u8 := an.CallsTo(fn, false, "snapshot.Upgrade8To10")
	ns := an.CallsTo(fn, false, "snapshot.NewStore")
	ok := len(u7) == 1 && len(u8) == 1 && len(ns) == 1
	if ok {
		g7 := an.SenseEdges(fn, an.ErrResult(u7[0]), an.IsNil)
		g8 := an.SenseEdges(fn, an.ErrResult(u8[0]), an.IsNil)
		ok = len(g7) > 0 && len(g8) > 0 &&
			len(an.Ungated(an.CutSpec{Fn: fn, GateEdge: g7, Sink: func(in ssa.Instruction) bool { return in == u8[0].(ssa.Instruction) }})) == 0 &&
			len(an.Ungated(an.CutSpec{Fn: fn, GateEdge: g8, Sink: func(in ssa.Instruction) bool { return in == ns[0].(ssa.Instruction) }})) == 0
		// 7→8's target is 8→10's source
		ok = ok && an.Canon(u7[0].Common().Args[1]) == an.Canon(u8[0].Common().Args[0])
	}
	c.Result(ok, "C08.c", "ORD", "Store.Open:upgrade-order", c.P.Pos(fn.Pos()), "7→8 then 8→10 (chained on the same directory), each successful, before the snapshot store is opened", "the upgrades are not run in order 7→8 → 8→10 before snapshot.NewStore, or a failed upgrade is ignored", nil)
	_ = sort.Strings
}
