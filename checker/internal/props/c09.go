package props

import (
	"go/token"
	"sort"
	"strings"

	"golang.org/x/tools/go/ssa"

	"rqverif/checker/internal/an"
	"rqverif/checker/internal/core"
)

func init() {
	register(&core.Check{
		ID:    "C09",
		Title: "Snapshot catalog stays well-formed and full-needed is honoured",
		Explanation: "C09.a DOM: SnapshotCatalog.Scan loads an entry only when it is a directory and isTmpName is false; Store.check removes exactly the tmp-named directories; snapshotCount ignores them. " +
			"C09.b DECIDE/ORD: Snapshot.Less orders by (term, index, id) in that order; ListAll is the catalog order reversed and List its first element; ResolveFiles returns the nearest earlier full snapshot's database followed by the WAL files of items[fullIdx..idx] in catalog order. " +
			"C09.c ORD: in Sink.Close every file operation targets the temporary directory and precedes the single publishing Rename(tmp, final), which is reached only after the inner sink closed without error and the metadata was written and synced. " +
			"C09.d DOM: Sink.Write accepts an incremental header (records its WAL directory) only on the edge where the store's DueNext() is not Full. " +
			"C09.e WHO+DOM: SetDueNext(Incremental) is called only from Sink.Close, after the publishing rename succeeded; SetDueNext(Full) is called only from the reviewed sites {fsmApply (load), ReadFrom (boot), fsmSnapshot (last-modified error, failed-persist release)}. " +
			"C09.f TAINT (dependence): in SnapshotSet.ResolveFiles the database file returned is data-dependent on the position of the requested snapshot, and the full snapshot is searched downwards from that position (nearest preceding full) — not chosen independently of the request. " +
			"C09.g CONST: Store.DueNext answers from the presence of the FULL_NEEDED file (it tests Store.fullNeededPath): the requirement survives a restart only there.",
		NotCovered: []string{"model equivalence of the catalog over operation sequences", "crash points inside a single rename (filesystem atomicity is trusted)"},
		Run:        runC09,
	})
}

func runC09(c *core.Ctx) {
	c09g(c)
	c09Resolve(c)
	full := snapshotTypeConst(c, "Full")
	incr := snapshotTypeConst(c, "Incremental")
	// C09.a
	if fn := c.Fn("C09.a", "snapshot", "(*SnapshotCatalog).Scan"); fn != nil {
		var tmp, isDir []ssa.Value
		for _, call := range an.CallsTo(fn, false, "snapshot.isTmpName") {
			tmp = append(tmp, call.Value())
		}
		for _, call := range an.AllCalls(fn, false) {
			if call.Common().IsInvoke() && call.Common().Method.Name() == "IsDir" {
				isDir = append(isDir, call.Value())
			}
		}
		g1 := an.SenseEdges(fn, tmp, an.IsFalse)
		g2 := an.SenseEdges(fn, isDir, an.IsTrue)
		sink := func(in ssa.Instruction) bool { return an.IsCall(in, "snapshot.SnapshotCatalog.loadSnapshot") }
		h1 := an.Ungated(an.CutSpec{Fn: fn, GateEdge: g1, Sink: sink})
		h2 := an.Ungated(an.CutSpec{Fn: fn, GateEdge: g2, Sink: sink})
		c.Result(len(g1) > 0 && len(g2) > 0 && len(h1) == 0 && len(h2) == 0, "C09.a", "DOM", "Scan:skips-temporary", c.P.Pos(fn.Pos()),
			"only non-temporary directories are loaded as snapshots", "Scan can load a temporary (unpublished) or non-directory entry as a snapshot", nil)
		// ordering by Less
		sorted := false
		for _, cl := range fn.AnonFuncs {
			if len(an.CallsTo(cl, false, "snapshot.Snapshot.Less")) > 0 {
				sorted = true
			}
		}
		c.Result(sorted && len(an.CallsTo(fn, false, "sort.Slice")) == 1, "C09.a", "DOM", "Scan:sorted-by-Less", c.P.Pos(fn.Pos()), "the catalog is sorted with Snapshot.Less", "the catalog is not sorted with Snapshot.Less", nil)
	}
	if fn := c.Fn("C09.a", "snapshot", "(*Store).check"); fn != nil {
		// the sweep may have been moved into a helper of check
		if h := hostOf(fn, func(f *ssa.Function) bool { return len(an.CallsTo(f, false, "snapshot.isTmpName")) > 0 }); h != nil {
			c.Touch(h)
			fn = h
		}
		var tmp []ssa.Value
		for _, call := range an.CallsTo(fn, false, "snapshot.isTmpName") {
			tmp = append(tmp, call.Value())
		}
		g := an.SenseEdges(fn, tmp, an.IsTrue)
		// the sweep's RemoveAll (argument built from the entry name)
		h := an.Ungated(an.CutSpec{Fn: fn, GateEdge: g, Sink: func(in ssa.Instruction) bool {
			call, ok := in.(*ssa.Call)
			return ok && an.IsCall(call, "os.RemoveAll") && an.MentionsCall(call.Common().Args[0], "path/filepath.Join")
		}})
		c.Result(len(g) > 0 && len(h) == 0, "C09.a", "DOM", "check:removes-only-temporary", c.P.Pos(fn.Pos()), "the start-up sweep removes only tmp-named directories", "the start-up sweep can remove a published snapshot directory", nil)
	}

	// C09.b Less
	if fn := c.Fn("C09.b", "snapshot", "(*Snapshot).Less"); fn != nil {
		fld := func(recvIdx int, path ...string) func(ssa.Value) bool {
			return func(v ssa.Value) bool {
				s := an.CanonPos(v)
				return s == "p"+string(rune('0'+recvIdx))+"."+strings.Join(path, ".")
			}
		}
		spec := an.DecideSpec{Fn: fn,
			Vars: []an.Var{an.Sign("term"), an.Sign("index"), an.Sign("id")},
			Conds: []an.CondMatcher{
				an.CmpCond("term", fld(0, "raftMeta", "Term"), fld(1, "raftMeta", "Term")),
				an.CmpCond("index", fld(0, "raftMeta", "Index"), fld(1, "raftMeta", "Index")),
				an.CmpCond("id", fld(0, "id"), fld(1, "id")),
			},
			Ref: func(v an.Val) string {
				switch {
				case v["term"] != 0:
					if v["term"] < 0 {
						return " => true"
					}
					return " => false"
				case v["index"] != 0:
					if v["index"] < 0 {
						return " => true"
					}
					return " => false"
				}
				if v["id"] < 0 {
					return " => true"
				}
				return " => false"
			}}
		reportDecide(c, "C09.b", "(*Snapshot).Less", c.P.Pos(fn.Pos()), an.Decide(spec, c.P.Pos))
	}
	if fn := c.Fn("C09.b", "snapshot", "(*Store).List"); fn != nil {
		okL := len(an.CallsTo(fn, false, "snapshot.Store.ListAll")) == 1
		// returns metas[:1]
		slice1 := false
		an.Instrs(fn, func(in ssa.Instruction) {
			if sl, ok := in.(*ssa.Slice); ok && sl.Low == nil && sl.High != nil {
				if k, ok := an.ConstInt(sl.High); ok && k == 1 {
					slice1 = true
				}
			}
		})
		c.Result(okL && slice1, "C09.b", "ORD", "Store.List:first-of-ListAll", c.P.Pos(fn.Pos()), "List returns the first element of ListAll (the newest)", "List no longer returns the first element of ListAll", nil)
	}
	if fn := c.Fn("C09.b", "snapshot", "(*Store).ListAll"); fn != nil {
		// reversal loop: swaps metas[i], metas[j] with i from 0 up and j from len-1 down
		rev := false
		an.Instrs(fn, func(in ssa.Instruction) {
			if b, ok := in.(*ssa.BinOp); ok && b.Op == token.SUB {
				if k, ok := an.ConstInt(b.Y); ok && k == 1 {
					if call, ok := b.X.(*ssa.Call); ok {
						if bi, ok := call.Common().Value.(*ssa.Builtin); ok && bi.Name() == "len" {
							rev = true
						}
					}
				}
			}
		})
		c.Result(rev && len(an.CallsTo(fn, false, "snapshot.SnapshotSet.RaftMetas")) == 1, "C09.b", "ORD", "Store.ListAll:reversed-catalog", c.P.Pos(fn.Pos()), "ListAll is the catalog order reversed (newest first)", "ListAll no longer reverses the catalog order", nil)
	}
	if fn := c.Fn("C09.b", "snapshot", "(SnapshotSet).ResolveFiles"); fn != nil {
		// append(walFiles, items[i].walFiles...) in an ascending loop from fullIdx to idx, dbFile from items[fullIdx]
		asc, appendOK := false, false
		an.Instrs(fn, func(in ssa.Instruction) {
			if call, ok := in.(*ssa.Call); ok {
				if bi, ok := call.Common().Value.(*ssa.Builtin); ok && bi.Name() == "append" && len(call.Common().Args) == 2 {
					if an.MentionsField(call.Common().Args[1], "Snapshot", "walFiles") {
						appendOK = an.Mentions(call.Common().Args[1], func(v ssa.Value) bool {
							ia, ok := v.(*ssa.IndexAddr)
							if !ok {
								return false
							}
							_, isPhi := ia.Index.(*ssa.Phi)
							return isPhi
						})
					}
				}
			}
			if ifi, ok := in.(*ssa.If); ok {
				if b, ok := ifi.Cond.(*ssa.BinOp); ok && b.Op == token.LEQ {
					if p, ok := b.X.(*ssa.Phi); ok {
						for _, e := range p.Edges {
							if bo, ok := e.(*ssa.BinOp); ok && bo.Op == token.ADD && bo.X == ssa.Value(p) {
								asc = true
							}
						}
					}
				}
			}
		})
		c.Result(asc && appendOK, "C09.b", "ORD", "ResolveFiles:wal-order", c.P.Pos(fn.Pos()), "WAL files are collected in ascending catalog order from the nearest full snapshot to the requested one", "ResolveFiles does not collect WAL files in ascending catalog order from the full snapshot to the requested one", nil)
	}

	// C09.c / C09.e Sink.Close
	if fn := c.Fn("C09.c", "snapshot", "(*Sink).Close"); fn != nil {
		var pub ssa.CallInstruction
		for _, r := range an.CallsTo(fn, false, "os.Rename") {
			a := r.Common().Args
			if an.MentionsField(a[0], "Sink", "snapTmpDirPath") && an.MentionsField(a[1], "Sink", "snapDirPath") {
				pub = r
			}
		}
		if pub == nil {
			c.Unk("C09.c", "ORD", "Sink.Close:publish", c.P.Pos(fn.Pos()), "the publishing rename (tmp → final) was not found")
		} else {
			pi := pub.(ssa.Instruction)
			// preceded by writeMeta ok and sync ok; and by inner sink close ok or the WAL move
			var gates []map[an.Edge]bool
			for _, id := range []string{"snapshot.writeMeta", "internal/fsutil.SyncDirMaybe"} {
				for _, call := range an.CallsTo(fn, false, id) {
					if an.ReachableFrom(call.(ssa.Instruction), pi, nil) && !an.ReachableFrom(pi, call.(ssa.Instruction), nil) {
						gates = append(gates, an.SenseEdges(fn, an.ErrResult(call), an.IsNil))
					}
				}
			}
			ok := len(gates) >= 2
			for _, g := range gates {
				if len(an.Ungated(an.CutSpec{Fn: fn, GateEdge: g, Sink: func(in ssa.Instruction) bool { return in == pi }})) > 0 {
					ok = false
				}
			}
			// data step: inner sink Close nil, or the staged WAL directory moved in
			dataGate := map[an.Edge]bool{}
			for _, call := range an.AllCalls(fn, false) {
				id := an.CalleeID(call)
				innerClose := recvField(call, "Sink") == "sinkW" && call.Common().IsInvoke() && call.Common().Method.Name() == "Close"
				viaHelper := successImplies(call.Common().StaticCallee(), "snapshot.StagingDir.MoveWALFilesTo")
				if strings.HasSuffix(id, "sinker.Close") || innerClose || id == "snapshot.StagingDir.MoveWALFilesTo" || viaHelper {
					for e := range an.SenseEdges(fn, an.ErrResult(call), an.IsNil) {
						dataGate[e] = true
					}
				}
			}
			c.Note("Sink.Close: %d ordering gates before the publishing rename, %d data-gate edges", len(gates), len(dataGate))
			if len(dataGate) == 0 || len(an.Ungated(an.CutSpec{Fn: fn, GateEdge: dataGate, Sink: func(in ssa.Instruction) bool { return in == pi }})) > 0 {
				ok = false
				c.Note("Sink.Close: data gate does not cut the path to the publishing rename")
			}
			c.Result(ok, "C09.c", "ORD", "Sink.Close:publish-after-complete", c.P.Pos(pub.Pos()),
				"the snapshot directory is renamed into place only after its data, metadata and directory sync succeeded", "the snapshot directory can be published before its data/metadata were completely written and synced", nil)
			// nothing writes into the final directory afterwards
			after := false
			an.WalkFrom(fn, pi, func(in ssa.Instruction) bool {
				if ci, ok := in.(ssa.CallInstruction); ok {
					id := an.CalleeID(ci)
					if id == "os.Rename" || id == "os.Create" || id == "os.WriteFile" || id == "snapshot.writeMeta" {
						after = true
					}
				}
				return true
			})
			c.Result(!after, "C09.c", "ORD", "Sink.Close:nothing-after-publish", c.P.Pos(pub.Pos()), "no file is created or moved after the publishing rename", "files are created or moved after the snapshot directory was published", nil)

			// C09.e SetDueNext(Incremental) after the rename succeeded
			okE := an.SenseEdges(fn, an.ErrResult(pub), an.IsNil)
			h := an.Ungated(an.CutSpec{Fn: fn, GateEdge: okE, Sink: func(in ssa.Instruction) bool { return isSetDueNext(in, incr) }})
			n := 0
			an.Instrs(fn, func(in ssa.Instruction) {
				if isSetDueNext(in, incr) {
					n++
				}
			})
			c.Result(n == 1 && len(okE) > 0 && len(h) == 0, "C09.e", "DOM", "Sink.Close:incremental-only-after-publish", c.P.Pos(pub.Pos()),
				"the full-needed requirement is cleared only after the snapshot was published", "the full-needed requirement can be cleared before (or without) the snapshot having been published: a crash or failed rename in between leaves no snapshot but permits an incremental one", nil)
		}
	}
	// C09.e callers of SetDueNext
	incCallers, fullCallers := map[string]bool{}, map[string]bool{}
	for _, fn := range moduleFuncs(c) {
		an.Instrs(fn, func(in ssa.Instruction) {
			if isSetDueNext(in, incr) {
				incCallers[core.FuncName(an.TopFunc(fn))] = true
			}
			if isSetDueNext(in, full) {
				fullCallers[core.FuncName(an.TopFunc(fn))] = true
			}
		})
	}
	keys := func(m map[string]bool) string {
		var k []string
		for x := range m {
			k = append(k, x)
		}
		sort.Strings(k)
		return strings.Join(k, ",")
	}
	c.Result(keys(incCallers) == "(*snapshot.Sink).Close", "C09.e", "WHO", "SetDueNext(Incremental):callers", "", "only Sink.Close clears the full-needed requirement", "SetDueNext(Incremental) is called from {"+keys(incCallers)+"}", nil)
	wantFull := "(*store.Store).ReadFrom,(*store.Store).fsmApply,(*store.Store).fsmSnapshot"
	c.Result(keys(fullCallers) == wantFull, "C09.e", "WHO", "SetDueNext(Full):callers", "", "the full-needed requirement is raised by load, boot and the snapshot failure paths", "SetDueNext(Full) is called from {"+keys(fullCallers)+"}; reviewed {"+wantFull+"}", nil)

	// C09.d
	if fn := c.Fn("C09.d", "snapshot", "(*Sink).Write"); fn != nil {
		var due []ssa.Value
		for _, call := range an.AllCalls(fn, false) {
			if strings.HasSuffix(an.CalleeID(call), ".DueNext") {
				due = append(due, an.Result(call, 0)...)
			}
		}
		notFull := map[an.Edge]bool{}
		for _, b := range fn.Blocks {
			if len(b.Instrs) == 0 {
				continue
			}
			ifi, ok := b.Instrs[len(b.Instrs)-1].(*ssa.If)
			if !ok {
				continue
			}
			bo, ok := ifi.Cond.(*ssa.BinOp)
			if !ok || (bo.Op != token.EQL && bo.Op != token.NEQ) {
				continue
			}
			isDue := false
			for _, d := range due {
				if bo.X == d {
					isDue = true
				}
			}
			if k, ok := an.ConstInt(bo.Y); ok && isDue && k == full {
				if bo.Op == token.EQL {
					notFull[an.Edge{From: b, To: b.Succs[1]}] = true
				} else {
					notFull[an.Edge{From: b, To: b.Succs[0]}] = true
				}
			}
		}
		// also allowed: no state controller configured (stc == nil)
		var stc []ssa.Value
		an.Instrs(fn, func(in ssa.Instruction) {
			if u, ok := in.(*ssa.UnOp); ok && u.Op == token.MUL {
				if t, f, _, ok := an.FieldOf(u.X); ok && t == "Sink" && f == "stc" {
					stc = append(stc, u)
				}
			}
		})
		for e := range an.SenseEdges(fn, stc, an.IsNil) {
			notFull[e] = true
		}
		h := an.Ungated(an.CutSpec{Fn: fn, GateEdge: notFull, Sink: func(in ssa.Instruction) bool {
			st, ok := in.(*ssa.Store)
			if !ok {
				return false
			}
			t, f, _, ok := an.FieldOf(st.Addr)
			return ok && t == "Sink" && f == "localWALDir"
		}})
		c.Result(len(due) > 0 && len(h) == 0, "C09.d", "DOM", "Sink.Write:incremental-refused-when-full-needed", c.P.Pos(fn.Pos()),
			"an incremental snapshot is accepted only when the store does not need a full one", "an incremental header can be accepted while a full snapshot is needed", nil)
	}
	if fn := c.Fn("C09.a", "snapshot", "(*Store).snapshotCount"); fn != nil {
		ok := len(an.CallsTo(fn, false, "snapshot.isTmpName")) == 1
		c.Result(ok, "C09.a", "DOM", "snapshotCount:ignores-temporary", c.P.Pos(fn.Pos()), "temporary directories are not counted as snapshots", "snapshotCount no longer ignores temporary directories", nil)
	}
}
