package props

import (
	"go/token"

	"golang.org/x/tools/go/ssa"

	"rqverif/checker/internal/an"
	"rqverif/checker/internal/core"
)

// C09.f: the full snapshot an incremental snapshot resolves to is found
// relative to the requested snapshot — the nearest full one before it — not
// picked independently of the request (e.g. the newest full in the catalogue).
func c09Resolve(c *core.Ctx) {
	fn := c.Fn("C09.f", "snapshot", "(SnapshotSet).ResolveFiles")
	if fn == nil {
		return
	}
	var idx ssa.Value
	for _, call := range an.AllCalls(fn, false) {
		if callee := call.Common().StaticCallee(); callee != nil && callee.Name() == "indexOf" {
			if len(call.Common().Args) == 2 && an.Unwrap(call.Common().Args[1]) == ssa.Value(fn.Params[1]) {
				idx = call.Value()
			}
		}
	}
	if idx == nil {
		c.Unk("C09.f", "TAINT", "ResolveFiles:request-position", c.P.Pos(fn.Pos()), "the position of the requested snapshot (indexOf(id)) was not found")
		return
	}
	ok := true
	n := 0
	for _, r := range an.SuccessReturns(fn) {
		db := r.Results[0]
		// named result spilled? (no defers here) — direct value expected
		if an.IsNilConst(db) {
			continue
		}
		n++
		if !an.MentionsValue(db, idx) {
			ok = false
		}
	}
	c.Result(ok && n >= 2, "C09.f", "TAINT", "ResolveFiles:db-depends-on-request", c.P.Pos(fn.Pos()),
		"the database file returned is selected relative to the position of the requested snapshot",
		"ResolveFiles returns a database file that does not depend on which snapshot was requested: with two full snapshots in the catalogue an incremental one older than the newest full resolves to the wrong database (and an empty WAL chain), without an error", nil)
	// the search runs downwards from the requested position
	down := false
	an.Instrs(fn, func(in ssa.Instruction) {
		p, isP := in.(*ssa.Phi)
		if !isP || len(p.Edges) != 2 {
			return
		}
		fromIdx, dec := false, false
		for _, e := range p.Edges {
			if bo, isB := e.(*ssa.BinOp); isB {
				k, isK := an.ConstInt(bo.Y)
				if bo.X == ssa.Value(p) && isK && ((bo.Op == token.SUB && k > 0) || (bo.Op == token.ADD && k < 0)) {
					dec = true
					continue
				}
			}
			if an.MentionsValue(e, idx) {
				fromIdx = true
			}
		}
		if fromIdx && dec {
			down = true
		}
	})
	if !down {
		// the search may live in a helper that is handed the requested position
		for _, call := range an.AllCalls(fn, false) {
			g := call.Common().StaticCallee()
			if g == nil || len(g.Blocks) == 0 || !core.InModule(g) {
				continue
			}
			fromReq := map[ssa.Value]bool{}
			for i, a := range call.Common().Args {
				if i < len(g.Params) && an.MentionsValue(a, idx) {
					fromReq[g.Params[i]] = true
				}
			}
			if len(fromReq) == 0 || !an.MentionsValue(anyResultUsedFor(fn, call), call.Value()) {
				continue
			}
			an.Instrs(g, func(in ssa.Instruction) {
				p, isP := in.(*ssa.Phi)
				if !isP || len(p.Edges) != 2 {
					return
				}
				fromIdx, dec := false, false
				for _, e := range p.Edges {
					if bo, isB := e.(*ssa.BinOp); isB {
						k, isK := an.ConstInt(bo.Y)
						if bo.X == ssa.Value(p) && isK && ((bo.Op == token.SUB && k > 0) || (bo.Op == token.ADD && k < 0)) {
							dec = true
							continue
						}
					}
					if an.Mentions(e, func(x ssa.Value) bool { return fromReq[x] }) {
						fromIdx = true
					}
				}
				if fromIdx && dec {
					down = true
					c.Touch(g)
				}
			})
		}
	}
	c.Result(down, "C09.f", "TAINT", "ResolveFiles:nearest-preceding-full", c.P.Pos(fn.Pos()),
		"the full snapshot is searched downwards from the requested position (nearest preceding full)",
		"ResolveFiles no longer searches downwards from the requested snapshot for its full snapshot: an incremental snapshot can be resolved against a full snapshot that is not the one it was cut from", nil)
}

// isRestoredSnapshotIndex: v is the Index of a raft.SnapshotMeta (the snapshot
// the recovery restored), possibly 0 when there was none — whether the
// variable is an SSA value, a phi or a cell captured by a closure.
func isRestoredSnapshotIndex(fn *ssa.Function, v ssa.Value, depth int) bool {
	if depth > 4 {
		return false
	}
	isIdx := func(x ssa.Value) bool { return an.LoadedField(x, "SnapshotMeta", "Index") }
	isZero := func(x ssa.Value) bool { k, ok := an.ConstInt(x); return ok && k == 0 }
	switch x := v.(type) {
	case *ssa.Phi:
		yes := false
		for _, e := range x.Edges {
			switch {
			case isZero(e):
			case isIdx(e) || isRestoredSnapshotIndex(fn, e, depth+1):
				yes = true
			default:
				return false
			}
		}
		return yes
	case *ssa.UnOp:
		if isIdx(x) {
			return true
		}
		if x.Op != token.MUL {
			return false
		}
		al, ok := x.X.(*ssa.Alloc)
		if !ok {
			return false
		}
		yes := false
		bad := false
		for _, f := range an.WithClosures(fn) {
			an.Instrs(f, func(in ssa.Instruction) {
				st, isS := in.(*ssa.Store)
				if !isS {
					return
				}
				same := st.Addr == ssa.Value(al)
				if fv, isFV := st.Addr.(*ssa.FreeVar); isFV && fv.Name() == al.Comment {
					same = true
				}
				if !same {
					return
				}
				switch {
				case isZero(st.Val):
				case isIdx(st.Val):
					yes = true
				default:
					bad = true
				}
			})
		}
		return yes && !bad
	}
	return false
}

// anyResultUsedFor: the value of call itself (helper returning the index).
func anyResultUsedFor(fn *ssa.Function, call ssa.CallInstruction) ssa.Value {
	return call.Value()
}
