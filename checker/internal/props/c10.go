package props

import (
	"go/token"
	"sort"
	"strings"

	"golang.org/x/tools/go/ssa"

	"rqverif/checker/internal/an"
	"rqverif/checker/internal/core"
)

func init() {
	register(&core.Check{
		ID:    "C10",
		Title: "Snapshot transfer installs exactly the source data or nothing",
		Explanation: "C10.a DOM: FullSink.Close can return nil only through (i) the edge phase == done, (ii) the equal edge of an unconditional comparison of the received database's CRC with the header's, and (iii) for every WAL of a range loop over all received WAL files, the equal edge of the comparison of that WAL's CRC with its header's — no other condition (such as 'header value is zero') may bypass a comparison; a WAL's sidecar is written only after its own comparison. Sink.Close publishes only after the inner sink closed without error (C09.c). " +
			"C10.b DOM: snapshot.Restore returns success only through the equal edges of the database comparison and of every WAL comparison, and replays WALs only after the loop that verified all of them. " +
			"C10.c TABLE: every length-prefix encode/decode in package snapshot uses binary.BigEndian with a HeaderSizeLen-sized prefix (streamer, path streamer, sink header parsing, Restore agree). " +
			"C10.d TABLE: NodeTransport.InstallSnapshot wraps the stream in the compressor exactly on the compressSnap edge and Consumer unwraps exactly on the same flag. " +
			"C10.e ERR: in the snapshot sinks (Sink, FullSink and siblings) and Restore, no error result of a call that moves or persists snapshot bytes (Write, WriteTo, ReadFrom, Sync, Copy, Rename, WriteFile, writeMeta, sidecar, Open/Close of the inner sink) is dropped. " +
			"C10.f CONST: every file the snapshot packages (snapshot, snapshot/plan, snapshot/sidecar, db/wal) create for writing starts empty — os.Create, or os.OpenFile whose constant flags with O_CREATE also carry O_TRUNC or O_EXCL — so that a retried install cannot keep the tail of an earlier, longer file behind the bytes whose CRC it recorded. " +
			"C10.g ERR: on the snapshot transfer path (internal/rarchive/zstd, snapshot, snapshot/plan, db/wal, internal/rsum) no call of an io.Reader's Read discards the byte count — a fixed-size prefix is read with io.ReadFull, a short read is never decoded as if it were complete.",
		NotCovered: []string{"that CRC32 detects a particular mutation", "byte identity of the installed files (values)"},
		Run:        runC10,
	})
}

// eqEdges returns, for branches whose condition is a direct ==/!= comparison
// between a value satisfying x and one satisfying y, the edge on which they
// are equal.
func eqEdges(fn *ssa.Function, x, y func(ssa.Value) bool) map[an.Edge]bool {
	out := map[an.Edge]bool{}
	for _, b := range fn.Blocks {
		if len(b.Instrs) == 0 {
			continue
		}
		ifi, ok := b.Instrs[len(b.Instrs)-1].(*ssa.If)
		if !ok {
			continue
		}
		bo, ok := ifi.Cond.(*ssa.BinOp)
		if !ok || (bo.Op != token.EQL && bo.Op != token.NEQ) {
			continue
		}
		if !(x(bo.X) && y(bo.Y)) && !(x(bo.Y) && y(bo.X)) {
			continue
		}
		if bo.Op == token.EQL {
			out[an.Edge{From: b, To: b.Succs[0]}] = true
		} else {
			out[an.Edge{From: b, To: b.Succs[1]}] = true
		}
	}
	return out
}

func runC10(c *core.Ctx) {
	c10Errors(c)
	c10f(c)
	c10g(c)
	hdrCRC := func(v ssa.Value) bool { return an.MentionsField(v, "Header", "Crc32") }
	if fn := c.Fn("C10.a", "snapshot", "(*FullSink).Close"); fn != nil {
		succ := map[ssa.Instruction]bool{}
		for _, r := range an.SuccessReturns(fn) {
			succ[r] = true
		}
		isSucc := func(in ssa.Instruction) bool { return succ[in] }
		// (i) phase == done
		phaseDone := eqEdges(fn, func(v ssa.Value) bool { return an.MentionsField(v, "FullSink", "phase") }, func(v ssa.Value) bool { _, ok := an.ConstInt(v); return ok })
		// the "done" edge of `phase != done` is the equal edge; both tests in Close compare with the same constant
		h := an.Ungated(an.CutSpec{Fn: fn, GateEdge: phaseDone, Sink: isSucc})
		c.Result(len(phaseDone) > 0 && len(h) == 0, "C10.a", "DOM", "FullSink.Close:complete", c.P.Pos(fn.Pos()), "success only when every announced byte of every artifact was received (phase done)", "FullSink.Close can succeed although the stream ended early", nil)
		// the checksum comparisons may live in a helper whose result Close returns (`return s.verify()`):
		// the remaining obligations are then about that helper's success returns
		isDBCRC := func(v ssa.Value) bool { return an.LoadedField(v, "FullSink", "dbCRC") }
		if len(eqEdges(fn, isDBCRC, hdrCRC)) == 0 {
			if g := tailDelegate(fn); g != nil && len(eqEdges(g, isDBCRC, hdrCRC)) > 0 {
				c.Touch(g)
				fn = g
				succ = map[ssa.Instruction]bool{}
				for _, r := range an.SuccessReturns(fn) {
					succ[r] = true
				}
			}
		}
		// (ii) db CRC
		dbEq := eqEdges(fn, func(v ssa.Value) bool { return an.LoadedField(v, "FullSink", "dbCRC") }, hdrCRC)
		h = an.Ungated(an.CutSpec{Fn: fn, GateEdge: dbEq, Sink: isSucc})
		c.Result(len(dbEq) > 0 && len(h) == 0, "C10.a", "DOM", "FullSink.Close:db-crc", c.P.Pos(fn.Pos()),
			"success only on the equal edge of the database CRC comparison", "FullSink.Close can succeed without the received database's CRC having been found equal to the header's (a condition bypasses the comparison): altered bytes would be installed and given a matching sidecar", nil)
		// (iii) WAL CRCs: loop over s.walFiles; next iteration / exit only via the equal edge
		walEq := eqEdges(fn, func(v ssa.Value) bool { return an.MentionsField(v, "FullSink", "walCRCs") }, hdrCRC)
		var body *ssa.BasicBlock
		var header *ssa.BasicBlock
		for _, b := range fn.Blocks {
			// a range loop or an index loop `for i := 0; i < len(x); i++`
			if !isLoopHeader(b) {
				continue
			}
			// the second range loop (CRC comparison) is the one whose body contains a walEq edge
			for e := range walEq {
				if b.Succs[0] == e.From || b.Succs[0].Dominates(e.From) {
					header, body = b, b.Succs[0]
				}
			}
		}
		okWal := header != nil && len(walEq) > 0
		if okWal {
			hh := an.Ungated(an.CutSpec{Fn: fn, StartBlocks: []*ssa.BasicBlock{body}, GateEdge: walEq, Sink: func(in ssa.Instruction) bool {
				return in == header.Instrs[0] || an.IsCall(in, "snapshot/sidecar.WriteFile")
			}})
			okWal = len(hh) == 0
			// the loop ranges over all received WAL files
			okWal = okWal && loopRangesOverField(header, "FullSink", "walFiles")
		}
		c.Result(okWal, "C10.a", "DOM", "FullSink.Close:every-wal-crc", c.P.Pos(fn.Pos()),
			"every received WAL is compared with its header CRC before its sidecar is written and before the next one is considered", "a WAL file can be accepted (sidecar written, loop continued) without its CRC having been found equal to the header's, or the loop does not cover all WAL files", nil)
		// sidecars written for db and each wal
		n := len(an.CallsTo(fn, false, "snapshot/sidecar.WriteFile"))
		c.Result(n >= 2, "C10.a", "DOM", "FullSink.Close:sidecars", c.P.Pos(fn.Pos()), "sidecars are written for the database and for each WAL", "FullSink.Close no longer writes both the database and the WAL sidecars", nil)
	}

	if fn := c.Fn("C10.b", "snapshot", "Restore"); fn != nil {
		succ := map[ssa.Instruction]bool{}
		for _, r := range an.SuccessReturns(fn) {
			succ[r] = true
		}
		sum := func(v ssa.Value) bool { return callResult(v, -1, "internal/rsum.CRC32Reader.Sum32") }
		eq := eqEdges(fn, sum, hdrCRC)
		// a comparison moved into a private helper: the helper's success stands for the equal edge
		for _, call := range an.AllCalls(fn, false) {
			g := call.Common().StaticCallee()
			if g == nil || g == fn {
				continue
			}
			if successBehind(g, func(h *ssa.Function) map[an.Edge]bool { return eqEdges(h, sum, hdrCRC) }) {
				c.Touch(g)
				for e := range an.SenseEdges(fn, an.ErrResult(call), an.IsNil) {
					eq[e] = true
				}
			}
		}
		c.Count("CRC comparisons in Restore", len(eq))
		c.Min("CRC comparisons in Restore", 2)
		// db comparison: the one outside any loop
		var dbEdges, walEdges = map[an.Edge]bool{}, map[an.Edge]bool{}
		for e := range eq {
			inLoopBlk := false
			for _, b := range fn.Blocks {
				if isLoopHeader(b) && (b.Succs[0] == e.From || b.Succs[0].Dominates(e.From)) {
					inLoopBlk = true
				}
			}
			if inLoopBlk {
				walEdges[e] = true
			} else {
				dbEdges[e] = true
			}
		}
		h := an.Ungated(an.CutSpec{Fn: fn, GateEdge: dbEdges, Sink: func(in ssa.Instruction) bool { return succ[in] || an.IsCall(in, "db.ReplayWAL") }})
		c.Result(len(dbEdges) > 0 && len(h) == 0, "C10.b", "DOM", "Restore:db-crc", c.P.Pos(fn.Pos()), "Restore succeeds (and replays WALs) only after the database CRC matched", "Restore can succeed or replay WALs without the database CRC having matched", nil)
		var header, body *ssa.BasicBlock
		for _, b := range fn.Blocks {
			if isLoopHeader(b) {
				for e := range walEdges {
					if b.Succs[0] == e.From || b.Succs[0].Dominates(e.From) {
						header, body = b, b.Succs[0]
					}
				}
			}
		}
		okW := header != nil
		if okW {
			hh := an.Ungated(an.CutSpec{Fn: fn, StartBlocks: []*ssa.BasicBlock{body}, GateEdge: walEdges, Sink: func(in ssa.Instruction) bool { return in == header.Instrs[0] }})
			okW = len(hh) == 0 && loopRangesOverField(header, "FullSnapshot", "WalHeaders")
			// ReplayWAL is outside (after) the loop
			for _, rp := range an.CallsTo(fn, false, "db.ReplayWAL") {
				if header.Dominates(rp.Block()) && an.ReachableFrom(rp.(ssa.Instruction), header.Instrs[0], nil) {
					okW = false
				}
			}
		}
		c.Result(okW, "C10.b", "DOM", "Restore:every-wal-crc-before-replay", c.P.Pos(fn.Pos()), "every WAL is verified, and only then are the WALs replayed", "a WAL can be replayed into the database before all WALs were verified, or the verification loop does not cover all WAL headers", nil)
	}

	// C10.c
	sp := c.P.SPkg("snapshot")
	var sites []string
	bad := ""
	for _, fn := range pkgFuncs(sp) {
		an.Instrs(fn, func(in ssa.Instruction) {
			ci, ok := in.(ssa.CallInstruction)
			if !ok {
				return
			}
			id := an.CalleeID(ci)
			if !strings.HasPrefix(id, "encoding/binary.") || !(strings.HasSuffix(id, "Uint32") || strings.HasSuffix(id, "Uint64") || strings.HasSuffix(id, "Uint16")) {
				return
			}
			sites = append(sites, core.FuncName(fn)+":"+strings.TrimPrefix(id, "encoding/binary."))
			if !strings.Contains(id, "bigEndian") || !strings.HasSuffix(id, "Uint32") {
				bad = core.FuncName(fn) + " uses " + id
			}
		})
	}
	sort.Strings(sites)
	c.Count("length-prefix encode/decode sites in package snapshot", len(sites))
	// at least one writer and one reader (two writers that share a helper are one site)
	c.Min("length-prefix encode/decode sites in package snapshot", 2)
	enc, dec := 0, 0
	for _, s := range sites {
		if strings.Contains(s, "Put") || strings.Contains(s, "Append") {
			enc++
		} else {
			dec++
		}
	}
	c.Count("length-prefix writers in package snapshot", enc)
	c.Min("length-prefix writers in package snapshot", 1)
	c.Count("length-prefix readers in package snapshot", dec)
	c.Min("length-prefix readers in package snapshot", 1)
	c.Result(bad == "", "C10.c", "TABLE", "snapshot:length-prefix-agreement", "", "all length prefixes are 32-bit big-endian: "+strings.Join(sites, ", "), "length-prefix encoders and decoders disagree: "+bad, nil)
	if pk := c.P.Pkg("snapshot"); pk != nil {
		if v, ok := constOf(c, "snapshot", "HeaderSizeLen"); ok {
			c.Result(v == 4, "C10.c", "TABLE", "snapshot:HeaderSizeLen", "", "HeaderSizeLen is 4 bytes (Uint32)", "HeaderSizeLen is not 4 while the prefix is encoded with Uint32", nil)
		}
	}

	// C10.d
	inst := c.Fn("C10.d", "store", "(*NodeTransport).InstallSnapshot")
	cons := c.Fn("C10.d", "store", "(*NodeTransport).Consumer")
	if inst != nil && cons != nil {
		flagEdges := func(fn *ssa.Function) map[an.Edge]bool {
			var v []ssa.Value
			for _, f := range an.WithClosures(fn) {
				v = append(v, loadsOfField(f, "NodeTransport", "compressSnap")...)
			}
			out := map[an.Edge]bool{}
			for _, f := range an.WithClosures(fn) {
				for e := range an.SenseEdges(f, v, an.IsTrue) {
					out[e] = true
				}
			}
			return out
		}
		okI, okC := false, false
		for _, f := range an.WithClosures(inst) {
			for _, call := range an.CallsTo(f, false, "internal/rarchive/zstd.NewCompressor") {
				ci := call.(ssa.Instruction)
				okI = len(an.Ungated(an.CutSpec{Fn: f, GateEdge: flagEdges(inst), Sink: func(in ssa.Instruction) bool { return in == ci }})) == 0
			}
		}
		for _, f := range an.WithClosures(cons) {
			for _, call := range an.CallsTo(f, false, "internal/rarchive/zstd.NewDecompressor") {
				ci := call.(ssa.Instruction)
				okC = len(an.Ungated(an.CutSpec{Fn: f, GateEdge: flagEdges(cons), Sink: func(in ssa.Instruction) bool { return in == ci }})) == 0
			}
		}
		c.Result(okI && okC, "C10.d", "TABLE", "NodeTransport:compression-symmetry", c.P.Pos(inst.Pos()), "the sender compresses and the receiver decompresses exactly under compressSnap", "compression of the snapshot stream is not applied symmetrically under compressSnap", nil)
	}
}

// loopRangesOverField reports whether the rangeindex loop with the given
// header iterates over field typ.field (len of that field bounds the index).
// isLoopHeader: the header of a range loop over a slice, or of an index loop
// `for i := 0; i < n; i++` — a block that ends in the loop test.
func isLoopHeader(b *ssa.BasicBlock) bool {
	if b.Comment != "rangeindex.loop" && b.Comment != "for.loop" {
		return false
	}
	if len(b.Instrs) == 0 {
		return false
	}
	_, isIf := b.Instrs[len(b.Instrs)-1].(*ssa.If)
	return isIf
}

func loopRangesOverField(header *ssa.BasicBlock, typ, field string) bool {
	check := func(b *ssa.BasicBlock) bool {
		for _, in := range b.Instrs {
			if call, ok := in.(*ssa.Call); ok {
				if bi, ok := call.Common().Value.(*ssa.Builtin); ok && bi.Name() == "len" {
					a := call.Common().Args[0]
					if an.LoadedField(a, typ, field) {
						return true
					}
					if t, f, _, ok := an.FieldOf(a); ok && t == typ && f == field {
						return true
					}
				}
			}
		}
		return false
	}
	if check(header) {
		return true
	}
	for _, p := range header.Preds {
		if check(p) {
			return true
		}
	}
	return false
}
