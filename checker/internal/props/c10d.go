package props

import (
	"fmt"
	"strings"

	"golang.org/x/tools/go/ssa"

	"rqverif/checker/internal/an"
	"rqverif/checker/internal/core"
)

// C10.e ERR: on the receiving side of a snapshot transfer no error of a call
// that moves or persists snapshot bytes is dropped: a write that failed, or
// that found more data than the header announced, must fail the installation.
func c10Errors(c *core.Ctx) {
	sp := c.P.SPkg("snapshot")
	if sp == nil {
		return
	}
	mover := func(id string) bool {
		// writers that cannot fail (documented: the error is always nil)
		for _, pre := range []string{"bytes.Buffer.", "strings.Builder.", "hash.", "hash/crc32.", "internal/rsum."} {
			if strings.HasPrefix(id, pre) && id != "bytes.Buffer.WriteTo" && id != "bytes.Buffer.ReadFrom" {
				return false
			}
		}
		for _, suf := range []string{".Write", ".WriteTo", ".ReadFrom", ".Sync", ".WriteString", ".Truncate", ".Flush"} {
			if strings.HasSuffix(id, suf) {
				return true
			}
		}
		switch id {
		case "io.Copy", "io.CopyN", "io.CopyBuffer", "io.ReadFull", "os.Rename", "os.WriteFile", "snapshot.writeMeta", "snapshot/sidecar.WriteFile",
			"internal/fsutil.SyncDirMaybe", "snapshot.StagingDir.MoveWALFilesTo", "snapshot.sinker.Open", "snapshot.sinker.Close", "snapshot.FullSink.Open", "snapshot.FullSink.Close":
			return true
		}
		return false
	}
	hosts := map[string]bool{"Sink": true, "FullSink": true, "IncrementalSink": true, "IncrementalFileSink": true}
	found := 0
	bad := 0
	for _, fn := range pkgFuncs(sp) {
		top := an.TopFunc(fn)
		recv := ""
		if top.Signature.Recv() != nil {
			recv = top.Signature.Recv().Type().String()
			recv = recv[strings.LastIndex(recv, ".")+1:]
		}
		if !hosts[recv] && top.Name() != "Restore" {
			continue
		}
		an.Instrs(fn, func(in ssa.Instruction) {
			call, ok := in.(*ssa.Call)
			if !ok || !returnsError(call) {
				return
			}
			id := an.CalleeID(call)
			if !mover(id) {
				return
			}
			found++
			c.Sites++
			if !errReachesReturn(call) {
				bad++
				c.Bad("C10.e", "ERR", core.FuncName(fn)+":"+id+":error-dropped", c.P.Pos(call.Pos()),
					"the error of "+id+" is dropped in "+core.FuncName(fn)+": a snapshot stream that was not written completely, or that carries more data than its header announces, can be installed as if it were the source's data", nil)
			}
		})
	}
	c.Count("byte-moving calls on the snapshot receiving side", found)
	c.Min("byte-moving calls on the snapshot receiving side", 12)
	if bad == 0 {
		c.OK("C10.e", "ERR", "snapshot-sinks:errors-propagated", "", fmt.Sprintf("%d byte-moving calls in the snapshot sinks and Restore, every error result is used", found))
	}
}
