package props

import (
	"fmt"
	"os"

	"rqverif/checker/internal/an"
	"rqverif/checker/internal/core"
)

// C10.f: every data file the snapshot code creates starts empty. The receiving
// side records the CRC of the bytes it wrote, not of the file: a file opened
// for writing with O_CREATE but without O_TRUNC (or O_EXCL) keeps the tail of
// an earlier, longer file of the same name (a failed install that is retried),
// and the installed file is then not the source's. os.Create truncates.
func c10f(c *core.Ctx) {
	n := 0
	for _, pkg := range []string{"snapshot", "snapshot/plan", "snapshot/sidecar", "db/wal"} {
		sp := c.P.SPkg(pkg)
		if sp == nil {
			continue
		}
		for _, fn := range pkgFuncs(sp) {
			for i, call := range an.CallsTo(fn, false, "os.Create", "os.OpenFile") {
				if an.CalleeID(call) == "os.Create" {
					n++
					continue
				}
				args := call.Common().Args
				if len(args) != 3 {
					continue
				}
				flag, isConst := an.ConstInt(args[1])
				construct := fmt.Sprintf("%s:OpenFile#%d:starts-empty", core.FuncName(fn), i+1)
				if !isConst {
					c.Unk("C10.f", "CONST", construct, c.P.Pos(call.Pos()), "the open flags are not a constant: cannot decide whether the file starts empty")
					continue
				}
				if flag&int64(os.O_CREATE) == 0 || flag&int64(os.O_WRONLY|os.O_RDWR) == 0 {
					continue // opens an existing file, or read-only
				}
				n++
				c.Touch(fn)
				c.Sites++
				c.Result(flag&int64(os.O_TRUNC|os.O_EXCL) != 0, "C10.f", "CONST", construct, c.P.Pos(call.Pos()),
					"the file is created empty (O_TRUNC or O_EXCL)",
					core.FuncName(fn)+" creates a snapshot data file for writing without O_TRUNC/O_EXCL: if a longer file of that name is left from an earlier attempt, its tail survives behind the bytes written now and the installed file is not the source's (the recorded CRC covers only the bytes written)", nil)
			}
		}
	}
	c.Count("snapshot data files created for writing", n)
	c.Min("snapshot data files created for writing", 8)
}
