package props

import (
	"fmt"
	"sort"
	"strings"

	"golang.org/x/tools/go/ssa"

	"rqverif/checker/internal/an"
	"rqverif/checker/internal/core"
)

func init() {
	register(&core.Check{
		ID:    "C11",
		Title: "Open snapshot streams never race with reaping",
		Explanation: "C11.a PAIR: every acquisition of the snapshot store's reader/writer lock (MultiRSW Begin*) in package snapshot is released on all exits after success; Store.Open releases on every error exit and otherwise hands the read hold to the returned LockingStreamer. " +
			"C11.b DECIDE (typestate): LockingStreamer.Close and checkIdle are interpreted for all valuations with lock operations, the read of the closed flag, its setting, the timer stop, the close of the underlying reader and EndRead as ordered effects: the closed flag is read and set inside one critical section of l.mu, and EndRead is issued exactly once, on exactly the path that observed closed == false and set it; Read refuses after a timeout without touching the underlying reader. " +
			"C11.c WHO+PAIR: reap is called only with the write lock held (Reap after BeginWrite succeeded, the reap loop inside BeginWriteBlocking/EndWrite), reapInternal only from reap, executeReapPlan only from reapInternal and from check, and check only from NewStore before the store is shared.",
		NotCovered: []string{"interleaving exploration of readers and the reaper", "the MultiRSW lock itself (C34)"},
		Run:        runC11,
	})
}

const mrswPfx = "internal/rsync.MultiRSW."

func runC11(c *core.Ctx) {
	sp := c.P.SPkg("snapshot")
	if sp == nil {
		return
	}
	// C11.a
	acqs := 0
	for _, fn := range pkgFuncs(sp) {
		var beg []ssa.CallInstruction
		for _, call := range an.AllCalls(fn, false) {
			id := an.CalleeID(call)
			if strings.HasPrefix(id, mrswPfx+"Begin") {
				beg = append(beg, call)
			}
		}
		if len(beg) == 0 {
			continue
		}
		c.Touch(fn)
		name := core.FuncName(fn)
		for i, b := range beg {
			acqs++
			c.Sites++
			write := strings.Contains(an.CalleeID(b), "Write")
			endID := mrswPfx + "EndRead"
			if write {
				endID = mrswPfx + "EndWrite"
			}
			var starts []*ssa.BasicBlock
			var startInstr ssa.Instruction
			if returnsError(b.(*ssa.Call)) {
				for e := range an.SenseEdges(fn, an.ErrResult(b), an.IsNil) {
					starts = append(starts, e.To)
				}
				if len(starts) == 0 {
					c.Bad("C11.a", "PAIR", fmt.Sprintf("%s:lock#%d:checked", name, i+1), c.P.Pos(b.Pos()), "the result of acquiring the store lock is not tested", nil)
					continue
				}
			} else {
				startInstr = b.(ssa.Instruction)
			}
			// releases: direct call, deferred call, or deferred closure
			conditionalHandoff := false
			isRel := func(in ssa.Instruction) bool {
				if an.IsCall(in, endID) {
					return true
				}
				if d, ok := in.(*ssa.Defer); ok {
					if mc, ok := d.Call.Value.(*ssa.MakeClosure); ok {
						cl := mc.Fn.(*ssa.Function)
						ends := an.CallsTo(cl, false, endID)
						if len(ends) == 0 {
							return false
						}
						// unconditional inside the closure?
						e := ends[0].(ssa.Instruction)
						if len(an.Ungated(an.CutSpec{Fn: cl, GateInstr: func(x ssa.Instruction) bool { return x == e }, Sink: func(x ssa.Instruction) bool { _, isR := x.(*ssa.Return); return isR }})) == 0 {
							return true
						}
						// conditional on the named error result: release on error, hand-off on success
						conditionalHandoff = true
						return true
					}
				}
				return false
			}
			spec := an.CutSpec{Fn: fn, StartBlocks: starts, Start: startInstr, GateInstr: isRel,
				Sink: func(in ssa.Instruction) bool { _, ok := in.(*ssa.Return); return ok }}
			hits := an.Ungated(spec)
			ok := len(hits) == 0
			msg := "released on every exit"
			if ok && conditionalHandoff {
				// every success return must hand the hold to a LockingStreamer
				for _, r := range an.SuccessReturns(fn) {
					handed := false
					for _, res := range r.Results {
						if an.MentionsCall(res, "snapshot.NewLockingStreamer") {
							handed = true
						}
					}
					// named results spilled to cells: the value is built in the
					// return's own block (or its straight-line predecessors)
					for b, hops := r.Block(), 0; b != nil && hops < 4 && !handed; hops++ {
						for _, in := range b.Instrs {
							if an.IsCall(in, "snapshot.NewLockingStreamer") {
								handed = true
							}
						}
						if len(b.Preds) != 1 {
							break
						}
						b = b.Preds[0]
					}
					if !handed {
						ok = false
						c.Note("Open: success return without hand-off at %s", c.P.Pos(r.Pos()))
					}
				}
				msg = "released on error exits, handed to the returned LockingStreamer on success"
			}
			c.Result(ok, "C11.a", "PAIR", fmt.Sprintf("%s:lock#%d:released", name, i+1), c.P.Pos(b.Pos()), msg,
				"an exit after acquiring the store lock neither releases it nor hands it to a LockingStreamer: the reaper is blocked forever, or a stream keeps reading without a hold", nil)
		}
	}
	c.Count("store lock acquisitions in package snapshot", acqs)
	c.Min("store lock acquisitions in package snapshot", 8)

	// C11.b
	lsEffects := func(in ssa.Instruction) (string, bool) {
		switch x := in.(type) {
		case *ssa.Call:
			id := an.CalleeID(x)
			switch {
			case id == "sync.Mutex.Lock":
				return "lock", true
			case id == "sync.Mutex.Unlock":
				return "unlock", true
			case strings.HasSuffix(id, "AtomicBool.Is") && an.MentionsField(x.Common().Args[0], "LockingStreamer", "closed"):
				return "read-closed", true
			case strings.HasSuffix(id, "AtomicBool.Set") && an.MentionsField(x.Common().Args[0], "LockingStreamer", "closed"):
				return "set-closed", true
			case strings.HasSuffix(id, "AtomicBool.Set") && an.MentionsField(x.Common().Args[0], "LockingStreamer", "timedOut"):
				return "set-timedOut", true
			case id == mrswPfx+"EndRead":
				return "EndRead", true
			case id == "io.Closer.Close" || id == "io.ReadCloser.Close":
				return "close-underlying", true
			case id == "time.Timer.Stop":
				return "timer-stop", true
			case id == "time.Timer.Reset":
				return "timer-reset", true
			}
		case *ssa.Defer:
			// `defer x.M()` and `defer func() { x.M() }()` are the same release
			id := an.DeferredCalleeID(x)
			if id == "sync.Mutex.Unlock" {
				return "defer-unlock", true
			}
			if id == mrswPfx+"EndRead" {
				return "defer-EndRead", true
			}
		}
		return "", false
	}
	noRet := func(*ssa.Return, func(ssa.Value) ssa.Value) string { return "" }
	closedCond := an.BoolCond("closed", func(v ssa.Value) bool {
		call, ok := v.(*ssa.Call)
		return ok && strings.HasSuffix(an.CalleeID(call), "AtomicBool.Is") && an.MentionsField(call.Common().Args[0], "LockingStreamer", "closed")
	})
	timerNil := an.NilCond("timerNil", an.IsFieldLoad("LockingStreamer", "timer"))
	if fn := c.Fn("C11.b", "snapshot", "(*LockingStreamer).Close"); fn != nil {
		spec := an.DecideSpec{Fn: fn, Vars: []an.Var{an.Bool("closed"), an.Bool("timerNil")}, Conds: []an.CondMatcher{closedCond, timerNil}, Effect: lsEffects, Ret: noRet,
			Ref: func(v an.Val) string {
				if v["closed"] == 1 {
					return "lock;defer-unlock;read-closed => "
				}
				if v["timerNil"] == 1 {
					return "lock;defer-unlock;read-closed;set-closed;defer-EndRead;close-underlying => "
				}
				return "lock;defer-unlock;read-closed;set-closed;timer-stop;defer-EndRead;close-underlying => "
			}}
		reportDecide(c, "C11.b", "(*LockingStreamer).Close", c.P.Pos(fn.Pos()), an.Decide(spec, c.P.Pos))
	}
	if fn := c.Fn("C11.b", "snapshot", "(*LockingStreamer).checkIdle"); fn != nil {
		spec := an.DecideSpec{Fn: fn, Vars: []an.Var{an.Bool("closed"), an.Sign("idleVsTimeout"), an.Bool("closeOK")},
			Conds: []an.CondMatcher{closedCond,
				an.CmpCond("idleVsTimeout", func(v ssa.Value) bool { return callResult(v, -1, "time.Since") }, an.IsFieldLoad("LockingStreamer", "timeout")),
				an.NilCond("closeOK", func(v ssa.Value) bool { return callResult(v, -1, "io.Closer.Close", "io.ReadCloser.Close") }),
			},
			Effect: lsEffects, Ret: noRet,
			Ref: func(v an.Val) string {
				if v["closed"] == 1 {
					return "lock;defer-unlock;read-closed => "
				}
				if v["idleVsTimeout"] < 0 {
					return "lock;defer-unlock;read-closed;timer-reset => "
				}
				return "lock;defer-unlock;read-closed;set-timedOut;set-closed;close-underlying;EndRead => "
			}}
		reportDecide(c, "C11.b", "(*LockingStreamer).checkIdle", c.P.Pos(fn.Pos()), an.Decide(spec, c.P.Pos))
	}
	if fn := c.Fn("C11.b", "snapshot", "(*LockingStreamer).Read"); fn != nil {
		var to []ssa.Value
		for _, call := range an.AllCalls(fn, false) {
			if strings.HasSuffix(an.CalleeID(call), "AtomicBool.Is") && an.MentionsField(call.Common().Args[0], "LockingStreamer", "timedOut") {
				to = append(to, call.Value())
			}
		}
		gate := an.SenseEdges(fn, to, an.IsFalse)
		h := an.Ungated(an.CutSpec{Fn: fn, GateEdge: gate, Sink: func(in ssa.Instruction) bool { return an.IsCall(in, "io.Reader.Read", "io.ReadCloser.Read") }})
		c.Result(len(gate) > 0 && len(h) == 0, "C11.b", "DOM", "(*LockingStreamer).Read:refuses-after-timeout", c.P.Pos(fn.Pos()),
			"after the idle timeout Read returns an error without touching the underlying reader", "Read can reach the underlying reader after the stream timed out (its files may be rewritten by a reap)", nil)
	}

	// C11.c
	// callers are named by the top-level function that hosts the call; a private
	// helper (or a closure turned into a method) is attributed to its own callers
	// until a reviewed function is reached
	var want map[string]string
	callersOf := func(id string) []string {
		set := map[string]bool{}
		reviewed := func(name string) bool {
			for _, w := range strings.Split(want[id], ",") {
				if w == name {
					return true
				}
			}
			return false
		}
		for _, fn := range pkgFuncs(sp) {
			if len(an.CallsTo(fn, false, id)) > 0 {
				for _, n := range accountable(c, fn, reviewed) {
					set[n] = true
				}
			}
		}
		var out []string
		for k := range set {
			out = append(out, k)
		}
		sort.Strings(out)
		return out
	}
	want = map[string]string{
		"snapshot.Store.reap":            "(*snapshot.Store).Reap,(*snapshot.Store).reapLoop",
		"snapshot.Store.reapInternal":    "(*snapshot.Store).reap",
		"snapshot.Store.executeReapPlan": "(*snapshot.Store).check,(*snapshot.Store).reapInternal",
		"snapshot.Store.check":           "snapshot.NewStore",
	}
	ids := make([]string, 0, len(want))
	for id := range want {
		ids = append(ids, id)
	}
	sort.Strings(ids)
	for _, id := range ids {
		got := strings.Join(callersOf(id), ",")
		c.Result(got == want[id], "C11.c", "WHO", id+":callers", "", id+" is called only by "+got, id+" is called by {"+got+"}; reviewed {"+want[id]+"}: a reap outside the write lock races with open streams", nil)
	}
	// the callers of reap hold the write lock at the call
	for _, fn := range pkgFuncs(sp) {
		for _, call := range an.CallsTo(fn, false, "snapshot.Store.reap") {
			var starts []*ssa.BasicBlock
			gateInstr := func(in ssa.Instruction) bool { return an.IsCall(in, mrswPfx+"BeginWriteBlocking") }
			gateEdges := map[an.Edge]bool{}
			for _, b := range an.CallsTo(fn, false, mrswPfx+"BeginWrite") {
				for e := range an.SenseEdges(fn, an.ErrResult(b), an.IsNil) {
					gateEdges[e] = true
				}
			}
			_ = starts
			ci := call.(ssa.Instruction)
			h := an.Ungated(an.CutSpec{Fn: fn, GateEdge: gateEdges, GateInstr: gateInstr, Sink: func(in ssa.Instruction) bool { return in == ci }})
			c.Result(len(h) == 0, "C11.c", "PAIR", core.FuncName(fn)+":reap-under-write-lock", c.P.Pos(call.Pos()), "reap runs with the write lock held", "reap is reachable without the write lock having been acquired", nil)
		}
	}
}
