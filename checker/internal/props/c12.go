package props

import (
	"sort"
	"strings"

	"golang.org/x/tools/go/ssa"

	"rqverif/checker/internal/an"
	"rqverif/checker/internal/core"
)

func init() {
	register(&core.Check{
		ID:    "C12",
		Title: "Corrupt snapshot data is detected before it is used",
		Explanation: "C12.a DOM: snapshot.Store.Open resolves and streams files only after ensureVerified returned nil; reapInternal builds a new plan only after ensureVerified returned nil (resuming an already persisted plan is the documented exception); store.Store.Open runs EnsureVerify before raft.NewRaft on every path where NoSnapshotRestoreOnStart is not set. " +
			"C12.b DOM (coverage of the verification): checkCRCs adds, for every snapshot of the catalog, its database file when present and every one of its WAL files — the inner loop over walFiles is reached in every iteration of the outer loop, not only for some snapshot kinds — and returns the checker's verdict; ensureVerified runs it once and keeps the error. " +
			"C12.c WHO: streams served from the snapshot store are built with the checksum-carrying constructor (NewChecksummedSnapshotStreamer, header CRCs taken from the verified sidecars); the recomputing constructor is used only for the local, freshly checkpointed database (fsmSnapshot, RecoverNode). " +
			"C12.d DOM: every data file created in a snapshot directory gets a CRC sidecar on the same success path: FullSink.Close (database and each WAL), WALWriter.Close (before the segment is marked valid), the reap plan (CalcCRC32 after Checkpoint, C07.b), and the receiver recomputes CRCs while writing (C10.a/b). " +
			"C12.e DOM/CONST: the comparison can be skipped only for a sidecar explicitly marked Disabled — ChecksummedFile.Check returns success without computing the file's CRC only behind the true edge of that flag and otherwise returns (computed == recorded); NewChecksummedFileFromFiles succeeds without a parsed CRC only behind the same flag; Sidecar.CRC32 succeeds only behind the test of the known checksum type.",
		NotCovered: []string{"detection power of CRC32", "corruption introduced after the one-shot verification of this process lifetime"},
		Run:        runC12,
	})
}

func runC12(c *core.Ctx) {
	c12e(c)
	// C12.a
	if fn := c.Fn("C12.a", "snapshot", "(*Store).Open"); fn != nil {
		var ev ssa.CallInstruction
		for _, call := range an.CallsTo(fn, false, "snapshot.Store.ensureVerified") {
			ev = call
		}
		ok := ev != nil
		if ok {
			gate := an.SenseEdges(fn, an.ErrResult(ev), an.IsNil)
			h := an.Ungated(an.CutSpec{Fn: fn, GateEdge: gate, Sink: func(in ssa.Instruction) bool {
				return an.IsCall(in, "snapshot.SnapshotSet.ResolveFiles", "snapshot.NewChecksummedSnapshotStreamer", "snapshot.NewSnapshotStreamer", "snapshot.SnapshotStreamer.Open")
			}})
			ok = len(gate) > 0 && len(h) == 0
		}
		c.Result(ok, "C12.a", "DOM", "snapshot.Store.Open:verified-first", c.P.Pos(fn.Pos()), "snapshot files are resolved and streamed only after the store verified its checksums", "a snapshot can be opened for transfer/restore without the store's checksum verification having passed", nil)
	}
	if fn := c.Fn("C12.a", "snapshot", "(*Store).reapInternal"); fn != nil {
		var ev ssa.CallInstruction
		for _, call := range an.CallsTo(fn, false, "snapshot.Store.ensureVerified") {
			ev = call
		}
		ok := ev != nil
		if ok {
			gate := an.SenseEdges(fn, an.ErrResult(ev), an.IsNil)
			h := an.Ungated(an.CutSpec{Fn: fn, GateEdge: gate, Sink: func(in ssa.Instruction) bool { return an.IsCall(in, "snapshot/plan.New", "snapshot/plan.WriteToFile") }})
			ok = len(gate) > 0 && len(h) == 0
		}
		c.Result(ok, "C12.a", "DOM", "reapInternal:verified-before-new-plan", c.P.Pos(fn.Pos()), "a new consolidation plan is built only from verified snapshot data", "a reap can consolidate snapshot files whose checksums were never verified", nil)
	}
	if fn := c.Fn("C12.a", "store", "(*Store).Open"); fn != nil {
		evs := an.AllCalls(fn, false)
		var ev ssa.CallInstruction
		for _, call := range evs {
			if strings.HasSuffix(an.CalleeID(call), ".EnsureVerify") {
				ev = call
			}
		}
		ok := ev != nil
		if ok {
			// paths where NoSnapshotRestoreOnStart is not known true
			var flag []ssa.Value
			an.Instrs(fn, func(in ssa.Instruction) {
				if u, isU := in.(*ssa.UnOp); isU {
					if t, f, _, isF := an.FieldOf(u.X); isF && t == "Config" && f == "NoSnapshotRestoreOnStart" {
						flag = append(flag, u)
					}
				}
			})
			skip := an.SenseEdges(fn, flag, an.IsTrue)
			pass := an.SenseEdges(fn, an.ErrResult(ev), an.IsNil)
			gate := union(skip, pass)
			h := an.Ungated(an.CutSpec{Fn: fn, GateEdge: gate, Sink: func(in ssa.Instruction) bool { return an.IsCall(in, "github.com/hashicorp/raft.NewRaft") }})
			ok = len(pass) > 0 && len(h) == 0
		}
		c.Result(ok, "C12.a", "DOM", "store.Store.Open:verify-before-raft", c.P.Pos(fn.Pos()), "when raft will restore from a snapshot on start, the snapshot store is verified first", "raft can be started (and restore from the snapshot store) without the store having been verified", nil)
	}

	// C12.b
	if fn := c.Fn("C12.b", "snapshot", "(*Store).checkCRCs"); fn != nil {
		var outer, inner *ssa.BasicBlock
		for _, b := range fn.Blocks {
			if !isLoopHeader(b) {
				continue
			}
			if loopRangesOverField(b, "SnapshotSet", "items") {
				outer = b
			}
			if loopRangesOverField(b, "Snapshot", "walFiles") {
				inner = b
			}
		}
		ok := outer != nil && inner != nil
		if ok {
			// from the outer body, the next outer iteration is unreachable without passing the inner loop header
			h := an.Ungated(an.CutSpec{Fn: fn, StartBlocks: []*ssa.BasicBlock{outer.Succs[0]},
				GateInstr: func(in ssa.Instruction) bool { return in == inner.Instrs[0] },
				Sink:      func(in ssa.Instruction) bool { return in == outer.Instrs[0] }})
			ok = len(h) == 0
			// the inner body adds the element; the db file is added on its non-nil edge
			adds := an.CallsTo(fn, false, "snapshot.CRCChecker.Add")
			ok = ok && len(adds) >= 2
			addsInInner := false
			for _, a := range adds {
				if inner.Succs[0] == a.Block() || inner.Succs[0].Dominates(a.Block()) {
					addsInInner = true
				}
			}
			ok = ok && addsInInner
		}
		c.Result(ok, "C12.b", "DOM", "checkCRCs:covers-every-file", c.P.Pos(fn.Pos()),
			"for every snapshot the database file (when present) and every WAL file are handed to the CRC checker", "checkCRCs skips the WAL files (or the database file) of some snapshots: corruption there is never detected before the data is reaped or transferred", nil)
		// the verdict of the checker is returned
		chk := an.CallsTo(fn, false, "snapshot.CRCChecker.Check")
		okV := len(chk) == 1
		c.Result(okV, "C12.b", "DOM", "checkCRCs:verdict", c.P.Pos(fn.Pos()), "the checker's verdict is awaited and returned", "checkCRCs does not run the checker", nil)
	}

	// C12.c
	users := func(id string) string {
		set := map[string]bool{}
		for _, fn := range moduleFuncs(c) {
			if len(an.CallsTo(fn, false, id)) > 0 {
				for _, n := range accountable(c, fn, func(n string) bool {
					return n == "(*snapshot.Store).Open" || n == "(*store.Store).fsmSnapshot" || n == "store.RecoverNode"
				}) {
					set[n] = true
				}
			}
		}
		var out []string
		for k := range set {
			out = append(out, k)
		}
		sort.Strings(out)
		return strings.Join(out, ",")
	}
	got := users("snapshot.NewChecksummedSnapshotStreamer")
	c.Result(got == "(*snapshot.Store).Open", "C12.c", "WHO", "NewChecksummedSnapshotStreamer:users", "", "streams out of the store carry the verified sidecar checksums", "NewChecksummedSnapshotStreamer is used by {"+got+"}; reviewed {(*snapshot.Store).Open}", nil)
	got = users("snapshot.NewSnapshotStreamer")
	c.Result(got == "(*store.Store).fsmSnapshot,store.RecoverNode", "C12.c", "WHO", "NewSnapshotStreamer:users", "", "checksums are recomputed only for the local, freshly checkpointed database", "NewSnapshotStreamer (recomputing) is used by {"+got+"}; reviewed {fsmSnapshot, RecoverNode}: a stored snapshot streamed through it would get fresh checksums over possibly corrupt bytes", nil)

	// C12.d
	if fn := c.Fn("C12.d", "snapshot", "(*WALWriter).Close"); fn != nil {
		sc := an.CallsTo(fn, false, "snapshot/sidecar.WriteFile")
		ok := len(sc) == 1
		if ok {
			gate := an.SenseEdges(fn, an.ErrResult(sc[0]), an.IsNil)
			// closed = true (segment valid) only after the sidecar was written
			h := an.Ungated(an.CutSpec{Fn: fn, GateEdge: gate, Sink: func(in ssa.Instruction) bool {
				st, isS := in.(*ssa.Store)
				if !isS {
					return false
				}
				t, f, _, isF := an.FieldOf(st.Addr)
				return isF && t == "WALWriter" && f == "closed"
			}})
			ok = len(gate) > 0 && len(h) == 0 && callResult(sc[0].Common().Args[1], -1, "internal/rsum.CRC32Writer.Sum32")
		}
		c.Result(ok, "C12.d", "DOM", "WALWriter.Close:sidecar-before-valid", c.P.Pos(fn.Pos()), "a staged WAL segment becomes valid only after its checksum sidecar (of the bytes written) exists", "a staged WAL segment can be marked valid without its checksum sidecar", nil)
	}
	if fn := c.Fn("C12.d", "snapshot", "(*FullSink).Close"); fn != nil {
		sc := an.CallsTo(fn, false, "snapshot/sidecar.WriteFile")
		if len(sc) == 0 {
			// the sidecars are written by a helper whose result Close returns
			if g := tailDelegate(fn); g != nil && len(an.CallsTo(g, false, "snapshot/sidecar.WriteFile")) > 0 {
				c.Touch(g)
				fn = g
				sc = an.CallsTo(fn, false, "snapshot/sidecar.WriteFile")
			}
		}
		succ := map[ssa.Instruction]bool{}
		for _, r := range an.SuccessReturns(fn) {
			succ[r] = true
		}
		// the database sidecar is on every success path
		var dbSide ssa.Instruction
		for _, s := range sc {
			if an.MentionsField(s.Common().Args[0], "FullSink", "dbFile") {
				dbSide = s.(ssa.Instruction)
			}
		}
		ok := dbSide != nil && len(an.Ungated(an.CutSpec{Fn: fn, GateInstr: func(in ssa.Instruction) bool { return in == dbSide }, Sink: func(in ssa.Instruction) bool { return succ[in] }})) == 0
		c.Result(ok, "C12.d", "DOM", "FullSink.Close:db-sidecar", c.P.Pos(fn.Pos()), "an installed database file always gets its sidecar before success", "FullSink.Close can succeed without writing the database sidecar", nil)
	}
}
