package props

import (
	"go/token"

	"golang.org/x/tools/go/ssa"

	"rqverif/checker/internal/an"
	"rqverif/checker/internal/core"
)

// C12.e: the only way around the checksum comparison is a sidecar explicitly
// marked Disabled. ChecksummedFile.Check answers "true" either behind the true
// edge of that flag or with the comparison of a freshly computed CRC against the
// recorded one; NewChecksummedFileFromFiles yields a file without a parsed CRC
// only behind the same flag; Sidecar.CRC32 succeeds only for the known type.
func c12e(c *core.Ctx) {
	n := 0
	// a value that is exactly the Disabled flag: a load of Sidecar.Disabled, or the
	// result of a function all of whose returns are that load
	isDisabledFlag := func(v ssa.Value) bool {
		if an.LoadedField(v, "Sidecar", "Disabled") {
			return true
		}
		call, ok := v.(*ssa.Call)
		if !ok {
			return false
		}
		g := call.Common().StaticCallee()
		if g == nil || len(g.Blocks) == 0 {
			return false
		}
		rets := an.Returns(g)
		if len(rets) == 0 {
			return false
		}
		for _, r := range rets {
			if len(r.Results) != 1 || !an.LoadedField(r.Results[0], "Sidecar", "Disabled") {
				return false
			}
		}
		return true
	}
	disabledEdges := func(fn *ssa.Function) map[an.Edge]bool {
		var vals []ssa.Value
		an.Instrs(fn, func(in ssa.Instruction) {
			if v, ok := in.(ssa.Value); ok && isDisabledFlag(v) {
				vals = append(vals, v)
			}
		})
		return an.SenseEdges(fn, vals, an.IsTrue)
	}
	okReturn := func(in ssa.Instruction) bool {
		r, ok := in.(*ssa.Return)
		if !ok || len(r.Results) == 0 {
			return false
		}
		return an.IsNilConst(r.Results[len(r.Results)-1])
	}

	if fn := c.Fn("C12.e", "snapshot", "(*ChecksummedFile).Check"); fn != nil {
		n++
		gate := disabledEdges(fn)
		h := an.Ungated(an.CutSpec{Fn: fn, GateEdge: gate, NoLift: true,
			GateInstr: func(in ssa.Instruction) bool { return an.IsCall(in, "internal/rsum.CRC32") },
			Sink:      okReturn})
		c.Result(len(h) == 0, "C12.e", "DOM", "ChecksummedFile.Check:skip-only-when-disabled", c.P.Pos(fn.Pos()),
			"Check answers without reading the file only for a sidecar explicitly marked Disabled",
			"ChecksummedFile.Check can answer without computing the file's CRC on a condition other than the sidecar's Disabled flag (e.g. an unknown checksum type): a damaged sidecar switches verification of its data file off", nil)
		// the verdict after the computation is the comparison with the recorded CRC
		okCmp := false
		an.Instrs(fn, func(in ssa.Instruction) {
			r, ok := in.(*ssa.Return)
			if !ok || !okReturn(in) {
				return
			}
			if b, isB := an.ConstBool(r.Results[0]); isB && b {
				return // the Disabled short-circuit, decided above
			}
			bo, isB := an.Unwrap(r.Results[0]).(*ssa.BinOp)
			if !isB || bo.Op != token.EQL {
				okCmp = false
				return
			}
			fresh := func(v ssa.Value) bool { return callResult(v, 0, "internal/rsum.CRC32") }
			rec := func(v ssa.Value) bool { return an.LoadedField(v, "ChecksummedFile", "CRC32") }
			okCmp = (fresh(bo.X) && rec(bo.Y)) || (fresh(bo.Y) && rec(bo.X))
		})
		c.Result(okCmp, "C12.e", "CONST", "ChecksummedFile.Check:verdict-is-comparison", c.P.Pos(fn.Pos()),
			"the verdict is the comparison of the freshly computed CRC with the recorded one",
			"ChecksummedFile.Check does not return (computed CRC == recorded CRC) as its verdict", nil)
	}

	if fn := c.Fn("C12.e", "snapshot", "NewChecksummedFileFromFiles"); fn != nil {
		n++
		gate := disabledEdges(fn)
		for _, call := range an.CallsTo(fn, false, "snapshot/sidecar.Sidecar.CRC32") {
			for e := range an.SenseEdges(fn, an.ErrResult(call), an.IsNil) {
				gate[e] = true
			}
		}
		h := an.Ungated(an.CutSpec{Fn: fn, GateEdge: gate, NoLift: true, Sink: okReturn})
		c.Result(len(h) == 0, "C12.e", "DOM", "NewChecksummedFileFromFiles:crc-parsed-unless-disabled", c.P.Pos(fn.Pos()),
			"a checksummed file is built without a parsed CRC only for a sidecar explicitly marked Disabled",
			"NewChecksummedFileFromFiles can succeed without having parsed the sidecar's CRC on a condition other than the Disabled flag: the file is then never compared with anything", nil)
	}

	if fn := c.Fn("C12.e", "snapshot/sidecar", "(*Sidecar).CRC32"); fn != nil {
		n++
		// the edges on which Type equals a constant
		gate := map[an.Edge]bool{}
		an.Instrs(fn, func(in ssa.Instruction) {
			ifi, ok := in.(*ssa.If)
			if !ok {
				return
			}
			bo, ok := ifi.Cond.(*ssa.BinOp)
			if !ok || (bo.Op != token.EQL && bo.Op != token.NEQ) {
				return
			}
			isType := func(v ssa.Value) bool { return an.LoadedField(v, "Sidecar", "Type") }
			_, cx := bo.X.(*ssa.Const)
			_, cy := bo.Y.(*ssa.Const)
			if !((isType(bo.X) && cy) || (isType(bo.Y) && cx)) {
				return
			}
			b := in.Block()
			if bo.Op == token.EQL {
				gate[an.Edge{From: b, To: b.Succs[0]}] = true
			} else {
				gate[an.Edge{From: b, To: b.Succs[1]}] = true
			}
		})
		h := an.Ungated(an.CutSpec{Fn: fn, GateEdge: gate, NoLift: true, Sink: okReturn})
		c.Result(len(gate) > 0 && len(h) == 0, "C12.e", "DOM", "Sidecar.CRC32:known-type-only", c.P.Pos(fn.Pos()),
			"a sidecar yields a CRC only when it records the known checksum type",
			"Sidecar.CRC32 can succeed for a sidecar whose type is not the known CRC32 type", nil)
	}
	c.Count("sidecar verification gates", n)
	c.Min("sidecar verification gates", 3)
}
