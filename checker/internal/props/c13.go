package props

import (
	"fmt"
	"go/token"
	"go/types"
	"strings"

	"golang.org/x/tools/go/ssa"

	"rqverif/checker/internal/an"
	"rqverif/checker/internal/core"
)

func init() {
	register(&core.Check{
		ID:    "C13",
		Title: "Transactional requests are all-or-nothing and results match statements",
		Explanation: "Sibling request executors in package db (executeWithConn, RequestWithContext; queryWithConn for the begin rule) are analysed on SSA. " +
			"C13.a DOM: inside the statement loop, from every statement-level operation (DB method returning an error) each path to the next iteration passes either the nil edge of that operation's error or a call of the abort closure (the closure that rolls the transaction back and clears it); after an abort closure call, the edge on which it reports 'abort' cannot reach the next iteration. " +
			"C13.b DOM: tx.Commit is reached only on the non-nil edge of the transaction variable (cleared by the abort), and a Rollback is deferred right after BeginTx. " +
			"C13.c ORD: from every statement-level operation each path to the next iteration or the loop exit passes an append to the result slice (one result per executed statement, in loop order). " +
			"C13.d DOM: every path from entry to the statement loop on which Request.Transaction is not known false passes BeginTx, and the executor then runs statements on the transaction. " +
			"C13.e DOM: the statement helpers report a statement that SQLite refused through their error result, which is what the executors' abort rule (C13.a) tests — from the non-nil edge of ExecContext's / QueryContext's error in executeStmtWithConn / queryStmtWithConn every return carries a value that is not the nil constant (also not through a local closure that always returns nil).",
		NotCovered: []string{"SQLite's own atomicity of a single statement", "RETURNING row contents and per-statement result values", "behaviour of RollbackOnError outside an explicit transaction beyond issuing ROLLBACK"},
		Run:        runC13,
	})
}

func isTxPtr(t types.Type) bool {
	p, ok := t.(*types.Pointer)
	if !ok {
		return false
	}
	n, ok := p.Elem().(*types.Named)
	return ok && n.Obj().Name() == "Tx" && n.Obj().Pkg() != nil && n.Obj().Pkg().Path() == "database/sql"
}

// stmtLoop finds the header block of `for … range req.Statements`.
func stmtLoop(fn *ssa.Function) (header, body, done *ssa.BasicBlock) {
	for _, b := range fn.Blocks {
		if !isLoopHeader(b) {
			continue
		}
		// the loop condition compares the index with len(<Statements>)
		ok := false
		for _, in := range b.Instrs {
			if ifi, isIf := in.(*ssa.If); isIf {
				if an.MentionsField(ifi.Cond, "Request", "Statements") {
					ok = true
				}
			}
		}
		// len may be computed in the preheader
		if !ok {
			for _, p := range b.Preds {
				for _, in := range p.Instrs {
					if call, isCall := in.(*ssa.Call); isCall {
						if bi, isB := call.Common().Value.(*ssa.Builtin); isB && bi.Name() == "len" && an.MentionsField(call.Common().Args[0], "Request", "Statements") {
							ok = true
						}
					}
				}
			}
		}
		if ok && len(b.Succs) == 2 {
			return b, b.Succs[0], b.Succs[1]
		}
	}
	return nil, nil, nil
}

func inLoop(header, b *ssa.BasicBlock) bool {
	// b is in the loop if header dominates b and header is reachable from b
	if !header.Dominates(b) || b == header {
		return false
	}
	seen := map[*ssa.BasicBlock]bool{}
	var q = []*ssa.BasicBlock{b}
	for len(q) > 0 {
		x := q[0]
		q = q[1:]
		for _, s := range x.Succs {
			if s == header {
				return true
			}
			if !seen[s] && header.Dominates(s) {
				seen[s] = true
				q = append(q, s)
			}
		}
	}
	return false
}

func runC13(c *core.Ctx) {
	c13e(c)
	execs := 0
	for _, name := range []string{"(*DB).executeWithConn", "(*DB).RequestWithContext"} {
		if fn := c.Fn("C13.a", "db", name); fn != nil {
			execs++
			c13executor(c, fn, true)
		}
	}
	if fn := c.Fn("C13.d", "db", "(*DB).queryWithConn"); fn != nil {
		execs++
		c13executor(c, fn, false)
	}
	c.Count("request executors", execs)
	c.Min("request executors", 3)
}

func c13executor(c *core.Ctx, fn *ssa.Function, writes bool) {
	name := core.FuncName(fn)
	pos := c.P.Pos(fn.Pos())
	header, body, done := stmtLoop(fn)
	if header == nil {
		c.Unk("C13.a", "DOM", name+":loop", pos, "statement loop (range over Request.Statements) not found")
		return
	}
	_ = body
	first := func(b *ssa.BasicBlock) ssa.Instruction { return b.Instrs[0] }

	// --- C13.d: BeginTx iff Transaction
	begins := an.CallsTo(fn, false, "database/sql.Conn.BeginTx")
	trFalse := an.SenseEdges(fn, loadsOfField(fn, "Request", "Transaction"), an.IsFalse)
	if len(begins) == 0 {
		c.Bad("C13.d", "DOM", name+":begin", pos, "no BeginTx in the executor: a request marked as a transaction runs in autocommit mode", nil)
	} else {
		hits := an.Ungated(an.CutSpec{Fn: fn, GateEdge: trFalse,
			GateInstr: func(in ssa.Instruction) bool { return an.IsCall(in, "database/sql.Conn.BeginTx") },
			Sink:      func(in ssa.Instruction) bool { return in == first(header) }})
		if len(hits) == 0 {
			c.OK("C13.d", "DOM", name+":begin-iff-transaction", c.P.Pos(begins[0].Pos()), "statements run only after BeginTx unless Request.Transaction is false")
		} else {
			c.Bad("C13.d", "DOM", name+":begin-iff-transaction", c.P.Pos(begins[0].Pos()),
				"the statement loop is reachable without BeginTx on a path where Request.Transaction has not been tested false (some transactional requests run without a transaction)", an.PathString(fn, hits[0].Path, c.P.Pos))
		}
		// the reverse: BeginTx only when Transaction is true
		trTrue := an.SenseEdges(fn, loadsOfField(fn, "Request", "Transaction"), an.IsTrue)
		hits = an.Ungated(an.CutSpec{Fn: fn, GateEdge: trTrue, Sink: func(in ssa.Instruction) bool { return an.IsCall(in, "database/sql.Conn.BeginTx") }})
		c.Result(len(hits) == 0, "C13.d", "DOM", name+":begin-only-if-transaction", c.P.Pos(begins[0].Pos()),
			"BeginTx only on the true edge of Request.Transaction", "BeginTx reachable without Request.Transaction being true", nil)
		// rollback deferred after begin
		for _, bg := range begins {
			okEdges := an.SenseEdges(fn, an.ErrResult(bg), an.IsNil)
			var starts []*ssa.BasicBlock
			for e := range okEdges {
				starts = append(starts, e.To)
			}
			hits := an.Ungated(an.CutSpec{Fn: fn, StartBlocks: starts,
				GateInstr: func(in ssa.Instruction) bool {
					d, ok := in.(*ssa.Defer)
					if !ok {
						return false
					}
					if an.IsCall(d, "database/sql.Tx.Rollback") {
						return true
					}
					if mc, ok := d.Call.Value.(*ssa.MakeClosure); ok {
						return len(an.CallsTo(mc.Fn.(*ssa.Function), true, "database/sql.Tx.Rollback")) > 0
					}
					return false
				},
				Sink: func(in ssa.Instruction) bool { return in == first(header) }})
			c.Result(len(starts) > 0 && len(hits) == 0, "C13.b", "PAIR", name+":deferred-rollback", c.P.Pos(bg.Pos()),
				"a Rollback is deferred between BeginTx and the first statement (early returns and panics roll back)",
				"no Rollback is deferred after a successful BeginTx", nil)
		}
	}

	// the tx cell / value
	var txCell *ssa.Alloc
	an.Instrs(fn, func(in ssa.Instruction) {
		if al, ok := in.(*ssa.Alloc); ok && isTxPtr(al.Type().(*types.Pointer).Elem()) {
			txCell = al
		}
	})

	// --- C13.b: Commit only with tx != nil
	for _, cm := range an.CallsTo(fn, false, "database/sql.Tx.Commit") {
		recv := cm.Common().Args[0]
		var vals []ssa.Value
		if txCell != nil {
			an.Instrs(fn, func(in ssa.Instruction) {
				if u, ok := in.(*ssa.UnOp); ok && u.Op == token.MUL && u.X == ssa.Value(txCell) {
					vals = append(vals, u)
				}
			})
		} else {
			vals = []ssa.Value{recv}
		}
		gate := an.SenseEdges(fn, vals, an.NotNil)
		cmi := cm
		hits := an.Ungated(an.CutSpec{Fn: fn, GateEdge: gate, Sink: func(in ssa.Instruction) bool { return in == ssa.Instruction(cmi.(*ssa.Call)) }})
		c.Result(len(hits) == 0, "C13.b", "DOM", name+":commit-nonnil", c.P.Pos(cm.Pos()),
			"Commit only on the non-nil edge of the transaction variable", "Commit reachable without testing that the transaction is still open (after an abort it must not commit)", nil)
	}
	if !writes {
		return
	}

	// --- abort closures
	type abortCl struct {
		fn    *ssa.Function
		sense bool // returned value meaning "abort / stop"
	}
	var aborts []abortCl
	for _, cl := range fn.AnonFuncs {
		rb := an.CallsTo(cl, false, "database/sql.Tx.Rollback")
		if len(rb) == 0 {
			continue
		}
		// store of nil to the captured tx
		var clear *ssa.Store
		an.Instrs(cl, func(in ssa.Instruction) {
			if st, ok := in.(*ssa.Store); ok && an.IsNilConst(st.Val) {
				if fv, ok := st.Addr.(*ssa.FreeVar); ok && isTxPtr(fv.Type().(*types.Pointer).Elem()) {
					clear = st
				}
			}
		})
		if clear == nil {
			continue
		}
		// constant returned after the clear
		var sense *bool
		consistent := true
		for _, r := range an.Returns(cl) {
			if len(r.Results) != 1 {
				continue
			}
			if !an.ReachableFrom(clear, r, nil) {
				continue
			}
			// only returns in the same block chain (before any merge) count
			if b, ok := an.ConstBool(r.Results[0]); ok {
				if sense != nil && *sense != b {
					consistent = false
				}
				bb := b
				sense = &bb
			}
		}
		if sense == nil || !consistent {
			c.Unk("C13.a", "DOM", name+":abort-closure:"+cl.Name(), c.P.Pos(cl.Pos()), "cannot determine which boolean the abort closure returns after rolling back")
			continue
		}
		// Rollback and clear must be guarded by tx != nil and happen together
		aborts = append(aborts, abortCl{cl, *sense})
		c.Touch(cl)
	}
	if len(aborts) == 0 {
		c.Bad("C13.a", "DOM", name+":abort-closure", pos, "no abort helper (closure calling tx.Rollback and clearing tx) found in a transactional executor", nil)
		return
	}
	isAbortCall := func(in ssa.Instruction) (abortCl, bool) {
		call, ok := in.(*ssa.Call)
		if !ok {
			return abortCl{}, false
		}
		var target *ssa.Function
		switch v := call.Common().Value.(type) {
		case *ssa.MakeClosure:
			target, _ = v.Fn.(*ssa.Function)
		case *ssa.Function:
			target = v
		}
		for _, a := range aborts {
			if a.fn == target {
				return a, true
			}
		}
		return abortCl{}, false
	}

	// --- C13.a / C13.c per statement-level operation
	ops := 0
	for _, b := range fn.Blocks {
		if !inLoop(header, b) {
			continue
		}
		for _, in := range b.Instrs {
			call, ok := in.(*ssa.Call)
			if !ok {
				continue
			}
			id := an.CalleeID(call)
			if !strings.HasPrefix(id, "db.DB.") || len(an.ErrResult(call)) == 0 && !returnsError(call) {
				continue
			}
			if !returnsError(call) {
				continue
			}
			ops++
			c.Sites++
			op := strings.TrimPrefix(id, "db.DB.")
			nilEdges := an.SenseEdges(fn, an.ErrResult(call), an.IsNil)
			opErrs := an.ErrResult(call)
			hits := an.Ungated(an.CutSpec{Fn: fn, Start: call, GateEdge: nilEdges,
				GateInstr: func(x ssa.Instruction) bool {
					if _, ok := isAbortCall(x); !ok {
						return false
					}
					// an abort helper that is handed an error decides on THAT error: it covers this
					// operation only if the value it receives can be this operation's error
					// (a shadowed or stale variable would hand it nil)
					for _, a := range x.(ssa.CallInstruction).Common().Args {
						if !an.IsErrorType(a.Type()) {
							continue
						}
						carries := false
						for _, e := range opErrs {
							if an.MentionsValue(a, e) {
								carries = true
							}
						}
						if !carries {
							return false
						}
					}
					return true
				},
				Sink: func(x ssa.Instruction) bool { return x == first(header) }})
			if len(hits) == 0 {
				c.OK("C13.a", "DOM", name+":"+op+":error-aborts", c.P.Pos(call.Pos()), "a failure of "+op+" cannot reach the next statement without the abort helper")
			} else {
				c.Bad("C13.a", "DOM", name+":"+op+":error-aborts", c.P.Pos(call.Pos()),
					"when "+op+" fails inside a transaction the loop continues with the next statement without rolling back: the remaining statements still commit", an.PathString(fn, hits[0].Path, c.P.Pos))
			}
			// results
			hits = an.Ungated(an.CutSpec{Fn: fn, Start: call,
				GateInstr: func(x ssa.Instruction) bool {
					if cl, ok := isAbortCall(x); ok {
						return closureAppends(cl.fn)
					}
					return isAppendCall(x)
				},
				Sink: func(x ssa.Instruction) bool { return x == first(header) || x == first(done) }})
			c.Result(len(hits) == 0, "C13.c", "ORD", name+":"+op+":result-appended", c.P.Pos(call.Pos()),
				"every path from "+op+" to the next statement or the loop exit appends a result",
				"a path from "+op+" to the next statement appends no result: results no longer line up with statements", nil)
		}
	}
	c.Count("statement-level operations in "+name, ops)
	c.Min("statement-level operations in "+name, 1)

	// after an abort call, the abort sense leaves the loop
	n := 0
	an.Instrs(fn, func(in ssa.Instruction) {
		a, ok := isAbortCall(in)
		if !ok || !inLoop(header, in.Block()) {
			return
		}
		n++
		call := in.(*ssa.Call)
		want := an.IsFalse
		if a.sense {
			want = an.IsTrue
		}
		edges := an.SenseEdges(fn, []ssa.Value{call}, want)
		if len(edges) == 0 {
			c.Bad("C13.a", "DOM", name+":abort-result-used", c.P.Pos(call.Pos()), "the abort helper's verdict is ignored: the loop continues after a rollback", nil)
			return
		}
		var starts []*ssa.BasicBlock
		for e := range edges {
			starts = append(starts, e.To)
		}
		hits := an.Ungated(an.CutSpec{Fn: fn, StartBlocks: starts, Sink: func(x ssa.Instruction) bool { return x == first(header) }})
		c.Result(len(hits) == 0, "C13.a", "DOM", fmt.Sprintf("%s:abort-leaves-loop#%d", name, n), c.P.Pos(call.Pos()),
			"on the abort verdict the statement loop is left (execution stops at the first failure inside a transaction)",
			"after the abort helper reports a rollback the loop can still reach the next statement", nil)
	})
	c.Count("abort helper calls in "+name, n)
	c.Min("abort helper calls in "+name, 1)

	// inside each abort closure: Rollback and the clearing of tx happen on
	// the tx != nil edge, on the same path
	for _, a := range aborts {
		var fvLoads []ssa.Value
		an.Instrs(a.fn, func(in ssa.Instruction) {
			if u, ok := in.(*ssa.UnOp); ok && u.Op == token.MUL {
				if fv, ok := u.X.(*ssa.FreeVar); ok && isTxPtr(fv.Type().(*types.Pointer).Elem()) {
					fvLoads = append(fvLoads, u)
				}
			}
		})
		gate := an.SenseEdges(a.fn, fvLoads, an.NotNil)
		// every path on which tx is not known nil reaches Rollback
		nilE := an.SenseEdges(a.fn, fvLoads, an.IsNil)
		_ = gate
		hits := an.Ungated(an.CutSpec{Fn: a.fn, GateEdge: nilE,
			GateInstr: func(in ssa.Instruction) bool { return an.IsCall(in, "database/sql.Tx.Rollback") },
			Sink: func(in ssa.Instruction) bool {
				r, ok := in.(*ssa.Return)
				if !ok {
					return false
				}
				// returns of the non-abort verdict with tx possibly open
				b, isC := an.ConstBool(r.Results[0])
				return !isC || b != a.sense
			}})
		// allowed: paths where err == nil (RequestWithContext's abortOnError(err)) — remove edges where the error parameter is nil
		if len(hits) > 0 {
			var errParams []ssa.Value
			for _, p := range a.fn.Params {
				if an.IsErrorType(p.Type()) {
					errParams = append(errParams, p)
				}
			}
			if len(errParams) > 0 {
				nilE2 := union(nilE, an.SenseEdges(a.fn, errParams, an.IsNil))
				hits = an.Ungated(an.CutSpec{Fn: a.fn, GateEdge: nilE2,
					GateInstr: func(in ssa.Instruction) bool { return an.IsCall(in, "database/sql.Tx.Rollback") },
					Sink: func(in ssa.Instruction) bool {
						r, ok := in.(*ssa.Return)
						if !ok {
							return false
						}
						b, isC := an.ConstBool(r.Results[0])
						return !isC || b != a.sense
					}})
			}
		}
		c.Result(len(hits) == 0, "C13.a", "DOM", name+":"+a.fn.Name()+":rollback-when-open", c.P.Pos(a.fn.Pos()),
			"with an open transaction (and an error) the helper always rolls back and reports abort",
			"the abort helper can report 'continue' while a transaction is open and an error occurred", nil)
	}
}

func returnsError(call *ssa.Call) bool {
	res := call.Common().Signature().Results()
	return res.Len() > 0 && an.IsErrorType(res.At(res.Len()-1).Type())
}

func isAppendCall(in ssa.Instruction) bool {
	call, ok := in.(*ssa.Call)
	if !ok {
		return false
	}
	bi, ok := call.Common().Value.(*ssa.Builtin)
	return ok && bi.Name() == "append"
}

func closureAppends(fn *ssa.Function) bool {
	found := false
	an.Instrs(fn, func(in ssa.Instruction) {
		if isAppendCall(in) {
			found = true
		}
	})
	return found
}
