package props

import (
	"fmt"

	"golang.org/x/tools/go/ssa"

	"rqverif/checker/internal/an"
	"rqverif/checker/internal/core"
)

// alwaysNilError: v is the nil constant, or the error result of a call of a
// local closure all of whose returns give the nil constant for that result.
func alwaysNilError(v ssa.Value) bool {
	v = an.Unwrap(v)
	if an.IsNilConst(v) {
		return true
	}
	idx := -1
	if e, ok := v.(*ssa.Extract); ok {
		idx = e.Index
		v = e.Tuple
	}
	call, ok := v.(*ssa.Call)
	if !ok {
		return false
	}
	var g *ssa.Function
	switch f := call.Call.Value.(type) {
	case *ssa.MakeClosure:
		g, _ = f.Fn.(*ssa.Function)
	case *ssa.Function:
		if f.Parent() != nil {
			g = f
		}
	default:
		// a closure kept in a local
		an.Mentions(call.Call.Value, func(y ssa.Value) bool {
			if mc, isMC := y.(*ssa.MakeClosure); isMC && g == nil {
				g, _ = mc.Fn.(*ssa.Function)
			}
			return false
		})
	}
	if g == nil || len(g.Blocks) == 0 {
		return false
	}
	rets := an.Returns(g)
	if len(rets) == 0 {
		return false
	}
	for _, r := range rets {
		i := idx
		if i < 0 {
			i = len(r.Results) - 1
		}
		if i >= len(r.Results) || !an.IsNilConst(an.Unwrap(r.Results[i])) {
			return false
		}
	}
	return true
}

// returnedError: the error value a return hands back, looking through the
// result cells a function with a defer spills its results to (the last store
// to the cell in the return's own block).
func returnedError(r *ssa.Return) ssa.Value {
	if len(r.Results) == 0 {
		return nil
	}
	v := r.Results[len(r.Results)-1]
	u, ok := v.(*ssa.UnOp)
	if !ok {
		return v
	}
	cell, ok := u.X.(*ssa.Alloc)
	if !ok {
		return v
	}
	b := r.Block()
	for i := len(b.Instrs) - 1; i >= 0; i-- {
		if st, isSt := b.Instrs[i].(*ssa.Store); isSt && st.Addr == ssa.Value(cell) {
			return st.Val
		}
	}
	return v
}

func c13e(c *core.Ctx) {
	n := 0
	for _, h := range []struct{ fn, call string }{
		{"(*DB).executeStmtWithConn", "ExecContext"},
		{"(*DB).queryStmtWithConn", "QueryContext"},
	} {
		fn := c.Fn("C13.e", "db", h.fn)
		if fn == nil {
			continue
		}
		for i, ci := range an.AllCalls(fn, false) {
			cc := ci.Common()
			name := ""
			if cc.IsInvoke() {
				name = cc.Method.Name()
			} else if g := cc.StaticCallee(); g != nil {
				name = g.Name()
			}
			if name != h.call {
				continue
			}
			n++
			edges := an.SenseEdges(fn, an.ErrResult(ci), an.NotNil)
			if len(edges) == 0 {
				c.Bad("C13.e", "DOM", fmt.Sprintf("%s:%s#%d:failure-reported", h.fn, h.call, i+1), c.P.Pos(ci.Pos()), h.fn+" does not test the error of "+h.call, nil)
				continue
			}
			var starts []*ssa.BasicBlock
			for e := range edges {
				starts = append(starts, e.To)
			}
			hits := an.Ungated(an.CutSpec{Fn: fn, StartBlocks: starts, NoLift: true,
				GateInstr: func(in ssa.Instruction) bool {
					r, ok := in.(*ssa.Return)
					return ok && len(r.Results) > 0 && !alwaysNilError(returnedError(r))
				},
				Sink: func(in ssa.Instruction) bool {
					r, ok := in.(*ssa.Return)
					return ok && len(r.Results) > 0 && alwaysNilError(returnedError(r))
				}})
			c.Sites++
			c.Result(len(hits) == 0, "C13.e", "DOM", fmt.Sprintf("%s:%s#%d:failure-reported", h.fn, h.call, i+1), c.P.Pos(ci.Pos()),
				"a statement SQLite refused is reported through the helper's error result",
				h.fn+" can return a nil error after "+h.call+" failed (the failure is only written into the result): the executors' abort rule tests the error result, so inside a transaction the statements around the failed one are committed", nil)
		}
	}
	c.Count("statement executions in the statement helpers", n)
	c.Min("statement executions in the statement helpers", 2)
}
