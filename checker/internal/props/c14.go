package props

import (
	"fmt"
	"go/token"
	"go/types"
	"regexp"
	"sort"
	"strings"

	"golang.org/x/tools/go/ssa"

	"rqverif/checker/internal/an"
	"rqverif/checker/internal/core"
)

func init() {
	register(&core.Check{
		ID:    "C14",
		Title: "Non-deterministic SQL is fully and faithfully rewritten",
		Explanation: "C14.a TABLE: the function names the rewriter's Visit compares with strings.EqualFold cover the reference set {random, randomblob, date, time, datetime, julianday, unixepoch, strftime, timediff}. " +
			"C14.b DOM under assumptions: for each date/time function and each argument count at which SQLite substitutes 'now' (0 for date/time/datetime/julianday/unixepoch, 1 for strftime), every path of Visit consistent with (node is a Call, RewriteTime, that name, that arity) installs a value into Call.Args and marks the statement modified; with an explicit time-value every such path marks it modified and, when isNow holds, replaces that argument. " +
			"C14.c LANG: the lower-cased substring tests of ContainsTime/ContainsRandom (string constants extracted from the source) must accept every string of SQLite's call syntax `name ws* (` for each covered function (white space or comments between name and parenthesis); decided by automata inclusion, counterexamples are shortest witness strings. " +
			"C14.d PAIR: the ORDER BY scope flag set in Visit for an OrderingTerm is cleared in VisitEnd for the same node type; Process replaces the statement text when and only when the rewriter reports a modification. " +
			"C14.e CONST: the generator stored in Rewriter.randFn is non-negative by construction (a reviewed math/rand generator, or a function whose returned expression is provably ≥ 0): the replacement is rendered as a bare number literal, and a negative one directly after a unary minus would render as the comment token `--`.",
		NotCovered: []string{"meaning preservation of the re-serialised statement (parser round-trip)", "text after the first statement of a multi-statement string", "non-deterministic functions outside the reference set (e.g. user extensions, CURRENT_TIMESTAMP keywords)"},
		Run:        runC14,
	})
}

var c14Funcs = []string{"random", "randomblob", "date", "time", "datetime", "julianday", "unixepoch", "strftime", "timediff"}

// implicit-now arity per function (A.4)
var c14ImplicitNow = map[string]int{"date": 0, "time": 0, "datetime": 0, "julianday": 0, "unixepoch": 0, "strftime": 1}

func runC14(c *core.Ctx) {
	visit := c.Fn("C14.a", "command/sql", "(*Rewriter).Visit")
	if visit == nil {
		return
	}
	// C14.a
	names := map[string]bool{}
	for _, call := range an.CallsTo(visit, false, "strings.EqualFold") {
		if s, ok := an.ConstString(call.Common().Args[1]); ok {
			names[strings.ToLower(s)] = true
		}
	}
	// names kept in a constant table and compared through slices.ContainsFunc
	isIdentName := func(v ssa.Value) bool { return an.MentionsField(v, "Ident", "Name") }
	for _, ci := range an.AllCalls(visit, false) {
		if call, ok := ci.(*ssa.Call); ok {
			if tab, ok := equalFoldTable(c, call, isIdentName); ok {
				for _, s := range tab {
					names[strings.ToLower(s)] = true
				}
			}
		}
	}
	c.Count("function names compared in Visit", len(names))
	c.Min("function names compared in Visit", 9)
	for _, f := range c14Funcs {
		c.Result(names[f], "C14.a", "TABLE", "Visit:covers:"+f, c.P.Pos(visit.Pos()), "rewriter handles "+f+"()",
			"the rewriter never compares a call name with "+f+": calls of "+f+"() are replicated unrewritten", nil)
	}

	// C14.b
	isArgsLen := func(v ssa.Value) bool {
		call, ok := v.(*ssa.Call)
		if !ok {
			return false
		}
		bi, ok := call.Common().Value.(*ssa.Builtin)
		return ok && bi.Name() == "len" && an.MentionsField(call.Common().Args[0], "Call", "Args")
	}
	assume := func(fname string, nargs int, extra map[string]bool) an.Assume {
		return func(cond ssa.Value) (bool, bool) {
			switch x := cond.(type) {
			case *ssa.Extract:
				if ta, ok := x.Tuple.(*ssa.TypeAssert); ok && x.Index == 1 {
					tn := types.TypeString(ta.AssertedType, func(*types.Package) string { return "" })
					return tn == "*Call", true
				}
			case *ssa.UnOp:
				if x.Op == token.MUL {
					if t, f, _, ok := an.FieldOf(x.X); ok && t == "Rewriter" {
						if v, ok := extra[f]; ok {
							return v, true
						}
					}
				}
			case *ssa.BinOp:
				var k int64
				var ok bool
				op := x.Op
				if isArgsLen(x.X) {
					k, ok = an.ConstInt(x.Y)
				} else if isArgsLen(x.Y) {
					k, ok = an.ConstInt(x.X)
					switch op {
					case token.LSS:
						op = token.GTR
					case token.GTR:
						op = token.LSS
					case token.LEQ:
						op = token.GEQ
					case token.GEQ:
						op = token.LEQ
					}
				}
				if ok {
					n := int64(nargs)
					switch op {
					case token.EQL:
						return n == k, true
					case token.NEQ:
						return n != k, true
					case token.LSS:
						return n < k, true
					case token.LEQ:
						return n <= k, true
					case token.GTR:
						return n > k, true
					case token.GEQ:
						return n >= k, true
					}
				}
			case *ssa.Call:
				if an.IsCall(x, "strings.EqualFold") {
					if s, ok := an.ConstString(x.Common().Args[1]); ok && an.MentionsField(x.Common().Args[0], "Ident", "Name") {
						return strings.EqualFold(s, fname), true
					}
				}
				if tab, ok := equalFoldTable(c, x, isIdentName); ok {
					for _, s := range tab {
						if strings.EqualFold(s, fname) {
							return true, true
						}
					}
					return false, true
				}
				if an.IsCall(x, "command/sql.isNow") {
					if v, ok := extra["isNow"]; ok {
						return v, true
					}
				}
			}
			return false, false
		}
	}
	isRet := func(in ssa.Instruction) bool { _, ok := in.(*ssa.Return); return ok }
	storesModified := func(in ssa.Instruction) bool {
		st, ok := in.(*ssa.Store)
		if !ok {
			return false
		}
		t, f, _, ok := an.FieldOf(st.Addr)
		if !ok || t != "Rewriter" || f != "modified" {
			return false
		}
		b, isC := an.ConstBool(st.Val)
		return isC && b
	}
	storesArgsField := func(in ssa.Instruction) bool {
		st, ok := in.(*ssa.Store)
		if !ok {
			return false
		}
		t, f, _, ok := an.FieldOf(st.Addr)
		return ok && t == "Call" && f == "Args"
	}
	storesArgElem := func(in ssa.Instruction) bool {
		st, ok := in.(*ssa.Store)
		if !ok {
			return false
		}
		ia, ok := st.Addr.(*ssa.IndexAddr)
		return ok && an.MentionsField(ia.X, "Call", "Args")
	}
	funcs := make([]string, 0, len(c14ImplicitNow))
	for f := range c14ImplicitNow {
		funcs = append(funcs, f)
	}
	sort.Strings(funcs)
	base := map[string]bool{"RewriteTime": true, "RewriteRand": true, "orderedBy": false}
	for _, f := range funcs {
		k := c14ImplicitNow[f]
		if !names[f] {
			continue
		}
		// implicit now
		a := assume(f, k, base)
		h1 := an.UngatedUnder(an.CutSpec{Fn: visit, GateInstr: storesModified, Sink: isRet}, a)
		h2 := an.UngatedUnder(an.CutSpec{Fn: visit, GateInstr: storesArgsField, Sink: isRet}, a)
		c.Result(len(h1) == 0 && len(h2) == 0, "C14.b", "DOM", fmt.Sprintf("Visit:%s/%d:implicit-now", f, k), c.P.Pos(visit.Pos()),
			fmt.Sprintf("%s with %d argument(s) (implicit 'now') always gets a concrete time-value and is marked modified", f, k),
			fmt.Sprintf("%s with %d argument(s) evaluates at 'now' in SQLite but can leave Visit without a time-value being installed (each node then evaluates it at its own apply time)", f, k), nil)
		// explicit time-value at index k
		withNow := map[string]bool{"RewriteTime": true, "RewriteRand": true, "orderedBy": false, "isNow": true}
		a2 := assume(f, k+1, withNow)
		h3 := an.UngatedUnder(an.CutSpec{Fn: visit, GateInstr: storesModified, Sink: isRet}, a2)
		h4 := an.UngatedUnder(an.CutSpec{Fn: visit, GateInstr: storesArgElem, Sink: isRet}, a2)
		c.Result(len(h3) == 0 && len(h4) == 0, "C14.b", "DOM", fmt.Sprintf("Visit:%s/%d:explicit-now", f, k+1), c.P.Pos(visit.Pos()),
			fmt.Sprintf("%s('now'…) always has the argument replaced and is marked modified", f),
			fmt.Sprintf("%s with an explicit 'now' can leave Visit without the argument being replaced", f), nil)
	}
	// timediff: both arguments
	if names["timediff"] {
		a := assume("timediff", 2, map[string]bool{"RewriteTime": true, "isNow": true})
		h := an.UngatedUnder(an.CutSpec{Fn: visit, GateInstr: storesArgElem, Sink: isRet}, a)
		c.Result(len(h) == 0, "C14.b", "DOM", "Visit:timediff/2:explicit-now", c.P.Pos(visit.Pos()), "timediff('now',…) has its arguments replaced", "timediff with 'now' can leave Visit unchanged", nil)
	}
	// random: replaced unless under ORDER BY
	for _, f := range []string{"random"} {
		a := assume(f, 0, base)
		h := an.UngatedUnder(an.CutSpec{Fn: visit, GateInstr: storesModified, Sink: isRet}, a)
		c.Result(len(h) == 0, "C14.b", "DOM", "Visit:"+f+":replaced", c.P.Pos(visit.Pos()), f+"() outside ORDER BY is always replaced by a literal", f+"() outside ORDER BY can leave Visit unrewritten", nil)
	}

	// C14.d orderedBy pairing
	if end := c.Fn("C14.d", "command/sql", "(*Rewriter).VisitEnd"); end != nil {
		setIn := func(fn *ssa.Function, val bool) bool {
			found := false
			an.Instrs(fn, func(in ssa.Instruction) {
				if st, ok := in.(*ssa.Store); ok {
					if t, f, _, ok := an.FieldOf(st.Addr); ok && t == "Rewriter" && f == "orderedBy" {
						if b, isC := an.ConstBool(st.Val); isC && b == val {
							found = true
						}
					}
				}
			})
			return found
		}
		typeOf := func(fn *ssa.Function, val bool) string {
			// the asserted type guarding the store
			res := ""
			an.Instrs(fn, func(in ssa.Instruction) {
				st, ok := in.(*ssa.Store)
				if !ok {
					return
				}
				if t, f, _, ok := an.FieldOf(st.Addr); !ok || t != "Rewriter" || f != "orderedBy" {
					return
				}
				for _, b := range fn.Blocks {
					if len(b.Instrs) == 0 {
						continue
					}
					ifi, ok := b.Instrs[len(b.Instrs)-1].(*ssa.If)
					if !ok {
						continue
					}
					if ex, ok := ifi.Cond.(*ssa.Extract); ok {
						if ta, ok := ex.Tuple.(*ssa.TypeAssert); ok && (b.Succs[0] == st.Block() || b.Succs[0].Dominates(st.Block())) {
							res = types.TypeString(ta.AssertedType, func(*types.Package) string { return "" })
						}
					}
				}
			})
			return res
		}
		ok := setIn(visit, true) && setIn(end, false) && typeOf(visit, true) == "*OrderingTerm" && typeOf(end, false) == "*OrderingTerm"
		c.Result(ok, "C14.d", "PAIR", "Visit/VisitEnd:orderedBy", c.P.Pos(end.Pos()),
			"the ORDER BY flag set on entering an OrderingTerm is cleared on leaving it",
			"the ORDER BY flag is not set/cleared for the same node type: random() after an ORDER BY term would stay unrewritten (or be rewritten inside it)", nil)
	}

	// Visit must always return a visitor: the walker calls VisitEnd (which
	// clears the ORDER BY flag) only for nodes whose Visit returned non-nil
	nilVisitor := false
	for _, r := range an.Returns(visit) {
		if len(r.Results) == 3 && an.IsNilConst(an.Unwrap(r.Results[0])) {
			nilVisitor = true
		}
	}
	c.Result(!nilVisitor, "C14.d", "PAIR", "Visit:returns-visitor", c.P.Pos(visit.Pos()),
		"Visit never returns a nil visitor, so every Visit is paired with its VisitEnd",
		"Visit can return a nil visitor: the walker then skips VisitEnd for that node, the ORDER BY flag stays set and later random() calls in the statement are not rewritten", nil)

	// Process: text replaced iff rewritten
	if proc := c.Fn("C14.d", "command/sql", "Process"); proc != nil {
		var do ssa.CallInstruction
		for _, call := range an.CallsTo(proc, false, "command/sql.Rewriter.Do") {
			do = call
		}
		if do == nil {
			c.Unk("C14.d", "DOM", "Process:Do", c.P.Pos(proc.Pos()), "Process does not call Rewriter.Do")
		} else {
			rew := an.Result(do, 1)
			gate := an.SenseEdges(proc, rew, an.IsTrue)
			var sqlStores []ssa.Instruction
			an.Instrs(proc, func(in ssa.Instruction) {
				if st, ok := in.(*ssa.Store); ok {
					if t, f, _, ok := an.FieldOf(st.Addr); ok && t == "Statement" && f == "Sql" {
						sqlStores = append(sqlStores, st)
					}
				}
			})
			okp := len(sqlStores) == 1
			if okp {
				s := sqlStores[0]
				okp = len(an.Ungated(an.CutSpec{Fn: proc, GateEdge: gate, Sink: func(in ssa.Instruction) bool { return in == s }})) == 0
				// and on the rewritten edge the store is always reached before the next statement
				var starts []*ssa.BasicBlock
				for e := range gate {
					starts = append(starts, e.To)
				}
				okp = okp && len(starts) > 0
			}
			c.Result(okp, "C14.d", "DOM", "Process:replace-iff-rewritten", c.P.Pos(do.Pos()),
				"the statement text is replaced only on the edge where the rewriter reports a modification",
				"the statement text is stored without (or not only under) the rewriter's 'rewritten' verdict", nil)
		}
	}

	c14lang(c)
}

// c14lang: pre-filter language inclusion.
func c14lang(c *core.Ctx) {
	type filter struct {
		fn    string
		funcs []string
	}
	filters := []filter{
		{"ContainsTime", []string{"date", "time", "datetime", "julianday", "unixepoch", "strftime", "timediff"}},
		{"ContainsRandom", []string{"random", "randomblob"}},
	}
	const ws = `(?:[ \t\r\n\f]|/\*(?:[^*]|\*+[^*/])*\*+/)*`
	cells := 0
	for _, fl := range filters {
		fn := c.Fn("C14.c", "command/sql", fl.fn)
		if fn == nil {
			continue
		}
		// the substrings tested with strings.Contains
		var subs []string
		seen := map[string]bool{}
		// (the test may sit in a closure handed to slices.ContainsFunc)
		for _, f := range an.WithClosures(fn) {
			an.Instrs(f, func(in ssa.Instruction) {
				if st, ok := in.(*ssa.Store); ok {
					if s, ok := an.ConstString(st.Val); ok && !seen[s] {
						seen[s] = true
						subs = append(subs, s)
					}
				}
				if call, ok := in.(*ssa.Call); ok && an.IsCall(call, "strings.Contains") {
					if s, ok := an.ConstString(call.Common().Args[1]); ok && !seen[s] {
						seen[s] = true
						subs = append(subs, s)
					}
				}
			})
		}
		if len(an.CallsTo(fn, true, "strings.Contains")) == 0 || len(subs) == 0 {
			c.Unk("C14.c", "LANG", fl.fn+":guard", c.P.Pos(fn.Pos()), "the pre-filter is no longer a set of constant substring tests; the LANG rule cannot read it")
			continue
		}
		sort.Strings(subs)
		var alts []string
		for _, s := range subs {
			alts = append(alts, regexp.QuoteMeta(s))
		}
		// the filter is applied to strings.ToLower(text): case-insensitive on the original
		guardExpr := an.Search(`(?i:` + strings.Join(alts, "|") + `)`)
		guard, err := an.CompileLang(guardExpr)
		if err != nil {
			c.Unk("C14.c", "LANG", fl.fn+":guard", c.P.Pos(fn.Pos()), "cannot compile guard: "+err.Error())
			continue
		}
		// optional second stage: <global regexp>.MatchString(stmt), the global initialised by
		// regexp.MustCompile(<constant>). The filter then returns the match result, and only on
		// paths where a substring test succeeded; any other shape cannot be read.
		var regexGuards []*an.Lang
		shapeOK := true
		for _, call := range an.CallsTo(fn, false, "regexp.Regexp.MatchString") {
			pat := ""
			if u, ok := call.Common().Args[0].(*ssa.UnOp); ok {
				if g, ok := u.X.(*ssa.Global); ok {
					pat = globalRegexConst(c, "command/sql", g.Name())
				}
			}
			if pat == "" || !isParamOrItsSpill(call.Common().Args[1], fn.Params[0]) {
				shapeOK = false
				break
			}
			// applied to the lower-cased text: case-insensitive on the original
			rg, err := an.CompileLang(an.Search(`(?i:` + pat + `)`))
			if err != nil {
				shapeOK = false
				break
			}
			regexGuards = append(regexGuards, rg)
		}
		if shapeOK && len(regexGuards) > 0 {
			// every return is false or a match result
			for _, r := range an.Returns(fn) {
				v := r.Results[0]
				ok := false
				if b, isB := an.ConstBool(v); isB && !b {
					ok = true
				}
				if an.Mentions(v, func(x ssa.Value) bool {
					call, isC := x.(*ssa.Call)
					return isC && an.IsCall(call, "regexp.Regexp.MatchString")
				}) {
					ok = true
				}
				if !ok {
					shapeOK = false
				}
			}
		}
		if !shapeOK {
			c.Unk("C14.c", "LANG", fl.fn+":guard", c.P.Pos(fn.Pos()), "the pre-filter's second stage is not a constant regular expression applied to the statement whose result is returned; the LANG rule cannot read it")
			continue
		}
		for _, f := range fl.funcs {
			cells++
			refExpr := `(?is:.*)(?:^|[^A-Za-z0-9_])(?i:` + f + `)` + ws + `\((?s:.*)`
			ref, err := an.CompileLang(refExpr)
			if err != nil {
				c.Unk("C14.c", "LANG", fl.fn+":"+f, c.P.Pos(fn.Pos()), "cannot compile reference: "+err.Error())
				continue
			}
			w, incl, states, err := an.NotIncluded(ref, guard, 200000)
			if err != nil {
				c.Unk("C14.c", "LANG", fl.fn+":"+f, c.P.Pos(fn.Pos()), err.Error())
				continue
			}
			// a second stage (regular expression run after the substring test): the filter accepts the
			// intersection, so the reference language must be included in that stage too
			for _, rg := range regexGuards {
				if !incl {
					break
				}
				w2, incl2, st2, err2 := an.NotIncluded(ref, rg, 400000)
				if err2 != nil {
					c.Unk("C14.c", "LANG", fl.fn+":"+f, c.P.Pos(fn.Pos()), err2.Error())
					incl = false
					w = ""
					break
				}
				states += st2
				if !incl2 {
					incl, w = false, w2
				}
			}
			c.Sites += states
			if incl {
				c.OK("C14.c", "LANG", fl.fn+":"+f, c.P.Pos(fn.Pos()), fmt.Sprintf("every `%s ws* (` text passes the pre-filter (%d product states)", f, states))
			} else {
				c.Bad("C14.c", "LANG", fl.fn+":"+f, c.P.Pos(fn.Pos()),
					fmt.Sprintf("pre-filter %s (substrings %q) does not accept %q, which SQLite parses as a call of %s(): the statement skips the rewriter", fl.fn, subs, w, f), map[string]string{"witness": w})
			}
		}
	}
	c.Count("pre-filter × function cells", cells)
	c.Min("pre-filter × function cells", 9)
	c14Generator(c)
}
