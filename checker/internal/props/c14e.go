package props

import (
	"go/ast"
	"go/constant"
	"go/token"
	"go/types"
	"strings"

	"golang.org/x/tools/go/ssa"

	"rqverif/checker/internal/an"
	"rqverif/checker/internal/core"
)

// generators known to return values >= 0
var nonNegGenerators = map[string]bool{
	"math/rand/v2.Int64": true, "math/rand/v2.Int64N": true, "math/rand/v2.Int": true, "math/rand/v2.IntN": true,
	"math/rand/v2.Int32": true, "math/rand/v2.Int32N": true, "math/rand/v2.N": false,
	"math/rand.Int63": true, "math/rand.Int63n": true, "math/rand.Int31": true, "math/rand.Int31n": true, "math/rand.Int": true, "math/rand.Intn": true,
}

// nonNegInt: v can be shown never to be negative by construction.
func nonNegInt(v ssa.Value, depth int) bool {
	if depth > 4 {
		return false
	}
	switch x := v.(type) {
	case *ssa.Const:
		k, ok := an.ConstInt(x)
		return ok && k >= 0
	case *ssa.Call:
		if callee := x.Call.StaticCallee(); callee != nil {
			if callee.Pkg != nil {
				if nonNegGenerators[callee.Pkg.Pkg.Path()+"."+callee.Name()] {
					return true
				}
			}
			return fnReturnsNonNeg(callee, depth+1)
		}
		return false
	case *ssa.Convert:
		from, ok1 := x.X.Type().Underlying().(*types.Basic)
		to, ok2 := x.Type().Underlying().(*types.Basic)
		if !ok1 || !ok2 {
			return false
		}
		if from.Info()&types.IsUnsigned != 0 {
			// unsigned → signed keeps the value only if the target is wider
			return sizeOfBasic(from) < sizeOfBasic(to) && to.Info()&types.IsUnsigned == 0
		}
		return nonNegInt(x.X, depth+1)
	case *ssa.BinOp:
		switch x.Op {
		case token.AND:
			return nonNegInt(x.X, depth+1) || nonNegInt(x.Y, depth+1)
		case token.REM, token.QUO, token.SHR:
			return nonNegInt(x.X, depth+1) && (x.Op == token.SHR || nonNegInt(x.Y, depth+1))
		}
		return false
	case *ssa.Phi:
		for _, e := range x.Edges {
			if !nonNegInt(e, depth+1) {
				return false
			}
		}
		return true
	}
	return false
}

func sizeOfBasic(b *types.Basic) int {
	switch b.Kind() {
	case types.Int8, types.Uint8:
		return 1
	case types.Int16, types.Uint16:
		return 2
	case types.Int32, types.Uint32:
		return 4
	}
	return 8
}

func fnReturnsNonNeg(fn *ssa.Function, depth int) bool {
	if fn.Pkg != nil && nonNegGenerators[fn.Pkg.Pkg.Path()+"."+fn.Name()] {
		return true
	}
	if len(fn.Blocks) == 0 {
		return false
	}
	rets := an.Returns(fn)
	if len(rets) == 0 {
		return false
	}
	for _, r := range rets {
		if len(r.Results) != 1 || !nonNegInt(r.Results[0], depth) {
			return false
		}
	}
	return true
}

// c14Generator: the value substituted for RANDOM() is rendered as a bare
// number literal; directly after a unary minus a negative value would render
// as "--…", which SQLite reads as a comment. The generator must therefore be
// non-negative by construction.
func c14Generator(c *core.Ctx) {
	n := 0
	sp := c.P.SPkg("command/sql")
	if sp == nil {
		return
	}
	for _, fn := range pkgFuncs(sp) {
		an.Instrs(fn, func(in ssa.Instruction) {
			st, ok := in.(*ssa.Store)
			if !ok || !an.LoadedField(st.Addr, "Rewriter", "randFn") {
				return
			}
			n++
			c.Sites++
			ok2 := false
			desc := an.Canon(st.Val)
			switch g := st.Val.(type) {
			case *ssa.Function:
				ok2 = fnReturnsNonNeg(g, 0)
				desc = core.FuncName(g)
				if g.Pkg != nil && !strings.Contains(desc, ".") {
					desc = g.Pkg.Pkg.Path() + "." + g.Name()
				}
			case *ssa.MakeClosure:
				if f, isF := g.Fn.(*ssa.Function); isF {
					ok2 = fnReturnsNonNeg(f, 0)
					desc = core.FuncName(f)
				}
			}
			c.Result(ok2, "C14.e", "CONST", "Rewriter.randFn:non-negative:"+core.FuncName(fn), c.P.Pos(st.Pos()),
				"the generator substituted for RANDOM() ("+desc+") never returns a negative value",
				"the generator substituted for RANDOM() ("+desc+") can return a negative value; the rewriter renders it as a bare literal, so `-random()` becomes `--<digits>`, which SQLite reads as a comment: the rewritten statement is not the statement the client sent", nil)
		})
	}
	c.Count("assignments of the RANDOM() generator", n)
	c.Min("assignments of the RANDOM() generator", 1)
	// the literal is built from the generator's value by integer formatting
	if visit := c.Fn("C14.e", "command/sql", "(*Rewriter).Visit"); visit != nil {
		ok := false
		an.Instrs(visit, func(in ssa.Instruction) {
			st, isSt := in.(*ssa.Store)
			if !isSt || !an.LoadedField(st.Addr, "NumberLit", "Value") {
				return
			}
			if an.MentionsCall(st.Val, "strconv.Itoa", "strconv.FormatInt") && an.Mentions(st.Val, func(x ssa.Value) bool {
				call, isC := x.(*ssa.Call)
				return isC && an.LoadedField(call.Call.Value, "Rewriter", "randFn")
			}) {
				ok = true
			}
		})
		c.Result(ok, "C14.e", "CONST", "Visit:random-literal-from-generator", c.P.Pos(visit.Pos()),
			"the literal replacing RANDOM() is the decimal rendering of one generator call", "the literal replacing RANDOM() is no longer the decimal rendering of one call of Rewriter.randFn", nil)
	}
}

// globalRegexConst returns the constant pattern of a package-level variable
// initialised by regexp.MustCompile(<constant expression>), or "".
func globalRegexConst(c *core.Ctx, pkgRel, name string) string {
	pk := c.P.Pkg(pkgRel)
	if pk == nil {
		return ""
	}
	out := ""
	for _, f := range pk.Syntax {
		ast.Inspect(f, func(n ast.Node) bool {
			vs, ok := n.(*ast.ValueSpec)
			if !ok {
				return true
			}
			for i, nm := range vs.Names {
				if nm.Name != name || i >= len(vs.Values) {
					continue
				}
				call, ok := vs.Values[i].(*ast.CallExpr)
				if !ok || len(call.Args) != 1 {
					continue
				}
				if sel, ok := call.Fun.(*ast.SelectorExpr); !ok || sel.Sel.Name != "MustCompile" {
					continue
				}
				if tv, ok := pk.TypesInfo.Types[call.Args[0]]; ok && tv.Value != nil && tv.Value.Kind() == constant.String {
					out = constant.StringVal(tv.Value)
				}
			}
			return true
		})
	}
	return out
}
