package props

import (
	"fmt"
	"go/ast"
	"go/constant"
	"go/token"
	"sort"
	"strings"

	"golang.org/x/tools/go/ssa"

	"rqverif/checker/internal/an"
	"rqverif/checker/internal/core"
)

func init() {
	register(&core.Check{
		ID:    "C15",
		Title: "No request can change rqlite-critical SQLite settings",
		Explanation: "C15.a DOM: every Store method that takes a client *proto.…Request and reaches raft.Apply or the database executes PragmaCheckRequest.Check() first and proceeds only on its nil edge; Check tests every statement with IsBreakingPragma. " +
			"C15.b LANG: the regular expressions of db.BreakingPragmas (extracted from the source as constants, applied unanchored as MatchString does) must accept every string of a reference grammar of SQLite PRAGMA texts. The grammar is split into cells — pragma × {assignment, call syntax, after ';', after a line comment, after a block comment, bare schema, quoted/back-quoted/bracketed schema} — each cell being an infinite language (any case, white space, value); inclusion is decided per cell by automata product and a failing cell reports a shortest witness text.",
		NotCovered: []string{"settings changed by means other than PRAGMA text (ATTACH, extensions)", "SQL texts whose ';' sits inside a string literal (the reference cells use statement-initial positions only)", "execution of the witness texts on SQLite (done once during triage, see DESIGN.md)"},
		Run:        runC15,
	})
}

func runC15(c *core.Ctx) {
	c15dom(c)
	c15lang(c)
}

func c15dom(c *core.Ctx) {
	sp := c.P.SPkg("store")
	if sp == nil {
		c.Unk("C15.a", "DOM", "store", "", "package store not loaded")
		return
	}
	entry := 0
	for _, fn := range pkgFuncs(sp) {
		if fn.Parent() != nil || fn.Signature.Recv() == nil || !strings.Contains(fn.Signature.Recv().Type().String(), "store.Store") {
			continue
		}
		// takes a *proto.ExecuteRequest / QueryRequest / ExecuteQueryRequest
		var req *ssa.Parameter
		for _, p := range fn.Params[1:] {
			ts := p.Type().String()
			if strings.HasSuffix(ts, "command/proto.ExecuteRequest") || strings.HasSuffix(ts, "command/proto.QueryRequest") || strings.HasSuffix(ts, "command/proto.ExecuteQueryRequest") {
				req = p
			}
		}
		if req == nil || !ast.IsExported(fn.Name()) {
			continue
		}
		// reasoned exception: classifies statements with StmtReadOnly (prepare
		// only) and executes nothing — as long as it reaches no execution API
		if fn.Name() == "RORWCount" {
			execs := 0
			an.Instrs(fn, func(in ssa.Instruction) {
				if ci, ok := in.(ssa.CallInstruction); ok {
					id := an.CalleeID(ci)
					if (strings.HasPrefix(id, "db.") && id != "db.SwappableDB.StmtReadOnly") || strings.HasPrefix(id, "github.com/hashicorp/raft.") {
						execs++
					}
				}
			})
			if execs == 0 {
				c.OK("C15.a", "DOM", core.FuncName(fn)+":classifier-only", c.P.Pos(fn.Pos()), "only prepares statements (StmtReadOnly); nothing is executed or logged")
				continue
			}
		}
		entry++
		c.Touch(fn)
		name := core.FuncName(fn)
		checks := an.CallsTo(fn, false, "store.PragmaCheckRequest.Check")
		if len(checks) == 0 {
			c.Bad("C15.a", "DOM", name+":pragma-check", c.P.Pos(fn.Pos()), name+" accepts a client request but never runs the pragma check", nil)
			continue
		}
		var errs []ssa.Value
		for _, ch := range checks {
			errs = append(errs, an.ErrResult(ch)...)
		}
		gate := an.SenseEdges(fn, errs, an.IsNil)
		sinks := 0
		hits := an.Ungated(an.CutSpec{Fn: fn, GateEdge: gate, Sink: func(in ssa.Instruction) bool {
			ci, ok := in.(ssa.CallInstruction)
			if !ok {
				return false
			}
			id := an.CalleeID(ci)
			if strings.HasPrefix(id, "github.com/hashicorp/raft.Raft.Apply") || strings.HasPrefix(id, "db.SwappableDB.") || strings.HasPrefix(id, "db.DB.") {
				sinks++
				return true
			}
			// other Store methods that receive the same request
			if strings.HasPrefix(id, "store.Store.") {
				for _, a := range ci.Common().Args {
					if an.MentionsValue(a, req) {
						sinks++
						return true
					}
				}
			}
			return false
		}})
		c.Sites += sinks
		if len(hits) == 0 {
			c.OK("C15.a", "DOM", name+":pragma-check", c.P.Pos(checks[0].Pos()), fmt.Sprintf("%d use(s) of the request only after Check() returned nil", sinks))
		}
		for _, h := range hits {
			c.Bad("C15.a", "DOM", name+":pragma-check:"+an.CalleeID(h.Instr.(ssa.CallInstruction)), c.P.Pos(h.Instr.Pos()),
				"the request reaches the log or the database on a path that has not passed the pragma check", an.PathString(fn, h.Path, c.P.Pos))
		}
	}
	c.Count("Store entry points taking a client request", entry)
	c.Min("Store entry points taking a client request", 3)

	// Check iterates all statements and rejects on IsBreakingPragma
	if fn := c.Fn("C15.a", "store", "(*PragmaCheckRequest).Check"); fn != nil {
		calls := an.CallsTo(fn, false, "db.IsBreakingPragma")
		ok := len(calls) == 1
		if ok {
			// the argument is the Sql of the ranged statement; the true edge returns an error
			ok = an.MentionsField(calls[0].Common().Args[0], "Statement", "Sql")
			te := an.SenseEdges(fn, an.Result(calls[0], 0), an.IsTrue)
			var starts []*ssa.BasicBlock
			for e := range te {
				starts = append(starts, e.To)
			}
			ok = ok && len(starts) > 0
			for _, r := range an.SuccessReturns(fn) {
				rr := r
				if len(starts) > 0 && len(an.Ungated(an.CutSpec{Fn: fn, StartBlocks: starts, Sink: func(in ssa.Instruction) bool { return in == ssa.Instruction(rr) }})) > 0 {
					ok = false
				}
			}
			// loop over p.Statements
			h, _, _ := stmtLoopOf(fn, "PragmaCheckRequest")
			ok = ok && h != nil
			// no statement is skipped: from the start of the loop body every path to the next
			// iteration (or out of the loop) passes the test
			if ok && h != nil && len(h.Succs) > 0 {
				body := h.Succs[0]
				ci := calls[0].(ssa.Instruction)
				hits := an.Ungated(an.CutSpec{Fn: fn, StartBlocks: []*ssa.BasicBlock{body},
					GateInstr: func(in ssa.Instruction) bool { return in == ci },
					Sink: func(in ssa.Instruction) bool {
						if len(h.Instrs) > 0 && in == h.Instrs[0] {
							return true
						}
						_, isR := in.(*ssa.Return)
						return isR
					}})
				if len(hits) > 0 {
					ok = false
				}
			}
		}
		c.Result(ok, "C15.a", "DOM", "PragmaCheckRequest.Check:all-statements", c.P.Pos(fn.Pos()),
			"Check ranges over every statement and returns an error as soon as IsBreakingPragma holds",
			"Check does not test every statement's text with IsBreakingPragma, or can return nil after a positive test", nil)
	}
	if fn := c.Fn("C15.a", "db", "IsBreakingPragma"); fn != nil {
		// returns true iff some regexp of BreakingPragmas matches
		n := len(an.CallsTo(fn, false, "regexp.Regexp.MatchString"))
		rangeOK := false
		an.Instrs(fn, func(in ssa.Instruction) {
			if r, ok := in.(*ssa.Range); ok {
				if u, ok := r.X.(*ssa.UnOp); ok {
					if g, ok := u.X.(*ssa.Global); ok && g.Name() == "BreakingPragmas" {
						rangeOK = true
					}
				}
			}
		})
		c.Result(n == 1 && rangeOK, "C15.a", "DOM", "IsBreakingPragma:any-match", c.P.Pos(fn.Pos()),
			"IsBreakingPragma ranges over BreakingPragmas with MatchString (unanchored)", "IsBreakingPragma no longer applies every BreakingPragmas expression with MatchString", nil)
	}
}

// stmtLoopOf finds a range loop over field Statements of the named type.
func stmtLoopOf(fn *ssa.Function, typ string) (header, body, done *ssa.BasicBlock) {
	for _, b := range fn.Blocks {
		if !isLoopHeader(b) {
			continue
		}
		ok := false
		// len is computed in the preheader (range loop) or in the header itself (index loop)
		for _, p := range append([]*ssa.BasicBlock{b}, b.Preds...) {
			for _, in := range p.Instrs {
				if call, isCall := in.(*ssa.Call); isCall {
					if bi, isB := call.Common().Value.(*ssa.Builtin); isB && bi.Name() == "len" && an.MentionsField(call.Common().Args[0], typ, "Statements") {
						ok = true
					}
				}
			}
		}
		if ok && len(b.Succs) == 2 {
			return b, b.Succs[0], b.Succs[1]
		}
	}
	return nil, nil, nil
}

// breakingPragmaExprs extracts the regular-expression constants of the
// BreakingPragmas map literal from the typed syntax.
func breakingPragmaExprs(c *core.Ctx) (map[string]string, token.Pos) {
	pk := c.P.Pkg("db")
	if pk == nil {
		return nil, token.NoPos
	}
	out := map[string]string{}
	var pos token.Pos
	for _, f := range pk.Syntax {
		ast.Inspect(f, func(n ast.Node) bool {
			vs, ok := n.(*ast.ValueSpec)
			if !ok || len(vs.Names) != 1 || vs.Names[0].Name != "BreakingPragmas" || len(vs.Values) != 1 {
				return true
			}
			cl, ok := vs.Values[0].(*ast.CompositeLit)
			if !ok {
				return false
			}
			pos = vs.Pos()
			for _, el := range cl.Elts {
				kv, ok := el.(*ast.KeyValueExpr)
				if !ok {
					continue
				}
				key := ""
				if tv, ok := pk.TypesInfo.Types[kv.Key]; ok && tv.Value != nil {
					key = constant.StringVal(tv.Value)
				}
				call, ok := kv.Value.(*ast.CallExpr)
				if !ok || len(call.Args) != 1 {
					out[key] = ""
					continue
				}
				if tv, ok := pk.TypesInfo.Types[call.Args[0]]; ok && tv.Value != nil && tv.Value.Kind() == constant.String {
					out[key] = constant.StringVal(tv.Value)
				} else {
					out[key] = ""
				}
			}
			return false
		})
	}
	return out, pos
}

func c15lang(c *core.Ctx) {
	exprs, pos := breakingPragmaExprs(c)
	if len(exprs) == 0 {
		c.Unk("C15.b", "LANG", "BreakingPragmas", "", "db.BreakingPragmas is no longer a map literal of regexp.MustCompile(<constant>) — the guard cannot be read as a regular language; the rule must be redesigned")
		return
	}
	var all []string
	keys := make([]string, 0, len(exprs))
	for k := range exprs {
		keys = append(keys, k)
	}
	sort.Strings(keys)
	for _, k := range keys {
		if exprs[k] == "" {
			c.Unk("C15.b", "LANG", "BreakingPragmas:"+k, c.P.Pos(pos), "expression is not a constant")
			return
		}
		all = append(all, exprs[k])
	}
	// "some expression matches somewhere" as one automaton
	guards, err := an.CompileLang(an.SearchAny(all))
	if err != nil {
		c.Unk("C15.b", "LANG", "BreakingPragmas", c.P.Pos(pos), "cannot compile: "+err.Error())
		return
	}
	c.Count("BreakingPragmas expressions", len(all))
	c.Min("BreakingPragmas expressions", 5)

	const (
		// SQL white space between tokens includes comments
		// (comment bodies are restricted to letters and blanks: a sublanguage
		// of SQLite's, which keeps the product automaton small; a guard that
		// misses a comment form misses it for these bodies too)
		ws   = `(?:[ \t\r\n\f]|--[a-z ]*\n|/\*[a-z ]*\*/)`
		val  = `(?:0|1|2|off|on|delete|truncate|full|normal|1000)`
		bare = `(?:main|temp|[a-z_][a-z0-9_]*)`
	)
	type cell struct{ name, prefix, schema, form string }
	// forms per pragma
	assign := ws + `*=` + ws + `*` + val
	call := ws + `*\(` + ws + `*` + val + ws + `*\)`
	pragmas := []struct {
		name  string
		forms map[string]string
	}{
		{"journal_mode", map[string]string{"assign": assign, "call": call}},
		{"wal_autocheckpoint", map[string]string{"assign": assign, "call": call}},
		{"synchronous", map[string]string{"assign": assign, "call": call}},
		{"query_only", map[string]string{"assign": assign, "call": call}},
		{"wal_checkpoint", map[string]string{"bare": ``, "call": call}},
	}
	prefixes := map[string]string{
		"start":         ws + `*`,
		"after-semi":    `[a-z ]*;` + ws + `*`,
		"line-comment":  ws + `*--[a-z ]*\n` + ws + `*`,
		"block-comment": ws + `*/\*[a-z ]*\*/` + ws + `*`,
	}
	schemas := map[string]string{
		"none":      ``,
		"bare":      bare + ws + `*\.` + ws + `*`,
		"dquoted":   `"[a-z]+"` + ws + `*\.` + ws + `*`,
		"squoted":   `'[a-z]+'` + ws + `*\.` + ws + `*`,
		"backquote": "`[a-z]+`" + ws + `*\.` + ws + `*`,
		"bracket":   `\[[a-z]+\]` + ws + `*\.` + ws + `*`,
	}
	cells := 0
	for _, p := range pragmas {
		var forms []string
		for f := range p.forms {
			forms = append(forms, f)
		}
		sort.Strings(forms)
		baseForm := forms[0] // "assign" or "bare"
		type variant struct{ prefix, schema, form string }
		var vs []variant
		vs = append(vs, variant{"start", "none", baseForm})
		for _, f := range forms[1:] {
			vs = append(vs, variant{"start", "none", f})
		}
		for _, pr := range []string{"after-semi", "line-comment", "block-comment"} {
			vs = append(vs, variant{pr, "none", baseForm})
		}
		for _, s := range []string{"bare", "dquoted", "squoted", "backquote", "bracket"} {
			vs = append(vs, variant{"start", s, baseForm})
		}
		for _, v := range vs {
			cells++
			name := fmt.Sprintf("%s:%s:%s:%s", p.name, v.form, v.prefix, v.schema)
			refExpr := `(?i:` + prefixes[v.prefix] + `PRAGMA` + ws + `+` + schemas[v.schema] + p.name + p.forms[v.form] + ws + `*;?` + ws + `*)`
			ref, err := an.CompileLang(refExpr)
			if err != nil {
				c.Unk("C15.b", "LANG", name, c.P.Pos(pos), "reference does not compile: "+err.Error())
				continue
			}
			w, incl, states, err := an.NotIncluded(ref, guards, 200000)
			if err != nil {
				c.Unk("C15.b", "LANG", name, c.P.Pos(pos), err.Error())
				continue
			}
			c.Sites += states
			if incl {
				c.OK("C15.b", "LANG", name, c.P.Pos(pos), fmt.Sprintf("every text of this form is rejected by BreakingPragmas (%d product states)", states))
			} else {
				c.Bad("C15.b", "LANG", name, c.P.Pos(pos),
					fmt.Sprintf("BreakingPragmas does not match %q: the request passes the pragma check and SQLite executes the PRAGMA", w), map[string]string{"witness": w, "reference": refExpr})
			}
		}
	}
	c.Count("PRAGMA grammar cells", cells)
	c.Min("PRAGMA grammar cells", 50)
}
