package props

import (
	"fmt"
	"go/token"
	"go/types"
	"strings"

	"golang.org/x/tools/go/ssa"

	"rqverif/checker/internal/an"
	"rqverif/checker/internal/core"
)

func init() {
	register(&core.Check{
		ID:    "C16",
		Title: "Read consistency levels behave as documented",
		Explanation: "C16.a DECIDE: store.IsStaleRead's decision table over {freshness==0, since-contact vs freshness, strict, appendedAt.IsZero, fsmIndex vs commitIndex, (fsmUpdate−appendedAt) vs freshness} — 216 valuations including the boundary (equal) cases — equals the statement's; isStaleRead returns false on the leader and passes last-contact, FSM-update time, appended-at time, FSM index, command commit index, freshness and strict in that order. " +
			"C16.b DECIDE: the complete decision structure of Store.Query and Store.Request is interpreted for every valuation of {requested level (5), voter, leader, ready, stale, linearizable-wait result (ok / strong-needed / error), apply result (ok / not leader / leadership lost / other), read-write and read-only counts} with every other error condition fixed to success; the sequence of effects (term capture, linearizable wait, raft.Apply with its command type, strong-read-term store, local read) and the returned error are compared with the statement's dispatch: AUTO ⇒ WEAK on voters / NONE otherwise; WEAK ⇒ leader test before the local read; NONE ⇒ staleness test before the local read; LINEARIZABLE ⇒ quorum-verified wait before the local read, STRONG only on ErrStrongReadNeeded; STRONG ⇒ through the log. " +
			"C16.c CONST: the two clocks the strict staleness test compares are written by fsmApply as the statement means them — fsmUpdateTime is a time.Now() read inside the deferred bookkeeping (after the entry was applied), appendedAtTime is the applied entry's own AppendedAt. " +
			"C16.d TABLE: the HTTP getters that feed the read request (Level, Freshness, FreshnessStrict, LinearizableTimeout) each read their own request parameter and nothing else.",
		NotCovered: []string{"timing on live clusters (how stale a follower really is)", "waitForLinearizableRead's internal ordering is C02.a", "hashicorp/raft's LastContact/State semantics (trusted)"},
		Run:        runC16,
	})
}

const (
	lvNONE   = 0
	lvWEAK   = 1
	lvSTRONG = 2
	lvAUTO   = 3
	lvLIN    = 4
)

var lvName = map[int]string{0: "NONE", 1: "WEAK", 2: "STRONG", 3: "AUTO", 4: "LINEARIZABLE"}

// levelCond matches comparisons of a consistency level with a constant. The
// level operand is resolved along the path: a constant (assigned earlier) is
// compared directly, a load of the request's Level field reads variable
// "level".
func levelCond(R *an.Resolver, reqType string) an.CondMatcher {
	return func(cond ssa.Value) (func(an.Val) bool, bool) {
		b, ok := cond.(*ssa.BinOp)
		if !ok || (b.Op != token.EQL && b.Op != token.NEQ) {
			return nil, false
		}
		isLevelT := func(v ssa.Value) bool {
			n, ok := v.Type().(*types.Named)
			return ok && n.Obj().Name() == "ConsistencyLevel"
		}
		if !isLevelT(b.X) || !isLevelT(b.Y) {
			return nil, false
		}
		x, y := R.Resolve(b.X), R.Resolve(b.Y)
		kx, okx := an.ConstInt(x)
		ky, oky := an.ConstInt(y)
		eq := b.Op == token.EQL
		switch {
		case okx && oky:
			return func(an.Val) bool { return (kx == ky) == eq }, true
		case oky && an.LoadedField(x, reqType, "Level"):
			return func(v an.Val) bool { return (int64(v["level"]) == ky) == eq }, true
		case okx && an.LoadedField(y, reqType, "Level"):
			return func(v an.Val) bool { return (int64(v["level"]) == kx) == eq }, true
		}
		return nil, false
	}
}

// stateLeaderCond matches `s.raft.State() ==/!= raft.Leader` and bools
// derived from it (isLeader := …).
func stateLeaderCond(R *an.Resolver) an.CondMatcher {
	return func(cond ssa.Value) (func(an.Val) bool, bool) {
		cond = R.Resolve(cond)
		b, ok := cond.(*ssa.BinOp)
		if !ok || (b.Op != token.EQL && b.Op != token.NEQ) {
			return nil, false
		}
		var k int64
		var kok bool
		if callResult(b.X, -1, "github.com/hashicorp/raft.Raft.State") {
			k, kok = an.ConstInt(b.Y)
		} else if callResult(b.Y, -1, "github.com/hashicorp/raft.Raft.State") {
			k, kok = an.ConstInt(b.X)
		}
		if !kok || k != 2 { // raft.Leader
			return nil, false
		}
		eq := b.Op == token.EQL
		return func(v an.Val) bool { return (v["leader"] == 1) == eq }, true
	}
}

func runC16(c *core.Ctx) {
	c16IsStale(c)
	c16isStale(c)
	c16Query(c, "C16.b")
	c16Request(c, "C16.b")
	c16c(c)
}

func c16IsStale(c *core.Ctx) {
	fn := c.Fn("C16.a", "store", "IsStaleRead")
	if fn == nil {
		return
	}
	if len(fn.Params) != 7 {
		c.Unk("C16.a", "DECIDE", "IsStaleRead:signature", c.P.Pos(fn.Pos()), "IsStaleRead no longer has 7 parameters; the reference table must be re-derived")
		return
	}
	p := func(i int) func(ssa.Value) bool { return isParamN(fn, i) }
	// time.Since(contact).Nanoseconds()
	sinceContact := func(v ssa.Value) bool {
		call, ok := an.Unwrap(v).(*ssa.Call)
		if !ok || !an.IsCall(call, "time.Duration.Nanoseconds") {
			return false
		}
		inner, ok := call.Common().Args[0].(*ssa.Call)
		return ok && an.IsCall(inner, "time.Since") && p(0)(inner.Common().Args[0])
	}
	lag := func(v ssa.Value) bool {
		call, ok := an.Unwrap(v).(*ssa.Call)
		if !ok || !an.IsCall(call, "time.Duration.Nanoseconds") {
			return false
		}
		inner, ok := call.Common().Args[0].(*ssa.Call)
		return ok && an.IsCall(inner, "time.Time.Sub") && p(1)(inner.Common().Args[0]) && p(2)(inner.Common().Args[1])
	}
	spec := an.DecideSpec{
		Fn:   fn,
		Vars: []an.Var{an.Var{Name: "freshnessSet", Values: []int{0, 1}}, an.Sign("contactVsFresh"), an.Bool("strict"), an.Bool("appendedZero"), an.Sign("fsmVsCommit"), an.Sign("lagVsFresh")},
		Conds: []an.CondMatcher{
			func(cond ssa.Value) (func(an.Val) bool, bool) {
				ev, ok := an.CmpCond("f0", p(5), an.IsConstInt(0))(cond)
				if !ok {
					return nil, false
				}
				// freshnessSet=1 means freshness > 0
				return func(v an.Val) bool { return ev(an.Val{"f0": v["freshnessSet"]}) }, true
			},
			an.CmpCond("contactVsFresh", sinceContact, p(5)),
			an.BoolCond("strict", p(6)),
			an.BoolCond("appendedZero", func(v ssa.Value) bool {
				call, ok := v.(*ssa.Call)
				return ok && an.IsCall(call, "time.Time.IsZero") && p(2)(call.Common().Args[0])
			}),
			an.CmpCond("fsmVsCommit", p(3), p(4)),
			an.CmpCond("lagVsFresh", lag, p(5)),
		},
		Ref: func(v an.Val) string {
			switch {
			case v["freshnessSet"] == 0:
				return " => false"
			case v["contactVsFresh"] > 0:
				return " => true"
			case v["strict"] == 0:
				return " => false"
			case v["appendedZero"] == 1:
				return " => false"
			case v["fsmVsCommit"] == 0:
				return " => false"
			case v["lagVsFresh"] > 0:
				return " => true"
			}
			return " => false"
		},
	}
	reportDecide(c, "C16.a", "IsStaleRead", c.P.Pos(fn.Pos()), an.Decide(spec, c.P.Pos))
}

func c16isStale(c *core.Ctx) {
	fn := c.Fn("C16.a", "store", "(*Store).isStaleRead")
	if fn == nil {
		return
	}
	R := &an.Resolver{}
	var isr *ssa.Call
	for _, call := range an.CallsTo(fn, false, "store.IsStaleRead") {
		isr = call.(*ssa.Call)
	}
	spec := an.DecideSpec{
		Fn: fn, R: R,
		Vars:  []an.Var{an.Bool("leader")},
		Conds: []an.CondMatcher{stateLeaderCond(R)},
		Ret: func(r *ssa.Return, resolve func(ssa.Value) ssa.Value) string {
			v := resolve(r.Results[0])
			if b, ok := an.ConstBool(v); ok {
				return fmt.Sprint(b)
			}
			if call, ok := v.(*ssa.Call); ok && an.IsCall(call, "store.IsStaleRead") {
				return "IsStaleRead"
			}
			return an.Canon(v)
		},
		Ref: func(v an.Val) string {
			if v["leader"] == 1 {
				return " => false"
			}
			return " => IsStaleRead"
		},
	}
	reportDecide(c, "C16.a", "(*Store).isStaleRead", c.P.Pos(fn.Pos()), an.Decide(spec, c.P.Pos))
	if isr == nil {
		c.Bad("C16.a", "TABLE", "isStaleRead:args", c.P.Pos(fn.Pos()), "isStaleRead does not call IsStaleRead", nil)
		return
	}
	a := isr.Common().Args
	want := []func(ssa.Value) bool{
		func(v ssa.Value) bool { return callResult(v, -1, "github.com/hashicorp/raft.Raft.LastContact") },
		func(v ssa.Value) bool { return an.MentionsField(v, "Store", "fsmUpdateTime") },
		func(v ssa.Value) bool { return an.MentionsField(v, "Store", "appendedAtTime") },
		func(v ssa.Value) bool { return an.MentionsField(v, "Store", "fsmIdx") },
		func(v ssa.Value) bool { return callResult(v, -1, "store.NodeTransport.CommandCommitIndex") },
		isParamN(fn, 1),
		isParamN(fn, 2),
	}
	ok := len(a) == len(want)
	bad := ""
	for i := 0; ok && i < len(want); i++ {
		if !want[i](a[i]) {
			ok = false
			bad = fmt.Sprintf("argument %d is %s", i, an.Canon(a[i]))
		}
	}
	c.Result(ok, "C16.a", "TABLE", "isStaleRead:args", c.P.Pos(isr.Pos()),
		"IsStaleRead receives (last contact, FSM update time, appended-at time, FSM index, command commit index, freshness, strict) in order",
		"IsStaleRead's arguments are not the reference ones in order: "+bad, nil)
}

// effects shared by Query and Request
func storeEffects(fn *ssa.Function) func(ssa.Instruction) (string, bool) {
	// the CurrentTerm call (first one) defines readTerm
	var termCall ssa.Value
	an.Instrs(fn, func(in ssa.Instruction) {
		if termCall == nil && an.IsPlainCall(in, "github.com/hashicorp/raft.Raft.CurrentTerm") {
			termCall = in.(ssa.Value)
		}
	})
	return func(in ssa.Instruction) (string, bool) {
		switch x := in.(type) {
		case *ssa.Call:
			switch {
			case an.IsCall(x, "github.com/hashicorp/raft.Raft.CurrentTerm"):
				return "term", true
			case an.IsCall(x, "store.Store.waitForLinearizableRead"):
				t := "?"
				if len(x.Common().Args) > 1 && x.Common().Args[1] == termCall {
					t = "term"
				}
				return "wait(" + t + ")", true
			case an.IsCall(x, "github.com/hashicorp/raft.Raft.Apply"):
				return "apply", true
			case an.IsCall(x, "db.SwappableDB.QueryWithContext"):
				return "localRead", true
			case an.IsCall(x, "db.SwappableDB.ExecuteWithContext", "db.SwappableDB.RequestWithContext"):
				return "localWrite!", true
			case an.IsCall(x, "store.Store.isStaleRead"):
				return "", false
			case strings.HasSuffix(an.CalleeID(x), ".Store") && an.MentionsField(x.Common().Args[0], "Store", "strongReadTerm"):
				t := "?"
				if len(x.Common().Args) > 1 && x.Common().Args[1] == termCall {
					t = "term"
				}
				return "strongTerm(" + t + ")", true
			}
		case *ssa.Store:
			if t, f, _, ok := an.FieldOf(x.Addr); ok && t == "Command" && f == "Type" {
				if k, ok := an.ConstInt(x.Val); ok {
					return fmt.Sprintf("cmd%d", k), true
				}
				// the type handed to a helper that builds the command
				if k, ok := an.ConstInt(an.Unwrap(an.Rz(x.Val))); ok {
					return fmt.Sprintf("cmd%d", k), true
				}
				return "cmd?", true
			}
		}
		return "", false
	}
}

func c16Query(c *core.Ctx, clause string) {
	fn := c.Fn(clause, "store", "(*Store).Query")
	if fn == nil {
		return
	}
	R := &an.Resolver{}
	one := func(n string) an.Var { return an.Var{Name: n, Values: []int{1}} }
	spec := an.DecideSpec{
		Fn: fn, R: R,
		Vars: []an.Var{
			{Name: "level", Values: []int{0, 1, 2, 3, 4}}, an.Bool("voter"), an.Bool("leader"), an.Bool("ready"), an.Bool("stale"),
			{Name: "wait", Values: []int{0, 1, 2}}, {Name: "apply", Values: []int{0, 1, 2, 3}},
			one("pragmaOK"), one("open"), one("ctxOK"), one("voterOK"), one("compressOK"), one("marshalOK"),
		},
		Conds: []an.CondMatcher{
			errOf("pragmaOK", "store.PragmaCheckRequest.Check"),
			boolOf("open", -1, "internal/rsync.AtomicBool.Is"),
			errOf("ctxOK", "context.Context.Err"),
			levelCond(R, "QueryRequest"),
			an.NilCond("voterOK", func(v ssa.Value) bool { return callResult(v, 1, "store.Store.IsVoter") }),
			boolOf("voter", 0, "store.Store.IsVoter"),
			enumNil("wait", "store.Store.waitForLinearizableRead"),
			eqGlobal("wait", 1, "ErrStrongReadNeeded", "store.Store.waitForLinearizableRead"),
			stateLeaderCond(R),
			boolOf("ready", -1, "store.Store.Ready"),
			an.NilCond("compressOK", func(v ssa.Value) bool { return callResult(v, 2, "store.Store.tryCompress") }),
			an.NilCond("marshalOK", func(v ssa.Value) bool { return callResult(v, 1, "command.Marshal") }),
			enumNil("apply", "github.com/hashicorp/raft.Future.Error", "github.com/hashicorp/raft.ApplyFuture.Error"),
			eqGlobal("apply", 1, "ErrNotLeader", "github.com/hashicorp/raft.Future.Error", "github.com/hashicorp/raft.ApplyFuture.Error"),
			eqGlobal("apply", 2, "ErrLeadershipLost", "github.com/hashicorp/raft.Future.Error", "github.com/hashicorp/raft.ApplyFuture.Error"),
			boolOf("stale", -1, "store.Store.isStaleRead"),
		},
		Effect: storeEffects(fn),
		Ret:    lastErr,
		Ref: func(v an.Val) string {
			L := v["level"]
			if L == lvAUTO {
				if v["voter"] == 1 {
					L = lvWEAK
				} else {
					L = lvNONE
				}
			}
			eff := []string{"term"}
			if L == lvLIN {
				eff = append(eff, "wait(term)")
				switch v["wait"] {
				case 1:
					L = lvSTRONG
				case 2:
					return strings.Join(eff, ";") + " => err(waitForLinearizableRead)"
				}
			}
			if L == lvSTRONG {
				if v["leader"] == 0 {
					return strings.Join(eff, ";") + " => ErrNotLeader"
				}
				if v["ready"] == 0 {
					return strings.Join(eff, ";") + " => ErrNotReady"
				}
				eff = append(eff, "cmd1", "apply")
				switch v["apply"] {
				case 1, 2:
					return strings.Join(eff, ";") + " => ErrNotLeader"
				case 3:
					return strings.Join(eff, ";") + " => err(Error)"
				}
				eff = append(eff, "strongTerm(term)")
				return strings.Join(eff, ";") + " => field:error"
			}
			if L == lvWEAK && v["leader"] == 0 {
				return strings.Join(eff, ";") + " => ErrNotLeader"
			}
			if L == lvNONE && v["stale"] == 1 {
				return strings.Join(eff, ";") + " => ErrStaleRead"
			}
			eff = append(eff, "localRead")
			return strings.Join(eff, ";") + " => err(QueryWithContext)"
		},
	}
	reportDecide(c, clause, "(*Store).Query", c.P.Pos(fn.Pos()), an.Decide(spec, c.P.Pos))
}

func c16Request(c *core.Ctx, clause string) {
	fn := c.Fn(clause, "store", "(*Store).Request")
	if fn == nil {
		return
	}
	R := &an.Resolver{}
	one := func(n string) an.Var { return an.Var{Name: n, Values: []int{1}} }
	cnt := func(name string, idx int) an.CondMatcher {
		return func(cond ssa.Value) (func(an.Val) bool, bool) {
			ev, ok := an.CmpCond("_", func(v ssa.Value) bool { return callResult(v, idx, "store.Store.RORWCount") }, an.IsConstInt(0))(cond)
			if !ok {
				return nil, false
			}
			return func(v an.Val) bool { return ev(an.Val{"_": v[name]}) }, true
		}
	}
	spec := an.DecideSpec{
		Fn: fn, R: R,
		Vars: []an.Var{
			{Name: "level", Values: []int{0, 1, 2, 3, 4}}, an.Bool("voter"), an.Bool("leader"), an.Bool("ready"), an.Bool("stale"),
			{Name: "wait", Values: []int{0, 1, 2}}, {Name: "apply", Values: []int{0, 1, 2, 3}}, an.Bool("nRW"), an.Bool("nRO"),
			one("pragmaOK"), one("open"), one("ctxOK"), one("voterOK"), one("compressOK"), one("marshalOK"), one("throttleOK"),
		},
		Conds: []an.CondMatcher{
			errOf("pragmaOK", "store.PragmaCheckRequest.Check"),
			boolOf("open", -1, "internal/rsync.AtomicBool.Is"),
			errOf("ctxOK", "context.Context.Err"),
			levelCond(R, "ExecuteQueryRequest"),
			an.NilCond("voterOK", func(v ssa.Value) bool { return callResult(v, 1, "store.Store.IsVoter") }),
			boolOf("voter", 0, "store.Store.IsVoter"),
			enumNil("wait", "store.Store.waitForLinearizableRead"),
			eqGlobal("wait", 1, "ErrStrongReadNeeded", "store.Store.waitForLinearizableRead"),
			stateLeaderCond(R),
			boolOf("ready", -1, "store.Store.Ready"),
			errOf("throttleOK", "store/throttler.Throttler.Delay"),
			an.NilCond("compressOK", func(v ssa.Value) bool { return callResult(v, 2, "store.Store.tryCompress") }),
			an.NilCond("marshalOK", func(v ssa.Value) bool { return callResult(v, 1, "command.Marshal") }),
			enumNil("apply", "github.com/hashicorp/raft.Future.Error", "github.com/hashicorp/raft.ApplyFuture.Error"),
			eqGlobal("apply", 1, "ErrNotLeader", "github.com/hashicorp/raft.Future.Error", "github.com/hashicorp/raft.ApplyFuture.Error"),
			eqGlobal("apply", 2, "ErrLeadershipLost", "github.com/hashicorp/raft.Future.Error", "github.com/hashicorp/raft.ApplyFuture.Error"),
			boolOf("stale", -1, "store.Store.isStaleRead"),
			cnt("nRW", 0), cnt("nRO", 1),
		},
		Effect: storeEffects(fn),
		Ret:    lastErr,
		Feasible: func(v an.Val) bool {
			// a request has at least one statement
			return v["nRW"]+v["nRO"] > 0
		},
		Ref: func(v an.Val) string {
			L := v["level"]
			if L == lvAUTO {
				if v["voter"] == 1 {
					L = lvWEAK
				} else {
					L = lvNONE
				}
			}
			eff := []string{"term"}
			if L == lvLIN {
				eff = append(eff, "wait(term)")
				switch v["wait"] {
				case 1:
					L = lvSTRONG
				case 2:
					return strings.Join(eff, ";") + " => err(waitForLinearizableRead)"
				}
			}
			if v["nRW"] == 0 && L != lvSTRONG {
				if L == lvNONE && v["stale"] == 1 {
					return strings.Join(eff, ";") + " => ErrStaleRead"
				}
				if L == lvWEAK && v["leader"] == 0 {
					return strings.Join(eff, ";") + " => ErrNotLeader"
				}
				eff = append(eff, "localRead")
				return strings.Join(eff, ";") + " => err(QueryWithContext)"
			}
			if v["leader"] == 0 {
				return strings.Join(eff, ";") + " => ErrNotLeader"
			}
			if v["ready"] == 0 {
				return strings.Join(eff, ";") + " => ErrNotReady"
			}
			eff = append(eff, "cmd6", "apply")
			switch v["apply"] {
			case 1:
				return strings.Join(eff, ";") + " => ErrNotLeader"
			case 2, 3:
				// leadership lost: the entry may already be replicated, so the
				// request must NOT be reported as "not leader" (the proxy would
				// forward it and it could be applied twice)
				return strings.Join(eff, ";") + " => err(Error)"
			}
			if v["nRO"] == 1 {
				eff = append(eff, "strongTerm(term)")
			}
			return strings.Join(eff, ";") + " => field:error"
		},
	}
	reportDecide(c, clause, "(*Store).Request", c.P.Pos(fn.Pos()), an.Decide(spec, c.P.Pos))
}
