package props

import (
	"sort"

	"golang.org/x/tools/go/ssa"

	"rqverif/checker/internal/an"
	"rqverif/checker/internal/core"
)

// C16.c: the two clocks the strict staleness test compares are written by
// fsmApply with the values the statement means: the node's own clock when the
// entry has been applied (a time.Now() taken in the deferred bookkeeping, not a
// time captured before the apply), and the leader's append time carried by the
// entry itself.
func c16c(c *core.Ctx) {
	fn := c.Fn("C16.c", "store", "(*Store).fsmApply")
	if fn == nil {
		return
	}
	deferred := map[*ssa.Function]bool{}
	an.Instrs(fn, func(in ssa.Instruction) {
		if d, ok := in.(*ssa.Defer); ok {
			if mc, ok := d.Call.Value.(*ssa.MakeClosure); ok {
				if g, ok := mc.Fn.(*ssa.Function); ok {
					deferred[g] = true
				}
			}
			// `defer s.bookkeeping(l, startT)`: a deferred private method of the package
			if g := d.Call.StaticCallee(); g != nil && len(g.Blocks) > 0 && g.Pkg == fn.Pkg {
				deferred[g] = true
			}
		}
	})
	hosts := an.WithClosures(fn)
	for g := range deferred {
		if g.Parent() == nil {
			hosts = append(hosts, g)
			c.Touch(g)
		}
	}
	sort.Slice(hosts, func(i, j int) bool { return hosts[i].String() < hosts[j].String() })
	nUpd, nApp := 0, 0
	for _, f := range hosts {
		for _, call := range an.CallsTo(f, false, "internal/rsync.AtomicTime.Store") {
			args := call.Common().Args
			if len(args) != 2 {
				continue
			}
			switch recvField(call, "Store") {
			case "fsmUpdateTime":
				nUpd++
				c.Sites++
				now, isCall := an.Unwrap(args[1]).(*ssa.Call)
				ok := isCall && an.IsCall(now, "time.Now") && now.Parent() == f && deferred[f]
				c.Result(ok, "C16.c", "CONST", "fsmApply:fsm-update-time:now-after-apply", c.P.Pos(call.Pos()),
					"the FSM update time is the node's clock read in the deferred bookkeeping, i.e. after the entry was applied",
					"fsmApply records as FSM update time something other than time.Now() read after the apply (e.g. the time the apply started): the strict freshness test then under-reports how long the entry took to become visible and serves reads older than the bound", nil)
			case "appendedAtTime":
				nApp++
				c.Sites++
				ok := an.LoadedField(an.Unwrap(args[1]), "Log", "AppendedAt")
				c.Result(ok, "C16.c", "CONST", "fsmApply:appended-at-time:from-entry", c.P.Pos(call.Pos()),
					"the appended-at time is the leader's append time carried by the applied entry",
					"fsmApply records as appended-at time something other than the applied entry's AppendedAt", nil)
			}
		}
	}
	c.Count("freshness clocks written by fsmApply", nUpd+nApp)
	c.Min("freshness clocks written by fsmApply", 2)

	// C16.d: what the store is told about the read is what the client asked for
	why := "the store decides how to serve the read from the level, freshness and strictness it is handed (it maps AUTO to NONE or WEAK itself); a bound or level that is dropped or changed on the way in is not applied"
	qpReadsOnly(c, "C16.d", "Freshness", "freshness", why)
	qpReadsOnly(c, "C16.d", "FreshnessStrict", "freshness_strict", why)
	qpReadsOnly(c, "C16.d", "Level", "level", why)
	qpReadsOnly(c, "C16.d", "LinearizableTimeout", "linearizable_timeout", why)
}
