package props

import (
	"fmt"
	"go/token"
	"sort"
	"strings"

	"golang.org/x/tools/go/ssa"

	"rqverif/checker/internal/an"
	"rqverif/checker/internal/core"
)

func init() {
	register(&core.Check{
		ID:    "C17",
		Title: "Reads never modify data",
		Explanation: "C17.a CONST+DOM: db.MakeDSN adds mode=ro and _query_only=true on every path where readOnly holds; OpenWithDriver builds the read-only pool from MakeDSN(…, true, …) and stores that pool — not the read-write one — in DB.roDB. " +
			"C17.b WHO by field: the read-path functions of package db (QueryWithContext, StmtReadOnly, Dump, ColumnNames, TableColumnTypes) never touch DB.rwDB. " +
			"C17.c WHO: the database-mutating API of db.SwappableDB (Execute*, Request*, Swap, Vacuum) is called in the module only from the frozen list {CommandProcessor.Process (apply, replay, recovery), fsmRestore, ReadFrom, Store.Vacuum}; in particular no read path of Store calls it. " +
			"C17.d DECIDE/DOM: Store.Request takes the local-read shortcut only when no statement is read-write and then calls QueryWithContext only (shared decision table with C16.b); RORWCount counts a statement read-only only on the edge err == nil ∧ ro (or EXPLAIN).",
		NotCovered: []string{"SQLite's enforcement of query_only / mode=ro", "a text holding several statements whose first is read-only (StmtReadOnly classifies the first statement; the read-only connection is what stops the rest)"},
		Run:        runC17,
	})
}

var swappableMutators = []string{"Execute", "ExecuteWithContext", "Request", "RequestWithContext", "Swap", "Vacuum"}

// swappableCallers lists module functions calling the mutating API.
func swappableCallers(c *core.Ctx) map[string][]string {
	out := map[string][]string{}
	for _, fn := range moduleFuncs(c) {
		if strings.HasPrefix(core.FuncName(fn), "(*db.SwappableDB)") {
			continue
		}
		an.Instrs(fn, func(in ssa.Instruction) {
			ci, ok := in.(ssa.CallInstruction)
			if !ok {
				return
			}
			id := an.CalleeID(ci)
			for _, m := range swappableMutators {
				if id == "db.SwappableDB."+m {
					// a helper called only from a reviewed path is part of that path
					for _, name := range accountable(c, fn, func(n string) bool { _, ok := swappableAllowed[n]; return ok }) {
						out[name] = append(out[name], m)
					}
				}
			}
		})
	}
	return out
}

var swappableAllowed = map[string]string{
	"(*store.CommandProcessor).Process": "the single apply path (live apply, restart replay, manual recovery)",
	"(*store.Store).fsmRestore":         "snapshot restore swaps in the restored database",
	"(*store.Store).ReadFrom":           "boot swaps in the supplied database",
	"(*store.Store).Vacuum":             "maintenance; logical contents unchanged",
}

func checkSwappableCallers(c *core.Ctx, clause string) {
	callers := swappableCallers(c)
	names := make([]string, 0, len(callers))
	for n := range callers {
		names = append(names, n)
	}
	sort.Strings(names)
	c.Count("callers of the mutating database API", len(names))
	c.Min("callers of the mutating database API", 3)
	for _, n := range names {
		ms := callers[n]
		sort.Strings(ms)
		reason, ok := swappableAllowed[n]
		c.Sites += len(ms)
		c.Result(ok, clause, "WHO", "SwappableDB.mutators:caller:"+n, "", n+" ("+reason+") calls "+strings.Join(ms, ","),
			n+" calls the database-mutating API ("+strings.Join(ms, ",")+") but is not one of the reviewed apply/restore/boot paths: a change made here is not replicated through the log", nil)
	}
	for n := range swappableAllowed {
		if _, ok := callers[n]; !ok && n != "(*store.Store).Vacuum" {
			c.Unk(clause, "WHO", "SwappableDB.mutators:caller:"+n, "", "reviewed caller "+n+" no longer calls the mutating API; re-derive the list")
		}
	}
}

func runC17(c *core.Ctx) {
	// C17.a
	if fn := c.Fn("C17.a", "db", "MakeDSN"); fn != nil {
		assume := func(cond ssa.Value) (bool, bool) {
			if isParamN(fn, 1)(cond) {
				return true, true
			}
			return false, false
		}
		adds := func(k, v string) func(ssa.Instruction) bool {
			return func(in ssa.Instruction) bool {
				call, ok := in.(*ssa.Call)
				if !ok || !an.IsCall(call, "net/url.Values.Add", "net/url.Values.Set") {
					return false
				}
				a := call.Common().Args
				ks, ok1 := an.ConstString(a[1])
				vs, ok2 := an.ConstString(a[2])
				return ok1 && ok2 && ks == k && vs == v
			}
		}
		isRet := func(in ssa.Instruction) bool { _, ok := in.(*ssa.Return); return ok }
		for _, kv := range [][2]string{{"mode", "ro"}, {"_query_only", "true"}} {
			h := an.UngatedUnder(an.CutSpec{Fn: fn, GateInstr: adds(kv[0], kv[1]), Sink: isRet}, assume)
			c.Result(len(h) == 0, "C17.a", "CONST", "MakeDSN:readOnly:"+kv[0]+"="+kv[1], c.P.Pos(fn.Pos()),
				"a read-only DSN always carries "+kv[0]+"="+kv[1], "a read-only DSN can be built without "+kv[0]+"="+kv[1]+": reads could modify the database", nil)
		}
		// and nothing removes them again
		removed := false
		an.Instrs(fn, func(in ssa.Instruction) {
			if call, ok := in.(*ssa.Call); ok && an.IsCall(call, "net/url.Values.Del") {
				removed = true
			}
			if call, ok := in.(*ssa.Call); ok && an.IsCall(call, "net/url.Values.Set") {
				if k, ok := an.ConstString(call.Common().Args[1]); ok && (k == "mode" || k == "_query_only") {
					if v, _ := an.ConstString(call.Common().Args[2]); v != "ro" && v != "true" {
						removed = true
					}
				}
			}
		})
		c.Result(!removed, "C17.a", "CONST", "MakeDSN:readOnly:not-overridden", c.P.Pos(fn.Pos()), "the read-only options are not removed or overridden", "MakeDSN deletes or overrides mode/_query_only", nil)
	}
	if fn := c.Fn("C17.a", "db", "OpenWithDriver"); fn != nil {
		// the value stored in DB.roDB is sql.Open(…, MakeDSN(…, true, …))
		okRO, okRW := false, false
		for _, f := range an.WithClosures(fn) {
			an.Instrs(f, func(in ssa.Instruction) {
				st, ok := in.(*ssa.Store)
				if !ok {
					return
				}
				t, fld, _, ok := an.FieldOf(st.Addr)
				if !ok || t != "DB" || (fld != "roDB" && fld != "rwDB") {
					return
				}
				ro, found := dsnMode(st.Val)
				if !found {
					return
				}
				if fld == "roDB" && ro {
					okRO = true
				}
				if fld == "rwDB" && !ro {
					okRW = true
				}
			})
		}
		c.Result(okRO && okRW, "C17.a", "DOM", "OpenWithDriver:pools", c.P.Pos(fn.Pos()),
			"DB.roDB is the pool opened with the read-only DSN, DB.rwDB the one opened with the read-write DSN",
			"DB.roDB is not (provably) the pool opened from MakeDSN(…, readOnly=true, …), or the pools are swapped", nil)
	}

	// C17.b
	readFns := []string{"QueryWithContext", "StmtReadOnly", "Dump", "ColumnNames", "TableColumnTypes"}
	n := 0
	for _, name := range readFns {
		fn := c.Fn("C17.b", "db", "(*DB)."+name)
		if fn == nil {
			continue
		}
		n++
		touched := ""
		seen := map[*ssa.Function]bool{}
		var visit func(f *ssa.Function, depth int)
		visit = func(f *ssa.Function, depth int) {
			if f == nil || seen[f] || depth > 4 || len(f.Blocks) == 0 {
				return
			}
			seen[f] = true
			for _, g := range an.WithClosures(f) {
				an.Instrs(g, func(in ssa.Instruction) {
					if fa, ok := in.(*ssa.FieldAddr); ok {
						if t, fld, _, ok := an.FieldOf(fa); ok && t == "DB" && fld == "rwDB" {
							touched = core.FuncName(g)
						}
					}
					if ci, ok := in.(ssa.CallInstruction); ok {
						if sc := ci.Common().StaticCallee(); sc != nil && sc.Pkg == fn.Pkg {
							visit(sc, depth+1)
						}
					}
				})
			}
		}
		visit(fn, 0)
		c.Result(touched == "", "C17.b", "WHO", "db.DB."+name+":read-only-pool", c.P.Pos(fn.Pos()),
			name+" (and what it calls in package db) never touches the read-write pool", name+" reaches DB.rwDB through "+touched+": a read could run on the read-write connection", nil)
	}
	c.Count("read-path functions of package db", n)
	c.Min("read-path functions of package db", 5)

	// C17.c
	checkSwappableCallers(c, "C17.c")

	// C17.d
	c16Request(c, "C17.d")
	if fn := c.Fn("C17.d", "store", "(*Store).RORWCount"); fn != nil {
		rets := an.Returns(fn)
		var ro *ssa.Call
		for _, call := range an.CallsTo(fn, false, "db.SwappableDB.StmtReadOnly") {
			ro = call.(*ssa.Call)
		}
		if len(rets) == 0 || ro == nil || len(rets[0].Results) != 2 {
			c.Unk("C17.d", "DOM", "RORWCount:shape", c.P.Pos(fn.Pos()), "RORWCount no longer classifies with StmtReadOnly and returns two counters")
			return
		}
		roCount := rets[0].Results[1]
		errNil := an.SenseEdges(fn, an.Result(ro, 1), an.IsNil)
		roTrue := an.SenseEdges(fn, an.Result(ro, 0), an.IsTrue)
		explain := an.SenseEdges(fn, loadsOfField(fn, "Statement", "SqlExplain"), an.IsTrue)
		adds := 0
		ok := true
		an.Instrs(fn, func(in ssa.Instruction) {
			b, isB := in.(*ssa.BinOp)
			if !isB || b.Op != token.ADD {
				return
			}
			if k, isK := an.ConstInt(b.Y); !isK || k != 1 {
				return
			}
			if !an.MentionsValue(roCount, b) {
				return
			}
			// is it the read-only counter (not the read-write one)?
			if an.MentionsValue(rets[0].Results[0], b) && !an.MentionsValue(roCount, b) {
				return
			}
			adds++
			sink := func(x ssa.Instruction) bool { return x == ssa.Instruction(b) }
			viaExplain := len(an.Ungated(an.CutSpec{Fn: fn, GateEdge: explain, Sink: sink})) == 0 && len(explain) > 0
			viaRO := len(an.Ungated(an.CutSpec{Fn: fn, GateEdge: errNil, Sink: sink})) == 0 && len(an.Ungated(an.CutSpec{Fn: fn, GateEdge: roTrue, Sink: sink})) == 0 && len(errNil) > 0 && len(roTrue) > 0
			if !viaExplain && !viaRO {
				ok = false
			}
		})
		c.Result(ok && adds >= 1, "C17.d", "DOM", "RORWCount:read-only-only-when-proven", c.P.Pos(fn.Pos()),
			fmt.Sprintf("%d increment(s) of the read-only count, each behind err == nil ∧ ro (or EXPLAIN)", adds),
			"a statement can be counted read-only without StmtReadOnly having returned (true, nil): a write would take the non-consensus path", nil)
	}
}

// dsnMode traces a *sql.DB value to sql.Open(driver, MakeDSN(path, <const>, …)).
func dsnMode(v ssa.Value) (readOnly bool, found bool) {
	seen := map[ssa.Value]bool{}
	var walk func(ssa.Value) (bool, bool)
	walk = func(x ssa.Value) (bool, bool) {
		x = an.Unwrap(x)
		if seen[x] {
			return false, false
		}
		seen[x] = true
		switch y := x.(type) {
		case *ssa.Extract:
			return walk(y.Tuple)
		case *ssa.Call:
			if an.IsCall(y, "database/sql.Open") {
				dsn := an.Unwrap(y.Common().Args[1])
				if mk, ok := dsn.(*ssa.Call); ok && an.IsCall(mk, "db.MakeDSN") {
					if b, ok := an.ConstBool(mk.Common().Args[1]); ok {
						return b, true
					}
				}
			}
		case *ssa.UnOp:
			if y.Op == token.MUL {
				// load of a local cell: follow its single store
				if al, ok := y.X.(*ssa.Alloc); ok {
					for _, r := range *al.Referrers() {
						if st, ok := r.(*ssa.Store); ok && st.Addr == ssa.Value(al) {
							if ro, f := walk(st.Val); f {
								return ro, true
							}
						}
					}
				}
			}
		case *ssa.Phi:
			for _, e := range y.Edges {
				if ro, f := walk(e); f {
					return ro, true
				}
			}
		}
		return false, false
	}
	return walk(v)
}
