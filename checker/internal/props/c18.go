package props

import (
	"fmt"
	"go/token"
	"sort"
	"strings"

	"golang.org/x/tools/go/ssa"

	"rqverif/checker/internal/an"
	"rqverif/checker/internal/core"
)

func init() {
	register(&core.Check{
		ID:    "C18",
		Title: "Every endpoint and inter-node request enforces its permission",
		Explanation: "C18.a DOM+TABLE: the path→handler dispatch is extracted from http.Service.ServeHTTP; for every dispatched handler each call other than header/status bookkeeping (and each closure creation) is reachable only through the true edge of CheckRequestPerm/CheckRequestPermAll carrying exactly the permission(s) of the reference table (DESIGN.md A.1). " +
			"C18.b DOM+TABLE: in cluster.Service.handleConn every call on the database/manager interfaces is reachable (from the command decode, per iteration) only through the true edge of checkCommandPerm/All with the reference permission(s) of that action (A.2) and the non-nil edge of its payload; path-sensitive for constant flag cells. " +
			"C18.c: the four check functions return true iff no store is configured or AA(credentials, perm) holds (DECIDE), and cmd/rqlited passes the same credential store value to cluster.New and http.New.",
		NotCovered: []string{"wire-level observation of responses", "correctness of the credential store itself (C19)", "HIGHWATER_MARK_UPDATE, GET_NODE_META and LOAD_CHUNK have no permission defined (reasoned rows)"},
		Run:        runC18,
	})
}

// httpPerms is reference table A.1: dispatch path → permissions.
var httpPerms = map[string][]string{
	"/console":     {"ui"},
	"/db/execute":  {"execute"},
	"/db/query":    {"query"},
	"/db/request":  {"query", "execute"},
	"/db/backup":   {"backup"},
	"/db/load":     {"load"},
	"/db/sql":      {"query"},
	"/boot":        {"load"},
	"/snapshot":    {"snapshot"},
	"/reap":        {"snapshot"},
	"/remove":      {"remove"},
	"/status":      {"status"},
	"/nodes":       {"status"},
	"/leader":      {"leader-ops"},
	"/readyz":      {"ready"},
	"/licenses":    {"status"},
	"/debug/vars":  {"status"},
	"/debug/pprof": {"status"},
}

// calls a handler may make before (or regardless of) the permission gate.
var httpPreGate = []string{
	"net/http.ResponseWriter.Header", "net/http.Header.Set", "net/http.Header.Add", "net/http.ResponseWriter.WriteHeader",
	"http.Service.CheckRequestPerm", "http.Service.CheckRequestPermAll", "expvar.Map.Add",
}

// constStrings extracts the constant strings of a variadic ...string argument.
func constStrings(v ssa.Value) ([]string, bool) {
	if s, ok := an.ConstString(v); ok {
		return []string{s}, true
	}
	sl, ok := v.(*ssa.Slice)
	if !ok {
		if an.IsNilConst(v) {
			return nil, true
		}
		return nil, false
	}
	al, ok := sl.X.(*ssa.Alloc)
	if !ok {
		return nil, false
	}
	type kv struct {
		idx int64
		s   string
	}
	var items []kv
	for _, r := range *al.Referrers() {
		ia, ok := r.(*ssa.IndexAddr)
		if !ok {
			continue
		}
		idx, ok := an.ConstInt(ia.Index)
		if !ok {
			return nil, false
		}
		for _, rr := range *ia.Referrers() {
			if st, ok := rr.(*ssa.Store); ok && st.Addr == ia {
				s, ok := an.ConstString(st.Val)
				if !ok {
					return nil, false
				}
				items = append(items, kv{idx, s})
			}
		}
	}
	sort.Slice(items, func(i, j int) bool { return items[i].idx < items[j].idx })
	var out []string
	for _, it := range items {
		out = append(out, it.s)
	}
	return out, true
}

// permGateEdges returns the true edges of permission checks in fn that carry
// permission perm. single/all are the FuncIDs of the check helpers; permArg
// is the index of the permission argument.
func permGateEdges(fn *ssa.Function, perm string, single, all string, permArg int) (map[an.Edge]bool, int) {
	edges := map[an.Edge]bool{}
	n := 0
	for _, call := range an.CallsTo(fn, false, single, all) {
		args := call.Common().Args
		if len(args) <= permArg {
			continue
		}
		ps, ok := constStrings(args[permArg])
		if !ok {
			continue
		}
		has := false
		for _, p := range ps {
			if p == perm {
				has = true
			}
		}
		if !has {
			continue
		}
		n++
		for e := range an.SenseEdges(fn, an.Result(call, 0), an.IsTrue) {
			edges[e] = true
		}
	}
	return edges, n
}

func runC18(c *core.Ctx) {
	c18http(c)
	c18cluster(c)
	c18wiring(c)
}

// dispatchTable extracts path constant → handler calls from ServeHTTP.
type dispatchRow struct {
	path    string
	call    *ssa.Call
	handler *ssa.Function
}

func httpDispatch(c *core.Ctx, fn *ssa.Function) []dispatchRow {
	// branch conditions on the URL path
	type pc struct {
		blk  *ssa.BasicBlock // true successor
		path string
	}
	var conds []pc
	for _, b := range fn.Blocks {
		if len(b.Instrs) == 0 {
			continue
		}
		ifi, ok := b.Instrs[len(b.Instrs)-1].(*ssa.If)
		if !ok {
			continue
		}
		var path string
		switch x := ifi.Cond.(type) {
		case *ssa.BinOp:
			if x.Op == token.EQL {
				if s, ok := an.ConstString(x.Y); ok && an.MentionsField(x.X, "URL", "Path") {
					path = s
				}
			}
		case *ssa.Call:
			if an.IsCall(x, "strings.HasPrefix") {
				if s, ok := an.ConstString(x.Common().Args[1]); ok && an.MentionsField(x.Common().Args[0], "URL", "Path") {
					path = s
				}
			}
		}
		if path != "" {
			conds = append(conds, pc{b.Succs[0], path})
		}
	}
	var rows []dispatchRow
	an.Instrs(fn, func(in ssa.Instruction) {
		call, ok := in.(*ssa.Call)
		if !ok {
			return
		}
		callee := call.Common().StaticCallee()
		if callee == nil || callee.Signature.Recv() == nil || !strings.HasPrefix(callee.Name(), "handle") {
			return
		}
		if !strings.HasPrefix(an.CalleeID(call), "http.Service.") {
			return
		}
		// innermost dominating path condition
		best := ""
		var bestBlk *ssa.BasicBlock
		for _, pc := range conds {
			if pc.blk == call.Block() || pc.blk.Dominates(call.Block()) {
				if bestBlk == nil || bestBlk.Dominates(pc.blk) {
					best, bestBlk = pc.path, pc.blk
				}
			}
		}
		rows = append(rows, dispatchRow{best, call, callee})
	})
	return rows
}

func c18http(c *core.Ctx) {
	serve := c.Fn("C18.a", "http", "(*Service).ServeHTTP")
	if serve == nil {
		return
	}
	rows := httpDispatch(c, serve)
	c.Count("HTTP handlers dispatched from ServeHTTP", len(rows))
	c.Min("HTTP handlers dispatched from ServeHTTP", 18)
	seenPath := map[string]bool{}
	for _, row := range rows {
		name := core.FuncName(row.handler)
		pos := c.P.Pos(row.call.Pos())
		c.Touch(row.handler)
		perms, ok := httpPerms[row.path]
		if !ok {
			c.Unk("C18.a", "TABLE", "dispatch:"+row.path+"→"+name, pos, "endpoint has no row in the reference permission table (new endpoint? add it to DESIGN.md A.1 after review)")
			continue
		}
		seenPath[row.path] = true
		for _, perm := range perms {
			construct := row.path + ":" + perm
			// alternative: gate hoisted into ServeHTTP
			if edges, n := permGateEdges(serve, perm, "http.Service.CheckRequestPerm", "http.Service.CheckRequestPermAll", 2); n > 0 {
				call := row.call
				if len(an.Ungated(an.CutSpec{Fn: serve, GateEdge: edges, Sink: func(in ssa.Instruction) bool { return in == ssa.Instruction(call) }})) == 0 {
					c.OK("C18.a", "DOM", construct, pos, "handler call dominated by the permission gate in ServeHTTP")
					continue
				}
			}
			edges, n := permGateEdges(row.handler, perm, "http.Service.CheckRequestPerm", "http.Service.CheckRequestPermAll", 2)
			if n == 0 {
				c.Bad("C18.a", "DOM", construct, c.P.Pos(row.handler.Pos()), fmt.Sprintf("%s (serving %s) never checks permission %q", name, row.path, perm), nil)
				continue
			}
			sinks := 0
			hits := an.UngatedPS(an.CutSpec{Fn: row.handler, GateEdge: edges, Sink: func(in ssa.Instruction) bool {
				switch x := in.(type) {
				case *ssa.MakeClosure:
					return true
				case ssa.CallInstruction:
					if an.IsCall(in, httpPreGate...) {
						return false
					}
					_ = x
					sinks++
					return true
				case *ssa.Send:
					return true
				}
				return false
			}})
			c.Sites += sinks
			if len(hits) == 0 {
				c.OK("C18.a", "DOM", construct, c.P.Pos(row.handler.Pos()), fmt.Sprintf("%s: every effect is behind the true edge of the %q check", name, perm))
				continue
			}
			for _, h := range hits {
				what := "closure creation"
				if ci, ok := h.Instr.(ssa.CallInstruction); ok {
					what = "call " + an.CalleeID(ci)
					if an.CalleeID(ci) == "" {
						what = "call " + an.Canon(ci.Common().Value)
					}
				}
				c.Bad("C18.a", "DOM", construct+":"+what, c.P.Pos(h.Instr.Pos()),
					fmt.Sprintf("%s: %s is reachable without the %q permission having been granted", name, what, perm), an.PathString(row.handler, h.Path, c.P.Pos))
			}
		}
	}
	for p := range httpPerms {
		if !seenPath[p] {
			c.Unk("C18.a", "TABLE", "dispatch:"+p, c.P.Pos(serve.Pos()), "reference endpoint "+p+" is no longer dispatched from ServeHTTP; re-derive the table")
		}
	}
	// the default / OPTIONS / redirect branches must not reach store, proxy or cluster
	bad := 0
	an.Instrs(serve, func(in ssa.Instruction) {
		ci, ok := in.(ssa.CallInstruction)
		if !ok {
			return
		}
		if f := recvField(ci, "Service"); f == "store" || f == "proxy" || f == "cluster" || f == "stmtQueue" || f == "uiHandler" {
			bad++
			c.Bad("C18.a", "DOM", "ServeHTTP:direct:"+f, c.P.Pos(in.Pos()), "ServeHTTP touches s."+f+" directly, outside any permission-gated handler", nil)
		}
	})
	if bad == 0 {
		c.OK("C18.a", "DOM", "ServeHTTP:direct", c.P.Pos(serve.Pos()), "ServeHTTP itself makes no call on store/proxy/cluster/queue/ui")
	}
}

// recvField reports the field of struct typ the receiver of a call was loaded from.
func recvField(ci ssa.CallInstruction, typ string) string {
	cc := ci.Common()
	var recv ssa.Value
	if cc.IsInvoke() {
		recv = cc.Value
	} else if sc := cc.StaticCallee(); sc != nil && sc.Signature.Recv() != nil && len(cc.Args) > 0 {
		recv = cc.Args[0]
	} else {
		return ""
	}
	recv = an.Unwrap(recv)
	if u, ok := recv.(*ssa.UnOp); ok && u.Op == token.MUL {
		recv = u.X
	}
	t, f, _, ok := an.FieldOf(recv)
	if ok && t == typ {
		return f
	}
	return ""
}

// clusterActions is reference table A.2 keyed by the interface method invoked.
type clusterAction struct {
	perms  []string // all required
	getter string   // payload getter on proto.Command
	note   string
}

var clusterActions = map[string]clusterAction{
	"db.Execute":      {[]string{"execute"}, "GetExecuteRequest", ""},
	"db.Query":        {[]string{"query"}, "GetQueryRequest", ""},
	"db.Request":      {[]string{"query", "execute"}, "GetExecuteQueryRequest", ""},
	"db.Backup":       {[]string{"backup"}, "GetBackupRequest", ""},
	"db.Load":         {[]string{"load"}, "GetLoadRequest", ""},
	"mgr.Remove":      {[]string{"remove"}, "GetRemoveNodeRequest", ""},
	"mgr.Notify":      {[]string{"join"}, "GetNotifyRequest", ""},
	"mgr.Join":        {nil, "GetJoinRequest", "voter: join; non-voter: join-read-only or join-read-replica"},
	"mgr.LeaderAddr":  {nil, "GetJoinRequest", "only after Join"},
	"mgr.Stepdown":    {[]string{"leader-ops"}, "GetStepdownRequest", ""},
	"mgr.CommitIndex": {nil, "", "GET_NODE_META: no permission defined (URL, commit index, version; no database content)"},
}

func c18cluster(c *core.Ctx) {
	fn := c.Fn("C18.b", "cluster", "(*Service).handleConn")
	if fn == nil {
		return
	}
	var start ssa.Instruction
	an.Instrs(fn, func(in ssa.Instruction) {
		if an.IsPlainCall(in, "google.golang.org/protobuf/proto.Unmarshal") && start == nil {
			start = in
		}
	})
	if start == nil {
		c.Unk("C18.b", "DOM", "handleConn:decode", c.P.Pos(fn.Pos()), "command decode (proto.Unmarshal) not found; per-iteration start point unknown")
		return
	}
	const single, all = "cluster.Service.checkCommandPerm", "cluster.Service.checkCommandPermAll"
	actions := 0
	visit := func(in ssa.Instruction, ci ssa.CallInstruction) {
		f := recvField(ci, "Service")
		if f != "db" && f != "mgr" {
			return
		}
		m := ""
		if ci.Common().IsInvoke() {
			m = ci.Common().Method.Name()
		} else if sc := ci.Common().StaticCallee(); sc != nil {
			m = sc.Name()
		}
		key := f + "." + m
		pos := c.P.Pos(in.Pos())
		act, ok := clusterActions[key]
		if !ok {
			c.Unk("C18.b", "TABLE", "handleConn:"+key, pos, "inter-node action has no row in the reference table (DESIGN.md A.2)")
			return
		}
		actions++
		c.Sites++
		sink := func(x ssa.Instruction) bool { return x == in }
		construct := "handleConn:" + key
		if inst := fmt.Sprint(occurrence(fn, in, key)); inst != "1" {
			construct += "#" + inst
		}
		// permissions
		switch key {
		case "mgr.CommitIndex":
			c.OK("C18.b", "TABLE", construct, pos, act.note)
		case "mgr.Join", "mgr.LeaderAddr":
			voter := loadsOfField(fn, "JoinRequest", "Voter")
			if len(voter) == 0 {
				c.Unk("C18.b", "DOM", construct, pos, "JoinRequest.Voter is not consulted; the voter/non-voter permission split cannot be located")
				break
			}
			vTrue := an.SenseEdges(fn, voter, an.IsTrue)
			vFalse := an.SenseEdges(fn, voter, an.IsFalse)
			joinE, _ := permGateEdges(fn, "join", single, all, 2)
			roE, _ := permGateEdges(fn, "join-read-only", single, all, 2)
			rrE, _ := permGateEdges(fn, "join-read-replica", single, all, 2)
			// voter paths: drop edges where Voter is false; gate = join
			g1 := union(joinE, vFalse)
			h1 := an.UngatedPS(an.CutSpec{Fn: fn, Start: start, GateEdge: g1, Sink: sink})
			// non-voter paths: drop edges where Voter is true; gate = ro ∪ rr
			g2 := union(union(roE, rrE), vTrue)
			h2 := an.UngatedPS(an.CutSpec{Fn: fn, Start: start, GateEdge: g2, Sink: sink})
			if len(h1) == 0 && len(h2) == 0 {
				c.OK("C18.b", "DOM", construct+":perm", pos, "voter joins need join; non-voter joins need join-read-only or join-read-replica")
			}
			for _, h := range h1 {
				c.Bad("C18.b", "DOM", construct+":perm:voter", pos, "a voter join reaches "+key+" without the join permission", an.PathString(fn, h.Path, c.P.Pos))
			}
			for _, h := range h2 {
				c.Bad("C18.b", "DOM", construct+":perm:nonvoter", pos, "a non-voter join reaches "+key+" without join-read-only/join-read-replica", an.PathString(fn, h.Path, c.P.Pos))
			}
		default:
			for _, perm := range act.perms {
				edges, n := permGateEdges(fn, perm, single, all, 2)
				if n == 0 {
					c.Bad("C18.b", "DOM", construct+":perm:"+perm, pos, fmt.Sprintf("no check of permission %q exists in handleConn", perm), nil)
					continue
				}
				hits := an.UngatedPS(an.CutSpec{Fn: fn, Start: start, GateEdge: edges, Sink: sink})
				if len(hits) == 0 {
					c.OK("C18.b", "DOM", construct+":perm:"+perm, pos, fmt.Sprintf("%s only behind the true edge of the %q check", key, perm))
				}
				for _, h := range hits {
					c.Bad("C18.b", "DOM", construct+":perm:"+perm, pos,
						fmt.Sprintf("%s is reachable from the command decode without permission %q having been granted (e.g. after an 'unauthorized' header)", key, perm), an.PathString(fn, h.Path, c.P.Pos))
				}
			}
		}
		// payload
		if act.getter != "" {
			var vals []ssa.Value
			for _, g := range an.CallsTo(fn, false, "cluster/proto.Command."+act.getter) {
				vals = append(vals, g.Value())
			}
			if len(vals) == 0 {
				c.Unk("C18.b", "DOM", construct+":payload", pos, "payload getter "+act.getter+" not called in handleConn")
				return
			}
			hits := an.UngatedPS(an.CutSpec{Fn: fn, Start: start, GateEdge: an.SenseEdges(fn, vals, an.NotNil), Sink: sink})
			if len(hits) == 0 {
				c.OK("C18.b", "DOM", construct+":payload", pos, key+" only on the non-nil edge of "+act.getter+"()")
			}
			for _, h := range hits {
				c.Bad("C18.b", "DOM", construct+":payload", pos, key+" is reachable with a nil "+act.getter+"() payload", an.PathString(fn, h.Path, c.P.Pos))
			}
		}
	}
	an.Instrs(fn, func(in ssa.Instruction) {
		ci, ok := in.(ssa.CallInstruction)
		if !ok {
			return
		}
		if f := recvField(ci, "Service"); f == "db" || f == "mgr" {
			visit(in, ci)
			return
		}
		// an action moved into a private helper of handleConn happens at the helper's call site
		if g := ci.Common().StaticCallee(); g != nil && g != fn && len(g.Blocks) > 0 && an.StepPolicy != nil && an.StepPolicy(g) {
			for _, inner := range an.AllCalls(g, false) {
				if f := recvField(inner, "Service"); f == "db" || f == "mgr" {
					c.Touch(g)
					visit(in, inner)
				}
			}
		}
	})
	c.Count("inter-node actions on db/mgr in handleConn", actions)
	c.Min("inter-node actions on db/mgr in handleConn", 11)
}

func union(a, b map[an.Edge]bool) map[an.Edge]bool {
	out := map[an.Edge]bool{}
	for e := range a {
		out[e] = true
	}
	for e := range b {
		out[e] = true
	}
	return out
}

// occurrence numbers the call among calls with the same key in fn (source order).
func occurrence(fn *ssa.Function, in ssa.Instruction, key string) int {
	type pi struct {
		pos token.Pos
		in  ssa.Instruction
	}
	var same []pi
	an.Instrs(fn, func(x ssa.Instruction) {
		ci, ok := x.(ssa.CallInstruction)
		if !ok {
			return
		}
		f := recvField(ci, "Service")
		m := ""
		if ci.Common().IsInvoke() {
			m = ci.Common().Method.Name()
		} else if sc := ci.Common().StaticCallee(); sc != nil {
			m = sc.Name()
		}
		if f+"."+m == key {
			same = append(same, pi{x.Pos(), x})
		}
	})
	sort.Slice(same, func(i, j int) bool { return same[i].pos < same[j].pos })
	for i, s := range same {
		if s.in == in {
			return i + 1
		}
	}
	return 0
}

// loadsOfField lists the SSA values that load field typ.field in fn.
func loadsOfField(fn *ssa.Function, typ, field string) []ssa.Value {
	var out []ssa.Value
	an.Instrs(fn, func(in ssa.Instruction) {
		if u, ok := in.(*ssa.UnOp); ok && u.Op == token.MUL {
			if t, f, _, ok := an.FieldOf(u.X); ok && t == typ && f == field {
				out = append(out, u)
			}
		}
		if f, ok := in.(*ssa.Field); ok {
			if t, fl, _, ok := an.FieldOf(f); ok && t == typ && fl == field {
				out = append(out, f)
			}
		}
	})
	return out
}

func c18wiring(c *core.Ctx) {
	// the check helpers themselves
	type helper struct{ pkg, name, aa, storeT string }
	for _, h := range []helper{
		{"cluster", "(*Service).checkCommandPerm", "cluster.CredentialStore.AA", "Service"},
		{"cluster", "(*Service).checkCommandPermAll", "cluster.CredentialStore.AA", "Service"},
		{"http", "(*Service).CheckRequestPerm", "http.CredentialStore.AA", "Service"},
		{"http", "(*Service).CheckRequestPermAll", "http.CredentialStore.AA", "Service"},
	} {
		fn := c.Fn("C18.c", h.pkg, h.name)
		if fn == nil {
			continue
		}
		isAll := strings.HasSuffix(h.name, "All")
		vars := []an.Var{an.Bool("storeNil"), an.Bool("aa")}
		if isAll {
			vars = append(vars, an.Bool("more"))
		}
		if h.pkg == "http" {
			vars = append(vars, an.Bool("basicAuthOK"))
		}
		spec := an.DecideSpec{
			Fn:   fn,
			Vars: vars,
			Conds: []an.CondMatcher{
				an.NilCond("storeNil", an.IsFieldLoad(h.storeT, "credentialStore")),
				an.BoolCond("aa", func(v ssa.Value) bool {
					call, ok := v.(*ssa.Call)
					if !ok || !an.IsCall(call, h.aa) {
						return false
					}
					args := call.Common().Args
					last := args[len(args)-1]
					if isAll {
						return an.HasParam("perms")(last)
					}
					return an.IsParam("perm")(last)
				}),
				rangeMore("more", "perms"),
				// `if !ok { username = "" }` after r.BasicAuth(): affects only the
				// username handed to AA, not the decision structure
				an.BoolCond("basicAuthOK", func(v ssa.Value) bool {
					e, ok := v.(*ssa.Extract)
					if !ok {
						return false
					}
					call, ok := e.Tuple.(*ssa.Call)
					return ok && an.IsCall(call, "net/http.Request.BasicAuth")
				}),
			},
			Ret: func(r *ssa.Return, resolve func(ssa.Value) ssa.Value) string {
				v := resolve(r.Results[0])
				// named result b spilled to a cell because of the defer
				if u, ok := v.(*ssa.UnOp); ok && u.Op == token.MUL {
					return "cell"
				}
				if call, ok := v.(*ssa.Call); ok && an.IsCall(call, h.aa) {
					return "aa"
				}
				return an.Canon(v)
			},
			Ref: func(v an.Val) string {
				if v["storeNil"] == 1 {
					return " => true"
				}
				if !isAll {
					return " => aa"
				}
				if v["more"] == 0 {
					return " => true"
				}
				if v["aa"] == 0 {
					return " => false"
				}
				return " => loop"
			},
		}
		// CheckRequestPerm* spill the named result into a cell because a
		// deferred closure reads it: resolve stores to that cell.
		spec.Ret = retThroughCell(fn, h.aa, spec.Ret)
		res := an.Decide(spec, c.P.Pos)
		reportDecide(c, "C18.c", h.pkg+"."+h.name, c.P.Pos(fn.Pos()), res)
	}

	// same credential store to both services
	mainFn := c.Fn("C18.c", "cmd/rqlited", "main")
	cs := c.Fn("C18.c", "cmd/rqlited", "clusterService")
	hs := c.Fn("C18.c", "cmd/rqlited", "startHTTPService")
	if mainFn == nil || cs == nil || hs == nil {
		return
	}
	var src []ssa.Value
	for _, call := range an.CallsTo(mainFn, false, "cmd/rqlited.credentialStore") {
		src = append(src, an.Result(call, 0)...)
	}
	ok := len(src) > 0
	msg := ""
	check := func(callee string, argIdx int, inner *ssa.Function, innerParam string, target string, targetArg int) {
		calls := an.CallsTo(mainFn, false, callee)
		if len(calls) == 0 {
			ok = false
			msg += callee + " not called from main; "
			return
		}
		for _, call := range calls {
			if !flowsFrom(call.Common().Args[argIdx], src) {
				ok = false
				msg += callee + " does not receive the value returned by credentialStore(cfg); "
			}
		}
		tcalls := an.CallsTo(inner, false, target)
		if len(tcalls) == 0 {
			ok = false
			msg += target + " not called from " + inner.Name() + "; "
			return
		}
		p := an.Param(inner, innerParam)
		for _, tc := range tcalls {
			if p == nil || !flowsFrom(tc.Common().Args[targetArg], []ssa.Value{p}) {
				ok = false
				msg += target + " in " + inner.Name() + " does not receive the credential store parameter; "
			}
		}
	}
	check("cmd/rqlited.clusterService", 4, cs, "credStr", "cluster.New", 3)
	check("cmd/rqlited.startHTTPService", 3, hs, "credStr", "http.New", 4)
	c.Result(ok, "C18.c", "WHO", "rqlited.main:credential-store-wiring", c.P.Pos(mainFn.Pos()),
		"cluster.New and http.New both receive the store returned by credentialStore(cfg)", msg, nil)
}

// flowsFrom reports whether v is (a conversion / phi of) one of srcs; nil
// constants on other phi edges are allowed.
func flowsFrom(v ssa.Value, srcs []ssa.Value) bool {
	seen := map[ssa.Value]bool{}
	var walk func(ssa.Value) bool
	walk = func(x ssa.Value) bool {
		x = an.Unwrap(x)
		if seen[x] {
			return false
		}
		seen[x] = true
		for _, s := range srcs {
			if x == s || x == an.Unwrap(s) {
				return true
			}
		}
		if p, ok := x.(*ssa.Phi); ok {
			any := false
			for _, e := range p.Edges {
				if an.IsNilConst(e) {
					continue
				}
				if walk(e) {
					any = true
				} else {
					return false
				}
			}
			return any
		}
		return false
	}
	return walk(v)
}

// rangeMore matches the loop condition of `for range <param>` (index < len).
func rangeMore(name, param string) an.CondMatcher {
	return func(cond ssa.Value) (func(an.Val) bool, bool) {
		b, ok := cond.(*ssa.BinOp)
		if !ok || b.Op != token.LSS {
			return nil, false
		}
		call, ok := b.Y.(*ssa.Call)
		if !ok {
			return nil, false
		}
		if bi, ok := call.Common().Value.(*ssa.Builtin); !ok || bi.Name() != "len" {
			return nil, false
		}
		if !an.IsParam(param)(call.Common().Args[0]) {
			return nil, false
		}
		return func(v an.Val) bool { return v[name] == 1 }, true
	}
}

// retThroughCell handles functions whose named result lives in a cell: the
// returned value is the last value stored to the cell on the path. Since the
// interpreter does not track stores, approximate by mapping the Return to the
// value stored in the same block or its unique predecessor chain.
func retThroughCell(fn *ssa.Function, aa string, inner func(*ssa.Return, func(ssa.Value) ssa.Value) string) func(*ssa.Return, func(ssa.Value) ssa.Value) string {
	return func(r *ssa.Return, resolve func(ssa.Value) ssa.Value) string {
		v := resolve(r.Results[0])
		u, ok := v.(*ssa.UnOp)
		if !ok || u.Op != token.MUL {
			return inner(r, resolve)
		}
		cell := u.X
		// last store to cell before the return in this block, else walk single preds
		b := r.Block()
		for hops := 0; hops < 6 && b != nil; hops++ {
			for i := len(b.Instrs) - 1; i >= 0; i-- {
				if st, ok := b.Instrs[i].(*ssa.Store); ok && st.Addr == cell {
					sv := resolve(st.Val)
					if call, ok := sv.(*ssa.Call); ok && an.IsCall(call, aa) {
						return "aa"
					}
					return an.Canon(sv)
				}
			}
			if len(b.Preds) != 1 {
				break
			}
			b = b.Preds[0]
		}
		return "cell?"
	}
}
