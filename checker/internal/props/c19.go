package props

import (
	"go/token"
	"strings"

	"golang.org/x/tools/go/ssa"

	"rqverif/checker/internal/an"
	"rqverif/checker/internal/core"
)

func init() {
	register(&core.Check{
		ID:    "C19",
		Title: "Credential decisions follow the documented rule",
		Explanation: "C19.a DECIDE: the decision tables of CredentialsStore.AA (5 atoms, 32 valuations), HasPerm (4 atoms), HasAnyPerm's loop and Check are extracted from SSA and compared with the statement: authorised iff the permission or 'all' is granted to all users, or a non-empty username with exactly its stored password holds the permission or 'all' directly or through the all-users entry; the arguments of each sub-decision (all-users constant, username/password/perm parameters, the 'all' constant) are matched by identity. " +
			"C19.b INIT: in Load the JSON decode target is allocated (or zeroed) inside the per-entry loop, so fields omitted by one entry cannot inherit the previous entry's values, and the per-user permission map is replaced by a fresh map before it is filled (last definition wins). " +
			"C19.c TAINT: what NewCredentialsStoreFromFile hands to Load is the file's content, carried (file handle, conversions, readers over the bytes) but never passed through a call that can rewrite the text.",
		NotCovered: []string{"exhaustive enumeration of credential files (the complementary dynamic check)", "JSON decoding semantics of encoding/json (trusted)"},
		Run:        runC19,
	})
}

// sliceElems returns the values stored into the backing array of a variadic slice.
func sliceElems(v ssa.Value) []ssa.Value {
	sl, ok := v.(*ssa.Slice)
	if !ok {
		return nil
	}
	al, ok := sl.X.(*ssa.Alloc)
	if !ok {
		return nil
	}
	var out []ssa.Value
	for _, r := range *al.Referrers() {
		ia, ok := r.(*ssa.IndexAddr)
		if !ok {
			continue
		}
		for _, rr := range *ia.Referrers() {
			if st, ok := rr.(*ssa.Store); ok && st.Addr == ia {
				out = append(out, st.Val)
			}
		}
	}
	return out
}

func isParamN(fn *ssa.Function, idx int) func(ssa.Value) bool {
	return func(v ssa.Value) bool {
		return idx < len(fn.Params) && an.Unwrap(v) == ssa.Value(fn.Params[idx])
	}
}

func isConstStr(s string) func(ssa.Value) bool {
	return func(v ssa.Value) bool {
		c, ok := an.ConstString(v)
		return ok && c == s
	}
}

func runC19(c *core.Ctx) {
	c19c(c)
	// ---- AA
	if fn := c.Fn("C19.a", "auth", "(*CredentialsStore).AA"); fn != nil {
		// params: c, username, password, perm
		hasAny := func(who func(ssa.Value) bool) func(ssa.Value) bool {
			return func(v ssa.Value) bool {
				call, ok := v.(*ssa.Call)
				if !ok || !an.IsCall(call, "auth.CredentialsStore.HasAnyPerm") {
					return false
				}
				args := call.Common().Args
				if len(args) != 3 || !who(args[1]) {
					return false
				}
				el := sliceElems(args[2])
				if len(el) != 2 {
					return false
				}
				perm, all := false, false
				for _, e := range el {
					if isParamN(fn, 3)(e) {
						perm = true
					}
					if isConstStr("all")(e) {
						all = true
					}
				}
				return perm && all
			}
		}
		allHas := hasAny(isConstStr("*"))
		userHas := hasAny(isParamN(fn, 1))
		spec := an.DecideSpec{
			Fn:   fn,
			Vars: []an.Var{an.Bool("storeNil"), an.Bool("allUsersHave"), an.Bool("usernameEmpty"), an.Bool("passwordOK"), an.Bool("userHas")},
			Conds: []an.CondMatcher{
				an.NilCond("storeNil", isParamN(fn, 0)),
				an.BoolCond("allUsersHave", allHas),
				func(cond ssa.Value) (func(an.Val) bool, bool) {
					b, ok := cond.(*ssa.BinOp)
					if !ok || (b.Op != token.EQL && b.Op != token.NEQ) {
						return nil, false
					}
					if !(isParamN(fn, 1)(b.X) && isConstStr("")(b.Y)) && !(isParamN(fn, 1)(b.Y) && isConstStr("")(b.X)) {
						return nil, false
					}
					eq := b.Op == token.EQL
					return func(v an.Val) bool { return (v["usernameEmpty"] == 1) == eq }, true
				},
				an.BoolCond("passwordOK", func(v ssa.Value) bool {
					call, ok := v.(*ssa.Call)
					if !ok || !an.IsCall(call, "auth.CredentialsStore.Check") {
						return false
					}
					a := call.Common().Args
					return len(a) == 3 && isParamN(fn, 1)(a[1]) && isParamN(fn, 2)(a[2])
				}),
				an.BoolCond("userHas", userHas),
			},
			Ret: func(r *ssa.Return, resolve func(ssa.Value) ssa.Value) string {
				v := resolve(r.Results[0])
				if b, ok := an.ConstBool(v); ok {
					if b {
						return "true"
					}
					return "false"
				}
				if userHas(v) {
					return "userHas"
				}
				if allHas(v) {
					return "allUsersHave"
				}
				return an.Canon(v)
			},
			Ref: func(v an.Val) string {
				switch {
				case v["storeNil"] == 1:
					return " => true"
				case v["allUsersHave"] == 1:
					return " => true"
				case v["usernameEmpty"] == 1:
					return " => false"
				case v["passwordOK"] == 0:
					return " => false"
				}
				return " => userHas"
			},
		}
		reportDecide(c, "C19.a", "(*CredentialsStore).AA", c.P.Pos(fn.Pos()), an.Decide(spec, c.P.Pos))
	}

	// ---- Check: ok && pw == password
	if fn := c.Fn("C19.a", "auth", "(*CredentialsStore).Check"); fn != nil {
		isStoreLookup := func(v ssa.Value, idx int) bool {
			e, ok := v.(*ssa.Extract)
			if !ok || e.Index != idx {
				return false
			}
			l, ok := e.Tuple.(*ssa.Lookup)
			return ok && an.LoadedField(l.X, "CredentialsStore", "store") && isParamN(fn, 1)(l.Index)
		}
		spec := an.DecideSpec{
			Fn:    fn,
			Vars:  []an.Var{an.Bool("known")},
			Conds: []an.CondMatcher{an.BoolCond("known", func(v ssa.Value) bool { return isStoreLookup(v, 1) })},
			Ret: func(r *ssa.Return, resolve func(ssa.Value) ssa.Value) string {
				v := resolve(r.Results[0])
				if b, ok := an.ConstBool(v); ok {
					if b {
						return "true"
					}
					return "false"
				}
				if bo, ok := v.(*ssa.BinOp); ok && bo.Op == token.EQL {
					if (isStoreLookup(bo.X, 0) && isParamN(fn, 2)(bo.Y)) || (isStoreLookup(bo.Y, 0) && isParamN(fn, 2)(bo.X)) {
						return "stored==presented"
					}
				}
				return an.Canon(v)
			},
			Ref: func(v an.Val) string {
				if v["known"] == 0 {
					return " => false"
				}
				return " => stored==presented"
			},
		}
		reportDecide(c, "C19.a", "(*CredentialsStore).Check", c.P.Pos(fn.Pos()), an.Decide(spec, c.P.Pos))
	}

	// ---- HasPerm
	if fn := c.Fn("C19.a", "auth", "(*CredentialsStore).HasPerm"); fn != nil {
		// first-level lookups c.perms[k]
		lvl1 := func(key func(ssa.Value) bool) func(ssa.Value) bool {
			return func(v ssa.Value) bool {
				e, ok := v.(*ssa.Extract)
				if !ok || e.Index != 1 {
					return false
				}
				l, ok := e.Tuple.(*ssa.Lookup)
				return ok && an.LoadedField(l.X, "CredentialsStore", "perms") && (key(l.Index) || key(an.Rz(l.Index)))
			}
		}
		lvl2 := func(key func(ssa.Value) bool) func(ssa.Value) bool {
			return func(v ssa.Value) bool {
				e, ok := v.(*ssa.Extract)
				if !ok || e.Index != 1 {
					return false
				}
				l, ok := e.Tuple.(*ssa.Lookup)
				if !ok || !(isParamN(fn, 2)(l.Index) || isParamN(fn, 2)(an.Rz(l.Index))) {
					return false
				}
				m, ok := l.X.(*ssa.Extract)
				if !ok || m.Index != 0 {
					return false
				}
				l1, ok := m.Tuple.(*ssa.Lookup)
				return ok && an.LoadedField(l1.X, "CredentialsStore", "perms") && (key(l1.Index) || key(an.Rz(l1.Index)))
			}
		}
		user, all := isParamN(fn, 1), isConstStr("*")
		spec := an.DecideSpec{
			Fn:   fn,
			Vars: []an.Var{an.Bool("userEntry"), an.Bool("userPerm"), an.Bool("allEntry"), an.Bool("allPerm")},
			Conds: []an.CondMatcher{
				an.BoolCond("userEntry", lvl1(user)), an.BoolCond("userPerm", lvl2(user)),
				an.BoolCond("allEntry", lvl1(all)), an.BoolCond("allPerm", lvl2(all)),
			},
			Ref: func(v an.Val) string {
				if (v["userEntry"] == 1 && v["userPerm"] == 1) || (v["allEntry"] == 1 && v["allPerm"] == 1) {
					return " => true"
				}
				return " => false"
			},
		}
		reportDecide(c, "C19.a", "(*CredentialsStore).HasPerm", c.P.Pos(fn.Pos()), an.Decide(spec, c.P.Pos))
	}

	// ---- HasAnyPerm: any-of over the given perms, for the given username
	if fn := c.Fn("C19.a", "auth", "(*CredentialsStore).HasAnyPerm"); fn != nil && c19anyOfLibraryForm(fn) {
		c.OK("C19.a", "DECIDE", "(*CredentialsStore).HasAnyPerm", c.P.Pos(fn.Pos()), "HasAnyPerm is slices.ContainsFunc over the caller's permission list with HasPerm(username, p) as the predicate: any-of by definition")
	} else if fn != nil {
		target := fn
		if len(fn.AnonFuncs) == 1 {
			target = fn.AnonFuncs[0]
			c.Touch(target)
		}
		spec := an.DecideSpec{
			Fn:   target,
			Vars: []an.Var{an.Bool("more"), an.Bool("has")},
			Conds: []an.CondMatcher{
				func(cond ssa.Value) (func(an.Val) bool, bool) {
					b, ok := cond.(*ssa.BinOp)
					if !ok || b.Op != token.LSS {
						return nil, false
					}
					call, ok := b.Y.(*ssa.Call)
					if !ok {
						return nil, false
					}
					if bi, ok := call.Common().Value.(*ssa.Builtin); !ok || bi.Name() != "len" {
						return nil, false
					}
					return func(v an.Val) bool { return v["more"] == 1 }, true
				},
				an.BoolCond("has", func(v ssa.Value) bool {
					call, ok := v.(*ssa.Call)
					if !ok || !an.IsCall(call, "auth.CredentialsStore.HasPerm") {
						return false
					}
					// username must be HasAnyPerm's own username (captured or parameter)
					u := call.Common().Args[1]
					switch x := u.(type) {
					case *ssa.Parameter:
						return x.Name() == fn.Params[1].Name()
					case *ssa.FreeVar:
						return x.Name() == fn.Params[1].Name()
					case *ssa.UnOp:
						if fv, ok := x.X.(*ssa.FreeVar); ok {
							return fv.Name() == fn.Params[1].Name()
						}
					}
					return false
				}),
			},
			Ref: func(v an.Val) string {
				if v["more"] == 0 {
					return " => false"
				}
				if v["has"] == 1 {
					return " => true"
				}
				return " => loop"
			},
		}
		reportDecide(c, "C19.a", "(*CredentialsStore).HasAnyPerm", c.P.Pos(fn.Pos()), an.Decide(spec, c.P.Pos))
		// the closure must be invoked with the variadic parameter itself
		if target != fn {
			ok := false
			an.Instrs(fn, func(in ssa.Instruction) {
				if call, isC := in.(*ssa.Call); isC {
					if mc, isM := call.Common().Value.(*ssa.MakeClosure); isM && mc.Fn == ssa.Value(target) {
						if len(call.Common().Args) == 1 && isParamN(fn, 2)(call.Common().Args[0]) {
							ok = true
						}
					}
				}
			})
			c.Result(ok, "C19.a", "DECIDE", "(*CredentialsStore).HasAnyPerm:args", c.P.Pos(fn.Pos()), "the any-of loop runs over the caller's permission list", "the any-of loop does not receive the caller's permission list", nil)
		}
	}

	// ---- Load
	if fn := c.Fn("C19.b", "auth", "(*CredentialsStore).Load"); fn != nil {
		decs := an.CallsTo(fn, false, "encoding/json.Decoder.Decode")
		c.Count("JSON decode sites in Load", len(decs))
		c.Min("JSON decode sites in Load", 1)
		for _, d := range decs {
			target := an.Unwrap(d.Common().Args[1])
			al, ok := target.(*ssa.Alloc)
			if !ok {
				c.Unk("C19.b", "INIT", "Load:decode-target", c.P.Pos(d.Pos()), "decode target is not a local variable")
				continue
			}
			fresh := an.ReachableFrom(d, al, nil) // allocation re-executed every iteration
			if !fresh {
				// or zeroed in the loop before decoding: a store of a zero value to the cell on every path from the previous decode
				zeroed := len(an.Ungated(an.CutSpec{Fn: fn, Start: d,
					GateInstr: func(in ssa.Instruction) bool {
						st, ok := in.(*ssa.Store)
						return ok && st.Addr == ssa.Value(al)
					},
					Sink: func(in ssa.Instruction) bool { return in == ssa.Instruction(d.(*ssa.Call)) }})) == 0
				fresh = zeroed
			}
			c.Result(fresh, "C19.b", "INIT", "Load:decode-target-fresh", c.P.Pos(d.Pos()),
				"the decode target is allocated or reset inside the per-entry loop",
				"the decode target is declared outside the loop and never reset: an entry that omits 'password' or 'perms' inherits them from the previous entry (a user defined without perms gains the previous user's permissions)", nil)
		}
		// permission map replaced before it is filled
		// (the per-entry statements may live in Load's loop or in a helper called from that loop)
		ok := false
		hosts := []*ssa.Function{fn}
		perEntry := map[*ssa.Function]bool{}
		for _, call := range an.AllCalls(fn, false) {
			if callee := call.Common().StaticCallee(); callee != nil && core.InModule(callee) && len(callee.Blocks) > 0 {
				hosts = append(hosts, callee)
				if an.ReachableFrom(call.(ssa.Instruction), call.(ssa.Instruction), nil) {
					perEntry[callee] = true
				}
			}
		}
		for _, host := range hosts {
			var replace, fill []*ssa.MapUpdate
			an.Instrs(host, func(in ssa.Instruction) {
				mu, isMU := in.(*ssa.MapUpdate)
				if !isMU {
					return
				}
				if an.LoadedField(mu.Map, "CredentialsStore", "perms") {
					if _, isMk := mu.Value.(*ssa.MakeMap); isMk {
						replace = append(replace, mu)
					}
				} else if l, isL := mu.Map.(*ssa.Lookup); isL && an.LoadedField(l.X, "CredentialsStore", "perms") {
					fill = append(fill, mu)
				}
			})
			if len(fill) == 0 {
				continue
			}
			okHost := len(replace) > 0
			for _, f := range fill {
				dom := false
				for _, r := range replace {
					if an.Dominates(r, f) && (perEntry[host] || an.ReachableFrom(f, r, nil)) {
						dom = true
					}
				}
				okHost = okHost && dom
			}
			ok = okHost
			if !okHost {
				break
			}
		}
		// … and every accepted entry (password recorded) replaces the permission map, whatever its
		// perms are: an entry without perms must still wipe the permissions of an earlier definition
		for _, host := range hosts {
			var pw []ssa.Instruction
			an.Instrs(host, func(in ssa.Instruction) {
				if mu, isMU := in.(*ssa.MapUpdate); isMU && an.LoadedField(mu.Map, "CredentialsStore", "store") {
					pw = append(pw, in)
				}
			})
			isReplace := func(in ssa.Instruction) bool {
				mu, isMU := in.(*ssa.MapUpdate)
				if !isMU || !an.LoadedField(mu.Map, "CredentialsStore", "perms") {
					return false
				}
				_, isMk := mu.Value.(*ssa.MakeMap)
				return isMk
			}
			for _, p := range pw {
				start := p
				h := an.Ungated(an.CutSpec{Fn: host, Start: start, GateInstr: isReplace, Sink: func(in ssa.Instruction) bool {
					if _, isR := in.(*ssa.Return); isR {
						return true
					}
					return in == start // next iteration
				}})
				if len(h) > 0 {
					ok = false
				}
			}
		}
		c.Result(ok, "C19.b", "INIT", "Load:perms-replaced", c.P.Pos(fn.Pos()),
			"each entry installs a fresh permission map for its user before adding permissions (last definition wins)",
			"permissions of a user defined twice are merged instead of replaced (no fresh map is installed per entry before filling)", nil)
	}
}

// c19anyOfLibraryForm: HasAnyPerm written as
//
//	return slices.ContainsFunc(perm, func(p string) bool { return c.HasPerm(username, p) })
//
// — the standard library's any-of over the caller's permission list, with
// HasPerm for HasAnyPerm's own user as the predicate.
func c19anyOfLibraryForm(fn *ssa.Function) bool {
	if len(fn.Params) < 3 || len(fn.AnonFuncs) != 1 {
		return false
	}
	g := fn.AnonFuncs[0]
	var lib *ssa.Call
	for _, ci := range an.AllCalls(fn, false) {
		if call, ok := ci.(*ssa.Call); ok && strings.HasPrefix(an.CalleeID(call), "slices.ContainsFunc") {
			if lib != nil {
				return false
			}
			lib = call
		}
	}
	if lib == nil || len(lib.Call.Args) != 2 || !isParamN(fn, 2)(lib.Call.Args[0]) {
		return false
	}
	if mc, ok := an.Unwrap(lib.Call.Args[1]).(*ssa.MakeClosure); !ok || mc.Fn != ssa.Value(g) {
		return false
	}
	// every return of HasAnyPerm is the library call's verdict
	rets := an.Returns(fn)
	if len(rets) == 0 {
		return false
	}
	for _, r := range rets {
		if len(r.Results) != 1 || an.Unwrap(r.Results[0]) != ssa.Value(lib) {
			return false
		}
	}
	// the predicate: return c.HasPerm(username, p)
	grets := an.Returns(g)
	if len(grets) != 1 || len(grets[0].Results) != 1 || len(g.Params) != 1 {
		return false
	}
	hp, ok := an.Unwrap(grets[0].Results[0]).(*ssa.Call)
	if !ok || !an.IsCall(hp, "auth.CredentialsStore.HasPerm") || len(hp.Call.Args) != 3 {
		return false
	}
	user := hp.Call.Args[1]
	if u, isU := user.(*ssa.UnOp); isU {
		user = u.X
	}
	fv, isFV := user.(*ssa.FreeVar)
	return isFV && fv.Name() == fn.Params[1].Name() && an.Unwrap(hp.Call.Args[2]) == ssa.Value(g.Params[0])
}
