package props

import (
	"fmt"
	"go/ast"
	"go/token"
	"go/types"
	"sort"
	"strings"

	"golang.org/x/tools/go/ssa"

	"rqverif/checker/internal/an"
	"rqverif/checker/internal/core"
)

func init() {
	register(&core.Check{
		ID:    "C20",
		Title: "Forwarding to the leader is transparent and never local",
		Explanation: "C20.a DECIDE (sibling agreement): each of the seven proxy.Proxy methods is interpreted for all valuations of {local result is ErrNotLeader, noForward, leader address found, remote call ok} and must match one template: local store call once → forward only on errors.Is(err, ErrNotLeader) and !noForward → leaderAddr → cluster call with the same request value, that leader address and the method's own creds parameter (SSA identity) → the remote call's results returned unchanged with the leader's address; no second store call on the forward path. " +
			"C20.b CONST/WHO: every call of a Proxy method in package http passes makeCredentials(r) as credentials (a nil literal is reported). " +
			"C20.c DOM: DoRedirect is reached only on the edge where the proxy returned ErrNotLeader, and the handlers pass qp.Redirect() as noForward. " +
			"C20.d TABLE: for every Command_Type the request wrapper and response message used by cluster.Client equal the payload getter and response message used in the matching case of cluster.Service.handleConn. " +
			"C20.e ORD: cluster.Client.retry may send a command again only if the previous attempt failed before the request was written; a second send reachable from the failure of the combined write-and-read step is reported (the leader may already have applied the command). " +
			"C20.f PAIR: in package cluster, after every failed writeCommand / readResponse / writeCommandReadResponse the pooled connection is marked unusable (handleConnError / MarkUnusable, directly or through a helper all of whose paths do it) on every path before the function returns; otherwise a late response stays queued on a pooled connection and is read as the answer to the next forwarded request.",
		NotCovered: []string{"behaviour while leadership moves between the local call and the forward", "redirect URL formation"},
		Run:        runC20,
	})
}

type proxyRow struct {
	method, storeCall, clusterCall string
	localData, remoteData          []int // result indices returned as data
	reqParam                       int   // index of the request parameter (-1: built locally)
}

var proxyRows = []proxyRow{
	{"Execute", "Execute", "Execute", []int{0, 1}, []int{0, 1}, 2},
	{"Query", "Query", "Query", []int{0, 2}, []int{0, 1}, 2},
	{"Request", "Request", "Request", []int{0, 1, 2}, []int{0, 1, 2}, 2},
	{"Backup", "Backup", "Backup", nil, nil, 2},
	{"Load", "Load", "Load", nil, nil, 2},
	{"Remove", "Remove", "RemoveNode", nil, nil, 2},
	{"Stepdown", "Stepdown", "Stepdown", nil, nil, -1},
}

func runC20(c *core.Ctx) {
	c20ConnHygiene(c)
	n := 0
	for _, row := range proxyRows {
		if c20proxy(c, row) {
			n++
		}
	}
	c.Count("proxy methods matching the forwarding template", n)
	c.Min("proxy methods matching the forwarding template", 7)
	c20leaderAddr(c)
	c20creds(c)
	c20redirect(c)
	c20wire(c)
	c20retry(c)
}

func c20proxy(c *core.Ctx, row proxyRow) bool {
	fn := c.Fn("C20.a", "proxy", "(*Proxy)."+row.method)
	if fn == nil {
		return false
	}
	var local, remote, la *ssa.Call
	an.Instrs(fn, func(in ssa.Instruction) {
		call, ok := in.(*ssa.Call)
		if !ok {
			return
		}
		switch {
		case recvField(call, "Proxy") == "store" && call.Common().Method != nil && call.Common().Method.Name() == row.storeCall:
			if local == nil {
				local = call
			}
		case recvField(call, "Proxy") == "cluster" && call.Common().Method != nil && call.Common().Method.Name() == row.clusterCall:
			if remote == nil {
				remote = call
			}
		case an.IsCall(call, "proxy.Proxy.leaderAddr"):
			la = call
		}
	})
	// the leader lookup behind a small unexported helper of the package shared by
	// the sibling methods (e.g. "not when noForward, else leaderAddr"): the
	// interpreter steps into it, and the lookup is the call inside it
	var laHelper *ssa.Function
	if la == nil {
		an.Instrs(fn, func(in ssa.Instruction) {
			call, ok := in.(*ssa.Call)
			if !ok || la != nil {
				return
			}
			h := call.Common().StaticCallee()
			if h == nil || h.Pkg != fn.Pkg || len(h.Blocks) == 0 || ast.IsExported(h.Name()) || len(h.Blocks) > 8 {
				return
			}
			if inner := an.CallsTo(h, false, "proxy.Proxy.leaderAddr"); len(inner) == 1 {
				la, laHelper = inner[0].(*ssa.Call), h
			}
		})
	}
	if local == nil || remote == nil || la == nil {
		c.Bad("C20.a", "TABLE", "Proxy."+row.method+":template", c.P.Pos(fn.Pos()), "the method does not contain the local store call, the leader lookup and the cluster call of the forwarding template", nil)
		return false
	}
	creds := an.Param(fn, "creds")
	class := func(v ssa.Value) string {
		v = an.Unwrap(v)
		if e, ok := v.(*ssa.Extract); ok {
			switch e.Tuple {
			case ssa.Value(local):
				return fmt.Sprintf("L#%d", e.Index)
			case ssa.Value(remote):
				return fmt.Sprintf("R#%d", e.Index)
			case ssa.Value(la):
				if e.Index == 0 {
					return "leader"
				}
				return "addrErr"
			}
		}
		if v == ssa.Value(local) {
			return "L"
		}
		if v == ssa.Value(remote) {
			return "R"
		}
		if call, ok := v.(*ssa.Call); ok {
			if an.IsCall(call, "proxy.Proxy.GetAPIAddr") {
				return "self"
			}
			if an.IsCall(call, "proxy.wrapIfUnauthorized") {
				a := an.Unwrap(call.Common().Args[0])
				if e, ok := a.(*ssa.Extract); ok && e.Tuple == ssa.Value(remote) {
					return "wrap(R)"
				}
				if a == ssa.Value(remote) {
					return "wrap(R)"
				}
				return "wrap(?)"
			}
		}
		if cst, ok := v.(*ssa.Const); ok {
			if cst.Value == nil {
				return "nil"
			}
			return cst.Value.ExactString()
		}
		return errName(v)
	}
	spec := an.DecideSpec{
		Fn:   fn,
		Step: func(g *ssa.Function) bool { return laHelper != nil && g == laHelper },
		Vars: []an.Var{an.Bool("notLeader"), an.Bool("noForward"), an.Bool("addrOK"), an.Bool("remoteOK")},
		Conds: []an.CondMatcher{
			an.BoolCond("notLeader", func(v ssa.Value) bool {
				call, ok := v.(*ssa.Call)
				if !ok || !an.IsCall(call, "errors.Is") {
					return false
				}
				a := call.Common().Args
				fromLocal := false
				x := an.Unwrap(a[0])
				if e, ok := x.(*ssa.Extract); ok && e.Tuple == ssa.Value(local) {
					fromLocal = true
				}
				if x == ssa.Value(local) {
					fromLocal = true
				}
				return fromLocal && an.HasGlobal("ErrNotLeader")(a[1])
			}),
			an.BoolCond("noForward", an.IsParam("noForward")),
			an.NilCond("addrOK", func(v ssa.Value) bool {
				e, ok := v.(*ssa.Extract)
				return ok && e.Tuple == ssa.Value(la) && e.Index == 1
			}),
			an.NilCond("remoteOK", func(v ssa.Value) bool {
				v = an.Unwrap(v)
				if e, ok := v.(*ssa.Extract); ok {
					return e.Tuple == ssa.Value(remote)
				}
				return v == ssa.Value(remote)
			}),
		},
		Effect: func(in ssa.Instruction) (string, bool) {
			call, ok := in.(*ssa.Call)
			if !ok {
				return "", false
			}
			switch {
			case recvField(call, "Proxy") == "store" && call.Common().Method != nil && call.Common().Method.Name() != "LeaderAddr":
				return "store." + call.Common().Method.Name(), true
			case an.IsCall(call, "proxy.Proxy.leaderAddr"):
				return "leaderAddr", true
			case recvField(call, "Proxy") == "cluster":
				args := call.Common().Args
				okReq, okAddr, okCreds := false, false, false
				for _, a := range args {
					a = an.Unwrap(a)
					if row.reqParam >= 0 && a == ssa.Value(fn.Params[row.reqParam]) {
						okReq = true
					}
					if e, isE := a.(*ssa.Extract); isE && e.Tuple == ssa.Value(la) && e.Index == 0 {
						okAddr = true
					}
					if e, isE := an.Unwrap(an.Rz(a)).(*ssa.Extract); isE && e.Tuple == ssa.Value(la) && e.Index == 0 {
						okAddr = true
					}
					if creds != nil && a == ssa.Value(creds) {
						okCreds = true
					}
					if row.reqParam < 0 {
						if al, isA := a.(*ssa.Alloc); isA && strings.HasSuffix(al.Type().String(), "StepdownRequest") {
							okReq = true
						}
					}
				}
				return fmt.Sprintf("cluster.%s(req=%v,leader=%v,creds=%v)", call.Common().Method.Name(), okReq, okAddr, okCreds), true
			}
			return "", false
		},
		Ret: func(r *ssa.Return, resolve func(ssa.Value) ssa.Value) string {
			var parts []string
			for _, x := range r.Results {
				parts = append(parts, class(resolve(x)))
			}
			return strings.Join(parts, ",")
		},
		Ref: func(v an.Val) string {
			nData := len(row.localData)
			zeros := func() []string {
				var z []string
				for i := 0; i < nData; i++ {
					if i == 0 && nData > 0 {
						z = append(z, "nil")
					} else {
						z = append(z, "0")
					}
				}
				return z
			}
			localName := "store." + row.storeCall
			remoteEff := fmt.Sprintf("cluster.%s(req=true,leader=true,creds=true)", row.clusterCall)
			single := nData == 0
			lerr := "L"
			rerr := "wrap(R)"
			if !single {
				lerr = fmt.Sprintf("L#%d", maxIdx(row.localData)+1)
			}
			switch {
			case v["notLeader"] == 0:
				var p []string
				for _, i := range row.localData {
					p = append(p, fmt.Sprintf("L#%d", i))
				}
				p = append(p, "self", lerr)
				return localName + " => " + strings.Join(p, ",")
			case v["noForward"] == 1:
				return localName + " => " + strings.Join(append(zeros(), `""`, "ErrNotLeader"), ",")
			case v["addrOK"] == 0:
				return localName + ";leaderAddr => " + strings.Join(append(zeros(), `""`, "addrErr"), ",")
			case v["remoteOK"] == 0:
				return localName + ";leaderAddr;" + remoteEff + " => " + strings.Join(append(zeros(), `""`, rerr), ",")
			}
			var p []string
			for _, i := range row.remoteData {
				p = append(p, fmt.Sprintf("R#%d", i))
			}
			p = append(p, "leader", "nil")
			return localName + ";leaderAddr;" + remoteEff + " => " + strings.Join(p, ",")
		},
	}
	res := an.Decide(spec, c.P.Pos)
	reportDecide(c, "C20.a", "(*Proxy)."+row.method, c.P.Pos(fn.Pos()), res)
	return len(res.Mismatches) == 0 && len(res.Undecided) == 0 && res.Rows > 0
}

func maxIdx(a []int) int {
	m := 0
	for _, x := range a {
		if x > m {
			m = x
		}
	}
	return m
}

func c20leaderAddr(c *core.Ctx) {
	fn := c.Fn("C20.a", "proxy", "(*Proxy).leaderAddr")
	if fn == nil {
		return
	}
	spec := an.DecideSpec{
		Fn:   fn,
		Vars: []an.Var{an.Bool("ok"), an.Bool("empty")},
		Conds: []an.CondMatcher{
			an.NilCond("ok", func(v ssa.Value) bool {
				e, ok := v.(*ssa.Extract)
				return ok && e.Index == 1
			}),
			func(cond ssa.Value) (func(an.Val) bool, bool) {
				b, ok := cond.(*ssa.BinOp)
				if !ok || b.Op != token.EQL {
					return nil, false
				}
				if s, ok := an.ConstString(b.Y); !ok || s != "" {
					return nil, false
				}
				return func(v an.Val) bool { return v["empty"] == 1 }, true
			},
		},
		Ret: func(r *ssa.Return, resolve func(ssa.Value) ssa.Value) string {
			a := "addr"
			if s, ok := an.ConstString(resolve(r.Results[0])); ok {
				a = fmt.Sprintf("%q", s)
			}
			return a + "," + errName(resolve(r.Results[1]))
		},
		Ref: func(v an.Val) string {
			if v["ok"] == 0 {
				return ` => "",err(LeaderAddr)`
			}
			if v["empty"] == 1 {
				return ` => "",ErrLeaderNotFound`
			}
			return " => addr,nil"
		},
	}
	reportDecide(c, "C20.a", "(*Proxy).leaderAddr", c.P.Pos(fn.Pos()), an.Decide(spec, c.P.Pos))
}

func c20creds(c *core.Ctx) {
	sp := c.P.SPkg("http")
	if sp == nil {
		return
	}
	sites := 0
	for _, fn := range pkgFuncs(sp) {
		an.Instrs(fn, func(in ssa.Instruction) {
			call, ok := in.(*ssa.Call)
			if !ok {
				return
			}
			id := an.CalleeID(call)
			if !strings.HasPrefix(id, "proxy.Proxy.") {
				return
			}
			sc := call.Common().StaticCallee()
			if sc == nil {
				return
			}
			ci := -1
			for i, p := range sc.Params {
				if p.Name() == "creds" {
					ci = i
				}
			}
			if ci < 0 {
				return
			}
			sites++
			c.Sites++
			c.Touch(fn)
			arg := call.Common().Args[ci]
			name := core.FuncName(an.TopFunc(fn))
			construct := name + ":" + strings.TrimPrefix(id, "proxy.Proxy.")
			if k := occurrenceOf(an.TopFunc(fn), call, id); k > 1 {
				construct += fmt.Sprintf("#%d", k)
			}
			ok2 := callResult(arg, -1, "http.makeCredentials")
			c.Result(ok2, "C20.b", "CONST", construct+":creds", c.P.Pos(call.Pos()),
				"the caller's credentials (makeCredentials(r)) are passed to the proxy",
				"the proxy is called with "+an.Canon(arg)+" instead of the caller's credentials: when this node is not the leader the request is forwarded without credentials and an auth-enabled leader answers 'unauthorized'", nil)
		})
	}
	c.Count("Proxy call sites in package http", sites)
	c.Min("Proxy call sites in package http", 10)
}

func occurrenceOf(fn *ssa.Function, target *ssa.Call, id string) int {
	type pi struct {
		pos token.Pos
		c   *ssa.Call
	}
	var all []pi
	for _, f := range an.WithClosures(fn) {
		an.Instrs(f, func(in ssa.Instruction) {
			if call, ok := in.(*ssa.Call); ok && an.CalleeID(call) == id {
				all = append(all, pi{call.Pos(), call})
			}
		})
	}
	sort.Slice(all, func(i, j int) bool { return all[i].pos < all[j].pos })
	for i, x := range all {
		if x.c == target {
			return i + 1
		}
	}
	return 0
}

func c20redirect(c *core.Ctx) {
	sp := c.P.SPkg("http")
	if sp == nil {
		return
	}
	n := 0
	for _, fn := range pkgFuncs(sp) {
		for _, rd := range an.CallsTo(fn, false, "http.Service.DoRedirect") {
			n++
			c.Touch(fn)
			// gate: errors.Is(err, proxy.ErrNotLeader) true edge
			gate := map[an.Edge]bool{}
			an.Instrs(fn, func(in ssa.Instruction) {
				call, ok := in.(*ssa.Call)
				if !ok || !an.IsCall(call, "errors.Is") || !an.HasGlobal("ErrNotLeader")(call.Common().Args[1]) {
					return
				}
				for e := range an.SenseEdges(fn, []ssa.Value{call}, an.IsTrue) {
					gate[e] = true
				}
			})
			// plain comparison err == ErrNotLeader also accepted
			rdi := rd
			hits := an.Ungated(an.CutSpec{Fn: fn, GateEdge: gate, Sink: func(in ssa.Instruction) bool { return in == rdi.(ssa.Instruction) }})
			c.Result(len(hits) == 0, "C20.c", "DOM", core.FuncName(fn)+":redirect-only-on-not-leader", c.P.Pos(rd.Pos()),
				"DoRedirect only on the edge where the proxy reported ErrNotLeader", "DoRedirect reachable without the proxy having reported ErrNotLeader", nil)
		}
		// noForward argument is qp.Redirect()
		an.Instrs(fn, func(in ssa.Instruction) {
			call, ok := in.(*ssa.Call)
			if !ok || !strings.HasPrefix(an.CalleeID(call), "proxy.Proxy.") {
				return
			}
			sc := call.Common().StaticCallee()
			if sc == nil {
				return
			}
			for i, p := range sc.Params {
				if p.Name() != "noForward" {
					continue
				}
				arg := call.Common().Args[i]
				if callResult(arg, -1, "http.QueryParams.Redirect") {
					continue
				}
				if b, isC := an.ConstBool(arg); isC && !b {
					switch core.FuncName(an.TopFunc(fn)) {
					case "(*http.Service).runQueue":
						continue // the queue has no client to redirect: always forward
					case "(*http.Service).handleReadyz":
						continue // readiness probe: a level-NONE "SELECT 1", which never yields ErrNotLeader
					}
				}
				c.Bad("C20.c", "DOM", core.FuncName(an.TopFunc(fn))+":noForward", c.P.Pos(call.Pos()), "noForward is "+an.Canon(arg)+", not the client's redirect choice", nil)
			}
		})
	}
	c.Count("redirect sites", n)
	c.Min("redirect sites", 5)
}

// c20wire: client/server agreement per command type.
func c20wire(c *core.Ctx) {
	srv := c.Fn("C20.d", "cluster", "(*Service).handleConn")
	if srv == nil {
		return
	}
	type entry struct{ getter, resp string }
	server := map[int64]entry{}
	isProtoAlloc := func(in ssa.Instruction) string {
		al, ok := in.(*ssa.Alloc)
		if !ok {
			return ""
		}
		n, ok := al.Type().(*types.Pointer).Elem().(*types.Named)
		if !ok || n.Obj().Pkg() == nil || !strings.HasSuffix(n.Obj().Pkg().Path(), "cluster/proto") {
			return ""
		}
		return n.Obj().Name()
	}
	for _, b := range srv.Blocks {
		if len(b.Instrs) == 0 {
			continue
		}
		ifi, ok := b.Instrs[len(b.Instrs)-1].(*ssa.If)
		if !ok {
			continue
		}
		bo, ok := ifi.Cond.(*ssa.BinOp)
		if !ok || bo.Op != token.EQL || !an.LoadedField(bo.X, "Command", "Type") {
			continue
		}
		k, ok := an.ConstInt(bo.Y)
		if !ok {
			continue
		}
		e := entry{}
		top := b.Succs[0]
		for _, rb := range srv.Blocks {
			if rb != top && !top.Dominates(rb) {
				continue
			}
			for _, in := range rb.Instrs {
				if call, ok := in.(*ssa.Call); ok {
					id := an.CalleeID(call)
					if strings.HasPrefix(id, "cluster/proto.Command.Get") && strings.HasSuffix(id, "Request") && e.getter == "" {
						e.getter = strings.TrimPrefix(id, "cluster/proto.Command.Get")
					}
				}
				if n := isProtoAlloc(in); n != "" && (strings.HasSuffix(n, "Response") || n == "NodeMeta") && e.resp == "" {
					e.resp = n
				}
			}
		}
		server[k] = e
	}
	// client side
	cp := c.P.SPkg("cluster")
	client := map[int64]entry{}
	clientFn := map[int64]string{}
	for _, fn := range pkgFuncs(cp) {
		if fn.Signature.Recv() == nil || !strings.Contains(fn.Signature.Recv().Type().String(), "cluster.Client") || fn.Parent() != nil {
			continue
		}
		var k int64 = -1
		e := entry{}
		for _, f := range an.WithClosures(fn) {
			an.Instrs(f, func(in ssa.Instruction) {
				if st, ok := in.(*ssa.Store); ok {
					if t, fld, _, ok := an.FieldOf(st.Addr); ok && t == "Command" && fld == "Type" {
						if kk, ok := an.ConstInt(st.Val); ok {
							k = kk
						}
					}
				}
				if n := isProtoAlloc(in); n != "" {
					if strings.HasPrefix(n, "Command_") && e.getter == "" {
						e.getter = strings.TrimPrefix(n, "Command_")
					}
					if (strings.HasSuffix(n, "Response") || n == "NodeMeta") && e.resp == "" {
						e.resp = n
					}
				}
			})
		}
		if k >= 0 {
			client[k] = e
			clientFn[k] = core.FuncName(fn)
			c.Touch(fn)
		}
	}
	rows := 0
	keys := make([]int64, 0, len(client))
	for k := range client {
		keys = append(keys, k)
	}
	sort.Slice(keys, func(i, j int) bool { return keys[i] < keys[j] })
	for _, k := range keys {
		ce := client[k]
		se, ok := server[k]
		construct := fmt.Sprintf("type=%d:%s", k, clientFn[k])
		if !ok {
			c.Bad("C20.d", "TABLE", construct, c.P.Pos(srv.Pos()), fmt.Sprintf("the client sends command type %d but handleConn has no case for it", k), nil)
			continue
		}
		rows++
		okRow := ce.resp == se.resp && (ce.getter == se.getter || se.getter == "")
		c.Result(okRow, "C20.d", "TABLE", construct, c.P.Pos(srv.Pos()),
			fmt.Sprintf("client {%s → %s} matches server case {Get%s → %s}", ce.getter, ce.resp, se.getter, se.resp),
			fmt.Sprintf("client uses {%s → %s} but the server case uses {Get%s → %s}", ce.getter, ce.resp, se.getter, se.resp), nil)
	}
	c.Count("client/server wire rows", rows)
	c.Min("client/server wire rows", 11)
}

func c20retry(c *core.Ctx) {
	fn := c.Fn("C20.e", "cluster", "(*Client).retry")
	if fn == nil {
		return
	}
	// all send sites (in the function and its closures); a site is
	// "combined" when the helper both writes the command and reads the response
	var sends []ssa.CallInstruction
	for _, f := range an.WithClosures(fn) {
		sends = append(sends, an.CallsTo(f, false, "cluster.writeCommandReadResponse", "cluster.writeCommand")...)
	}
	if len(sends) == 0 {
		c.Unk("C20.e", "ORD", "Client.retry:sends", c.P.Pos(fn.Pos()), "no send site found in retry")
		return
	}
	combined := 0
	for _, s := range sends {
		if an.IsCall(s.(ssa.Instruction), "cluster.writeCommandReadResponse") {
			combined++
		}
	}
	// is there a loop or a second send after a failed combined send? The
	// retry function is a loop over the closure plus a last-ditch send.
	resend := combined > 0 && (len(sends) > 1 || hasLoop(fn))
	// callers with non-idempotent commands
	var nonIdem []string
	cp := c.P.SPkg("cluster")
	for _, f := range pkgFuncs(cp) {
		if len(an.CallsTo(f, false, "cluster.Client.retry")) == 0 {
			continue
		}
		switch f.Name() {
		case "Execute", "Request", "Load":
			nonIdem = append(nonIdem, f.Name())
		}
	}
	sort.Strings(nonIdem)
	if resend && len(nonIdem) > 0 {
		c.Bad("C20.e", "ORD", "Client.retry:resend-after-read-failure", c.P.Pos(sends[0].Pos()),
			fmt.Sprintf("retry sends the command again after writeCommandReadResponse failed, which includes failures while waiting for the response (timeout, connection reset): the leader may already have applied a non-idempotent command (callers: %v); even with retries=0 one extra attempt is made", nonIdem), nil)
	} else {
		c.OK("C20.e", "ORD", "Client.retry:resend-after-read-failure", c.P.Pos(sends[0].Pos()), "no re-send of a non-idempotent command after a response-phase failure")
	}
}

func hasLoop(fn *ssa.Function) bool {
	for _, b := range fn.Blocks {
		for _, s := range b.Succs {
			if s.Dominates(b) {
				return true
			}
		}
	}
	return false
}
