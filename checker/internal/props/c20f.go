package props

import (
	"golang.org/x/tools/go/ssa"

	"rqverif/checker/internal/an"
	"rqverif/checker/internal/core"
)

// C20.f PAIR: a pooled inter-node connection on which a request/response
// exchange failed is marked unusable before the function returns (the deferred
// Close would otherwise put it back into the pool): a late response left on
// such a connection is read by the next request forwarded to that node as its
// own answer.
func c20ConnHygiene(c *core.Ctx) {
	sp := c.P.SPkg("cluster")
	if sp == nil {
		return
	}
	exch := []string{"cluster.writeCommand", "cluster.readResponse", "cluster.writeCommandReadResponse"}
	marks := func(in ssa.Instruction) bool {
		call, ok := in.(*ssa.Call)
		return ok && an.IsCall(call, "cluster.handleConnError", "tcp/pool.Conn.MarkUnusable")
	}
	must := an.Lift(marks, 2, core.InModule)
	n := 0
	for _, fn := range pkgFuncs(sp) {
		if fn.Name() == "writeCommandReadResponse" {
			continue // the combined exchange returns the error to its caller, which is checked
		}
		for _, call := range an.CallsTo(fn, false, exch...) {
			n++
			c.Sites++
			errEdges := an.SenseEdges(fn, an.ErrResult(call), an.NotNil)
			var starts []*ssa.BasicBlock
			for e := range errEdges {
				starts = append(starts, e.To)
			}
			name := core.FuncName(fn)
			key := "exchange-failure-marks-conn:" + name + ":" + an.CalleeID(call)
			if len(starts) == 0 {
				// the error is returned directly to the caller (`return readResponse(...)`): only the combined helper may do that
				c.Unk("C20.f", "PAIR", key, c.P.Pos(call.Pos()), "the error of this exchange is not tested here; cannot tell where the connection is marked unusable")
				continue
			}
			h := an.Ungated(an.CutSpec{Fn: fn, StartBlocks: starts, GateInstr: must,
				Sink: func(in ssa.Instruction) bool { _, isR := in.(*ssa.Return); return isR }})
			c.Result(len(h) == 0, "C20.f", "PAIR", key, c.P.Pos(call.Pos()),
				"after a failed exchange the connection is marked unusable on every path before the function returns",
				name+" can return after a failed "+an.CalleeID(call)+" without marking the pooled connection unusable: the connection goes back to the pool, the remote node's late response stays queued on it, and the next request forwarded to that node reads it as its own answer (results and Raft index of a different request)", nil)
		}
	}
	c.Count("inter-node exchanges checked for connection hygiene", n)
	c.Min("inter-node exchanges checked for connection hygiene", 10)
}
