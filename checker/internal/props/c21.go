package props

import (
	"fmt"
	"strings"

	"golang.org/x/tools/go/ssa"

	"rqverif/checker/internal/an"
	"rqverif/checker/internal/core"
)

func init() {
	register(&core.Check{
		ID:    "C21",
		Title: "Backups are complete, point-in-time consistent copies",
		Explanation: "C21.a PAIR+ORD: in Store.Backup's direct-copy path the database file is opened and copied with the snapshot gate held (acquired after the pre-backup snapshot, released by a deferred End that is dominated by the successful acquisition), so no checkpoint can rewrite the file underneath the copy. " +
			"C21.b DOM: DB.Dump issues several statements; all of them run on one connection, and a transaction start (BeginTx or an executed BEGIN) on that connection dominates the first query, with its end deferred. " +
			"C21.c error discipline: in the backup call chain (Store.Backup, DB.Backup, DB.Dump, cluster.Client.Backup, http.handleBackup, proxy.Backup) no error result of a call that produces or moves backup bytes (Copy, Write, Close of a gzip writer, Backup, Dump, VacuumInto, Seek, Flush) is dropped: each is returned, wrapped or assigned to the named result.",
		NotCovered: []string{"equality of the backup with a committed prefix (a value property)", "a compressed stream cut short by a clean connection close (no structural marker exists to check)"},
		Run:        runC21,
	})
}

func runC21(c *core.Ctx) {
	c21DumpReads(c)
	// C21.a
	if fn := c.Fn("C21.a", "store", "(*Store).Backup"); fn != nil {
		var opens []ssa.CallInstruction
		for _, op := range an.CallsTo(fn, false, "os.Open") {
			if an.MentionsField(op.Common().Args[0], "Store", "dbPath") {
				opens = append(opens, op)
			}
		}
		c.Count("direct opens of the database file in Store.Backup", len(opens))
		c.Min("direct opens of the database file in Store.Backup", 1)
		gate := map[an.Edge]bool{}
		var acq ssa.CallInstruction
		for _, a := range an.CallsTo(fn, false, "internal/rsync.CheckAndSet.BeginWithRetry", "internal/rsync.CheckAndSet.Begin") {
			acq = a
			for e := range an.SenseEdges(fn, an.ErrResult(a), an.IsNil) {
				gate[e] = true
			}
		}
		for _, op := range opens {
			opi := op.(ssa.Instruction)
			h := an.Ungated(an.CutSpec{Fn: fn, GateEdge: gate, Sink: func(in ssa.Instruction) bool { return in == opi }})
			// the release is deferred (held until the copy below has finished), not called before the copy
			deferred := false
			an.Instrs(fn, func(in ssa.Instruction) {
				if d, ok := in.(*ssa.Defer); ok && an.IsCall(d, "internal/rsync.CheckAndSet.End") {
					deferred = true
				}
			})
			early := len(an.CallsTo(fn, false, "internal/rsync.CheckAndSet.End")) - 1 // non-deferred End calls
			if deferred {
				n := 0
				for _, e := range an.CallsTo(fn, false, "internal/rsync.CheckAndSet.End") {
					if _, isD := e.(*ssa.Defer); !isD {
						n++
					}
				}
				early = n
			}
			// the snapshot precedes the acquisition
			snapFirst := false
			if acq != nil {
				for _, s := range an.CallsTo(fn, false, "store.Store.Snapshot") {
					if an.ReachableFrom(s.(ssa.Instruction), acq.(ssa.Instruction), nil) && !an.ReachableFrom(acq.(ssa.Instruction), s.(ssa.Instruction), nil) {
						snapFirst = true
					}
				}
			}
			c.Result(len(gate) > 0 && len(h) == 0 && deferred && early == 0 && snapFirst, "C21.a", "PAIR", "Store.Backup:copy-under-gate", c.P.Pos(op.Pos()),
				"the database file is opened after the pre-backup snapshot with the snapshot gate held until Backup returns",
				fmt.Sprintf("the direct copy is not protected: gate acquired before open=%v, released only by defer=%v (early releases %d), snapshot before gate=%v", len(h) == 0 && len(gate) > 0, deferred, early, snapFirst), nil)
		}
	}

	// C21.b
	if fn := c.Fn("C21.b", "db", "(*DB).Dump"); fn != nil {
		var conn ssa.Value
		for _, call := range an.CallsTo(fn, false, "database/sql.DB.Conn") {
			if v := an.Result(call, 0); len(v) > 0 {
				conn = v[0]
			}
		}
		queries := an.CallsTo(fn, false, "db.DB.queryWithConn")
		c.Count("queries in Dump", len(queries))
		c.Min("queries in Dump", 3)
		isBegin := func(in ssa.Instruction) bool {
			call, ok := in.(*ssa.Call)
			if !ok {
				return false
			}
			if an.IsCall(call, "database/sql.Conn.BeginTx") && an.Unwrap(call.Common().Args[0]) == conn {
				return true
			}
			if an.IsCall(call, "database/sql.Conn.ExecContext") && an.Unwrap(call.Common().Args[0]) == conn {
				if s, ok := an.ConstString(call.Common().Args[2]); ok && strings.HasPrefix(strings.ToUpper(strings.TrimSpace(s)), "BEGIN") {
					return true
				}
			}
			return false
		}
		sameConn := conn != nil
		for _, q := range queries {
			args := q.Common().Args
			if an.Unwrap(args[len(args)-1]) != conn {
				sameConn = false
			}
		}
		hits := an.Ungated(an.CutSpec{Fn: fn, GateInstr: isBegin, Sink: func(in ssa.Instruction) bool { return an.IsCall(in, "db.DB.queryWithConn") }})
		ended := false
		an.Instrs(fn, func(in ssa.Instruction) {
			d, ok := in.(*ssa.Defer)
			if !ok {
				return
			}
			if an.IsCall(d, "database/sql.Tx.Rollback", "database/sql.Tx.Commit") {
				ended = true
			}
			if an.IsCall(d, "database/sql.Conn.ExecContext") {
				if s, ok := an.ConstString(d.Call.Args[2]); ok {
					u := strings.ToUpper(strings.TrimSpace(s))
					if strings.HasPrefix(u, "ROLLBACK") || strings.HasPrefix(u, "COMMIT") || strings.HasPrefix(u, "END") {
						ended = true
					}
				}
			}
		})
		c.Result(sameConn && len(hits) == 0 && ended, "C21.b", "DOM", "DB.Dump:one-read-transaction", c.P.Pos(fn.Pos()),
			"every query of the dump runs on one connection inside a transaction begun before the first query",
			fmt.Sprintf("the dump's queries are not inside one transaction (same connection=%v, begin dominates queries=%v, end deferred=%v): a write committing between two of them yields a dump that mixes two states", sameConn, len(hits) == 0, ended), nil)
	}

	// C21.c
	chain := []struct{ pkg, name string }{
		{"store", "(*Store).Backup"}, {"db", "(*DB).Backup"}, {"db", "(*DB).Dump"}, {"db", "(*DB).VacuumInto"},
		{"cluster", "(*Client).Backup"}, {"proxy", "(*Proxy).Backup"}, {"http", "(*Service).handleBackup"},
	}
	mover := func(id string) bool {
		switch id {
		case "io.Copy", "io.CopyN", "io.Writer.Write", "compress/gzip.Writer.Close", "compress/gzip.Writer.Flush", "compress/gzip.Writer.Write",
			"os.File.Seek", "os.File.Sync", "db.SwappableDB.Backup", "db.SwappableDB.Dump", "db.DB.Backup", "db.DB.Dump", "db.DB.VacuumInto",
			"store.Store.Backup", "proxy.Proxy.Backup", "cluster.Client.Backup", "db.DB.queryWithConn", "database/sql.Conn.ExecContext",
			"proxy.Store.Backup", "proxy.Cluster.Backup", "http.Store.Backup":
			return true
		}
		return false
	}
	found := 0
	for _, ch := range chain {
		fn := c.Fn("C21.c", ch.pkg, ch.name)
		if fn == nil {
			continue
		}
		for _, f := range an.WithClosures(fn) {
			an.Instrs(f, func(in ssa.Instruction) {
				call, ok := in.(*ssa.Call)
				if !ok || !returnsError(call) {
					return
				}
				id := an.CalleeID(call)
				if !mover(id) {
					return
				}
				found++
				c.Sites++
				if !errReachesReturn(call) {
					c.Bad("C21.c", "ERR", core.FuncName(f)+":"+id+":error-dropped", c.P.Pos(call.Pos()),
						"the error of "+id+" is dropped in "+core.FuncName(f)+": a backup that was not produced or transferred completely can be reported as successful", nil)
				}
			})
		}
	}
	c.Count("byte-moving calls in the backup chain", found)
	c.Min("byte-moving calls in the backup chain", 10)
	bad := false
	for _, o := range c.Obls {
		if o.Rule == "ERR" && o.Verdict == core.Violated {
			bad = true
		}
	}
	if !bad {
		c.OK("C21.c", "ERR", "backup-chain:errors-propagated", "", fmt.Sprintf("%d byte-moving calls in the backup chain, every error result is used", found))
	}
}
