package props

import (
	"golang.org/x/tools/go/ssa"

	"rqverif/checker/internal/an"
	"rqverif/checker/internal/core"
)

// C21.d: everything the SQL dump reads, it reads through the one connection on
// which its read transaction was begun. A helper that goes to the connection
// pools (DB.roDB / DB.rwDB) reads outside that transaction: a schema change
// committed in between makes the dump describe a table as it is now and its
// rows as they were.
func c21DumpReads(c *core.Ctx) {
	fn := c.Fn("C21.d", "db", "(*DB).Dump")
	if fn == nil {
		return
	}
	usesPool := func(in ssa.Instruction) bool {
		v, ok := in.(ssa.Value)
		if !ok {
			return false
		}
		return an.LoadedField(v, "DB", "roDB") || an.LoadedField(v, "DB", "rwDB")
	}
	n := 0
	bad := 0
	for _, f := range an.WithClosures(fn) {
		for _, call := range an.AllCalls(f, false) {
			callee := call.Common().StaticCallee()
			if callee == nil || !core.InModule(callee) || len(callee.Blocks) == 0 {
				continue
			}
			n++
			c.Sites++
			if an.MayDo(callee, usesPool, 3, core.InModule) {
				bad++
				c.Bad("C21.d", "DOM", "DB.Dump:reads-only-through-its-connection:"+core.FuncName(callee), c.P.Pos(call.Pos()),
					"Dump calls "+core.FuncName(callee)+", which reads the database through the connection pool, not through the connection that holds the dump's read transaction: a change committed in between (for example ALTER TABLE … RENAME/ADD/DROP COLUMN) is seen by that read only — the dump mixes two states and does not load, or loads different values", nil)
			}
		}
		// direct uses of the pools in Dump itself: only to obtain the connection
		an.Instrs(f, func(in ssa.Instruction) {
			if !usesPool(in) {
				return
			}
			if _, isAddr := in.(*ssa.FieldAddr); isAddr {
				return // the address is only loaded; the load is what gets used
			}
			for _, r := range *in.(ssa.Value).Referrers() {
				if call, ok := r.(*ssa.Call); ok && an.IsCall(call, "database/sql.DB.Conn") {
					continue
				}
				if _, ok := r.(*ssa.DebugRef); ok {
					continue
				}
				bad++
				c.Bad("C21.d", "DOM", "DB.Dump:pool-used-directly", c.P.Pos(in.Pos()), "Dump uses a connection pool for something other than obtaining its one connection", nil)
			}
		})
	}
	c.Count("module functions called by Dump", n)
	c.Min("module functions called by Dump", 1)
	if bad == 0 {
		c.OK("C21.d", "DOM", "DB.Dump:reads-only-through-its-connection", c.P.Pos(fn.Pos()), "no function called by Dump goes to the connection pools; Dump itself uses a pool only to obtain its connection")
	}
}
