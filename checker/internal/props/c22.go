package props

import (
	"fmt"
	"go/token"
	"sort"
	"strings"

	"golang.org/x/tools/go/ssa"

	"rqverif/checker/internal/an"
	"rqverif/checker/internal/core"
)

func init() {
	register(&core.Check{
		ID:    "C22",
		Title: "Loads and boots replace the database everywhere, durably",
		Explanation: "C22.a WHO: http.handleLoad and handleBoot reach the database only through the proxy / Store.ReadFrom (no direct store or database call), and Store.load builds a COMMAND_TYPE_LOAD entry that goes through raft.Apply (every node applies it). " +
			"C22.b TABLE: the command types whose case in CommandProcessor.Process can reach SwappableDB.Swap, restricted to types that have a producer in the module, equal the types for which fsmApply marks the next snapshot Full and resets CDC registration; ReadFrom marks Full, resets CDC and snapshots after its Swap, in that order. " +
			"C22.c DOM: SwappableDB.Swap closes/removes the current database only after IsValidSQLiteFile(path) held; handleBoot validates the header before ReadFrom; ReadFrom validates the file before the Noop entry and the swap. " +
			"C22.d WHO by field: Store.dbModifiedTime (the baseline of the 'database changed since last snapshot' test that forces a full snapshot) is stored only by fsmSnapshot's deferred update and fsmRestore — never by the load/boot paths, whose change must stay visible to that test. " +
			"C22.e CONST: the execute request that handleLoad builds for posted SQL text has RollbackOnError set on every path to the Execute call (a rejected dump must leave no open transaction behind).",
		NotCovered: []string{"contents after restart / join", "the staged-WAL lineage rule is C04.a"},
		Run:        runC22,
	})
}

// caseRegions maps each constant K compared with Command.Type in fn to the
// blocks dominated by the true successor of that comparison.
func caseRegions(fn *ssa.Function) map[int64][]*ssa.BasicBlock {
	out := map[int64][]*ssa.BasicBlock{}
	for _, b := range fn.Blocks {
		if len(b.Instrs) == 0 {
			continue
		}
		ifi, ok := b.Instrs[len(b.Instrs)-1].(*ssa.If)
		if !ok {
			continue
		}
		bo, ok := ifi.Cond.(*ssa.BinOp)
		if !ok || bo.Op != token.EQL || !an.LoadedField(bo.X, "Command", "Type") {
			continue
		}
		k, ok := an.ConstInt(bo.Y)
		if !ok {
			continue
		}
		top := b.Succs[0]
		for _, rb := range fn.Blocks {
			if rb == top || top.Dominates(rb) {
				out[k] = append(out[k], rb)
			}
		}
	}
	return out
}

func regionHas(blocks []*ssa.BasicBlock, pred func(ssa.Instruction) bool) bool {
	for _, b := range blocks {
		for _, in := range b.Instrs {
			if pred(in) {
				return true
			}
		}
	}
	return false
}

func isSetDueNext(in ssa.Instruction, typ int64) bool {
	call, ok := in.(*ssa.Call)
	if !ok || !strings.HasSuffix(an.CalleeID(call), ".SetDueNext") {
		return false
	}
	args := call.Common().Args
	if len(args) == 0 {
		return false
	}
	k, ok := an.ConstInt(args[len(args)-1]) // receiver is not in Args for interface calls
	return ok && k == typ
}

// snapshot.Type constants are resolved from the package so the rule does not
// hard-code their numeric values.
func snapshotTypeConst(c *core.Ctx, name string) int64 {
	pk := c.P.Pkg("snapshot")
	if pk == nil {
		return -1
	}
	obj := pk.Types.Scope().Lookup(name)
	if obj == nil {
		return -1
	}
	if cst, ok := obj.(interface {
		Val() interface{ ExactString() string }
	}); ok {
		_ = cst
	}
	for _, sp := range []*ssa.Package{c.P.SPkg("snapshot")} {
		if sp == nil {
			continue
		}
		if nc, ok := sp.Members[name].(*ssa.NamedConst); ok {
			return nc.Value.Int64()
		}
	}
	return -1
}

func runC22(c *core.Ctx) {
	c22LoadText(c)
	full := snapshotTypeConst(c, "Full")
	if full < 0 {
		c.Unk("C22.b", "TABLE", "snapshot.Full", "", "constant snapshot.Full not found")
		return
	}
	// C22.a
	for _, h := range []string{"handleLoad", "handleBoot"} {
		fn := c.Fn("C22.a", "http", "(*Service)."+h)
		if fn == nil {
			continue
		}
		var direct []string
		for _, f := range an.WithClosures(fn) {
			an.Instrs(f, func(in ssa.Instruction) {
				ci, ok := in.(ssa.CallInstruction)
				if !ok {
					return
				}
				if recvField(ci, "Service") == "store" {
					m := ""
					if ci.Common().Method != nil {
						m = ci.Common().Method.Name()
					}
					if !(h == "handleBoot" && m == "ReadFrom") {
						direct = append(direct, "store."+m)
					}
				}
			})
		}
		c.Result(len(direct) == 0, "C22.a", "WHO", h+":only-through-consensus", c.P.Pos(fn.Pos()),
			h+" reaches the database only through the proxy / ReadFrom", h+" calls "+strings.Join(direct, ",")+" directly", nil)
	}
	if fn := c.Fn("C22.a", "store", "(*Store).load"); fn != nil {
		var k int64 = -1
		an.Instrs(fn, func(in ssa.Instruction) {
			if st, ok := in.(*ssa.Store); ok {
				if t, f, _, ok := an.FieldOf(st.Addr); ok && t == "Command" && f == "Type" {
					k, _ = an.ConstInt(st.Val)
				}
			}
		})
		applies := len(an.CallsTo(fn, false, "github.com/hashicorp/raft.Raft.Apply"))
		c.Result(k == 4 && applies == 1, "C22.a", "WHO", "Store.load:replicated", c.P.Pos(fn.Pos()), "a load is a COMMAND_TYPE_LOAD entry sent through raft.Apply", "Store.load does not send a LOAD entry through raft.Apply", nil)
	}

	// C22.b
	proc := c.Fn("C22.b", "store", "(*CommandProcessor).Process")
	apply := c.Fn("C22.b", "store", "(*Store).fsmApply")
	if proc != nil && apply != nil {
		swapTypes := map[int64]bool{}
		for k, blocks := range caseRegions(proc) {
			if regionHas(blocks, func(in ssa.Instruction) bool { return an.IsCall(in, "db.SwappableDB.Swap") }) {
				swapTypes[k] = true
			}
		}
		// producers: command types built in package store
		producers := map[int64]bool{}
		for _, fn := range pkgFuncs(c.P.SPkg("store")) {
			an.Instrs(fn, func(in ssa.Instruction) {
				if st, ok := in.(*ssa.Store); ok {
					if t, f, _, ok := an.FieldOf(st.Addr); ok && t == "Command" && f == "Type" {
						if k, ok := an.ConstInt(st.Val); ok {
							producers[k] = true
						}
					}
				}
			})
		}
		handled := map[int64]bool{}
		cdcReset := map[int64]bool{}
		for k, blocks := range caseRegions(apply) {
			if regionHas(blocks, func(in ssa.Instruction) bool { return isSetDueNext(in, full) }) {
				handled[k] = true
			}
			if regionHas(blocks, func(in ssa.Instruction) bool {
				call, ok := in.(*ssa.Call)
				return ok && strings.HasSuffix(an.CalleeID(call), "AtomicBool.Unset") && an.MentionsField(call.Common().Args[0], "Store", "cdcRegistered")
			}) {
				cdcReset[k] = true
			}
		}
		var ks []int64
		for k := range swapTypes {
			ks = append(ks, k)
		}
		sort.Slice(ks, func(i, j int) bool { return ks[i] < ks[j] })
		c.Count("command types that can swap the database", len(ks))
		c.Min("command types that can swap the database", 1)
		for _, k := range ks {
			construct := fmt.Sprintf("swap-type=%d", k)
			if !producers[k] {
				c.OK("C22.b", "TABLE", construct, c.P.Pos(proc.Pos()), "no producer of this command type exists in the module (legacy entries only); outside the rule by construction")
				continue
			}
			c.Result(handled[k] && cdcReset[k], "C22.b", "TABLE", construct, c.P.Pos(apply.Pos()),
				"fsmApply marks the next snapshot Full and resets CDC registration for this type",
				fmt.Sprintf("command type %d can replace the database in Process but fsmApply does not mark the next snapshot Full (%v) / reset CDC registration (%v): followers joining later would rebuild the old database from snapshot + WAL", k, handled[k], cdcReset[k]), nil)
		}
	}
	if fn := c.Fn("C22.b", "store", "(*Store).ReadFrom"); fn != nil {
		swaps := an.CallsTo(fn, false, "db.SwappableDB.Swap")
		ok := len(swaps) == 1
		if ok {
			okEdges := an.SenseEdges(fn, an.ErrResult(swaps[0]), an.IsNil)
			var starts []*ssa.BasicBlock
			for e := range okEdges {
				starts = append(starts, e.To)
			}
			// after the swap: SetDueNext(Full) before Snapshot before success return
			h1 := an.Ungated(an.CutSpec{Fn: fn, StartBlocks: starts, GateInstr: func(in ssa.Instruction) bool { return isSetDueNext(in, full) },
				Sink: func(in ssa.Instruction) bool { return an.IsCall(in, "store.Store.Snapshot") }})
			var succ []ssa.Instruction
			for _, r := range an.SuccessReturns(fn) {
				succ = append(succ, r)
			}
			h2 := an.Ungated(an.CutSpec{Fn: fn, StartBlocks: starts, GateInstr: func(in ssa.Instruction) bool { return an.IsCall(in, "store.Store.Snapshot") },
				Sink: func(in ssa.Instruction) bool {
					for _, r := range succ {
						if in == r {
							return true
						}
					}
					return false
				}})
			ok = len(starts) > 0 && len(h1) == 0 && len(h2) == 0 && len(an.CallsTo(fn, false, "store.Store.Snapshot")) > 0
		}
		c.Result(ok, "C22.b", "ORD", "ReadFrom:swap-full-snapshot", c.P.Pos(fn.Pos()), "after the swap: mark Full, then snapshot, then success", "ReadFrom can succeed without marking the next snapshot Full and snapshotting after the swap", nil)
	}

	// C22.c
	if fn := c.Fn("C22.c", "db", "(*SwappableDB).Swap"); fn != nil {
		var valid []ssa.Value
		for _, call := range an.CallsTo(fn, false, "db.IsValidSQLiteFile") {
			if isParamN(fn, 1)(call.Common().Args[0]) {
				valid = append(valid, call.Value())
			}
		}
		gate := an.SenseEdges(fn, valid, an.IsTrue)
		hits := an.Ungated(an.CutSpec{Fn: fn, GateEdge: gate, Sink: func(in ssa.Instruction) bool {
			return an.IsCall(in, "db.DB.Close", "db.RemoveFiles", "os.Rename")
		}})
		c.Result(len(valid) > 0 && len(hits) == 0, "C22.c", "DOM", "Swap:validate-before-destroy", c.P.Pos(fn.Pos()),
			"the current database is closed/removed only after the replacement proved to be a SQLite file", "Swap can close or remove the current database before validating the replacement", nil)
	}
	if fn := c.Fn("C22.c", "http", "(*Service).handleBoot"); fn != nil {
		var valid []ssa.Value
		for _, call := range an.CallsTo(fn, false, "db.IsValidSQLiteData") {
			valid = append(valid, call.Value())
		}
		gate := an.SenseEdges(fn, valid, an.IsTrue)
		hits := an.Ungated(an.CutSpec{Fn: fn, GateEdge: gate, Sink: func(in ssa.Instruction) bool {
			ci, ok := in.(ssa.CallInstruction)
			return ok && recvField(ci, "Service") == "store"
		}})
		c.Result(len(valid) > 0 && len(hits) == 0, "C22.c", "DOM", "handleBoot:validate-first", c.P.Pos(fn.Pos()), "boot data is validated before the store is touched", "handleBoot reaches the store without validating the data", nil)
	}
	if fn := c.Fn("C22.c", "store", "(*Store).ReadFrom"); fn != nil {
		var valid []ssa.Value
		for _, call := range an.CallsTo(fn, false, "db.IsValidSQLiteFile") {
			valid = append(valid, call.Value())
		}
		gate := an.SenseEdges(fn, valid, an.IsTrue)
		hits := an.Ungated(an.CutSpec{Fn: fn, GateEdge: gate, Sink: func(in ssa.Instruction) bool {
			return an.IsCall(in, "db.SwappableDB.Swap", "store.Store.Noop")
		}})
		c.Result(len(valid) > 0 && len(hits) == 0, "C22.c", "DOM", "ReadFrom:validate-first", c.P.Pos(fn.Pos()), "the boot file is validated before the Noop entry and the swap", "ReadFrom can append the Noop or swap before validating the file", nil)
	}

	// C22.d
	checkDBModifiedWriters(c, "C22.d")
}

func checkDBModifiedWriters(c *core.Ctx, clause string) {
	writers := map[string]bool{}
	for _, fn := range pkgFuncs(c.P.SPkg("store")) {
		an.Instrs(fn, func(in ssa.Instruction) {
			call, ok := in.(*ssa.Call)
			if !ok || !strings.HasSuffix(an.CalleeID(call), "AtomicTime.Store") {
				return
			}
			if an.MentionsField(call.Common().Args[0], "Store", "dbModifiedTime") {
				// an unexported helper called only by a reviewed writer is that writer's code
				for _, n := range accountable(c, fn, func(n string) bool {
					return n == "(*store.Store).fsmRestore" || n == "(*store.Store).fsmSnapshot"
				}) {
					writers[n] = true
				}
			}
		})
	}
	var ws []string
	for w := range writers {
		ws = append(ws, w)
	}
	sort.Strings(ws)
	got := strings.Join(ws, ",")
	c.Result(got == "(*store.Store).fsmRestore,(*store.Store).fsmSnapshot", clause, "WHO", "Store.dbModifiedTime:writers", "",
		"the modification baseline is updated only by fsmSnapshot and fsmRestore",
		"the modification baseline dbModifiedTime is stored by {"+got+"}; reference {fsmRestore, fsmSnapshot}: updating it where the database is replaced hides that replacement from the 'changed since last snapshot' test, so an incremental snapshot can be layered on a full snapshot of the old database", nil)
}
