package props

import (
	"strings"

	"golang.org/x/tools/go/ssa"

	"rqverif/checker/internal/an"
	"rqverif/checker/internal/core"
)

// C22.e CONST: SQL text posted to /db/load replaces nothing unless all of it
// applies: the execute request built for it asks for rollback on error, so a
// dump that opens its own transaction and then fails does not leave that
// transaction open on every node's single read-write connection.
func c22LoadText(c *core.Ctx) {
	fn := c.Fn("C22.e", "http", "(*Service).handleLoad")
	if fn == nil {
		return
	}
	var execs []ssa.CallInstruction
	for _, call := range an.AllCalls(fn, false) {
		cc := call.Common()
		if (cc.IsInvoke() && cc.Method.Name() == "Execute") || strings.HasSuffix(an.CalleeID(call), ".Execute") {
			execs = append(execs, call)
		}
	}
	c.Count("execute calls in handleLoad", len(execs))
	c.Min("execute calls in handleLoad", 1)
	for _, ex := range execs {
		// the request argument
		var req ssa.Value
		for _, a := range ex.Common().Args {
			if an.Mentions(a, func(v ssa.Value) bool { return v.Type().String() == "*"+core.ModPath+"/command/proto.ExecuteRequest" }) {
				req = a
			}
		}
		setsTrue := func(in ssa.Instruction) bool {
			st, ok := in.(*ssa.Store)
			if !ok {
				return false
			}
			b, isB := an.ConstBool(st.Val)
			_, f, _, isF := an.FieldOf(st.Addr)
			return isB && b && isF && f == "RollbackOnError"
		}
		h := an.Ungated(an.CutSpec{Fn: fn, GateInstr: setsTrue, Sink: func(in ssa.Instruction) bool { return in == ex.(ssa.Instruction) }})
		// nothing resets it afterwards
		reset := false
		an.Instrs(fn, func(in ssa.Instruction) {
			if st, ok := in.(*ssa.Store); ok {
				if b, isB := an.ConstBool(st.Val); isB && !b {
					if _, f, _, isF := an.FieldOf(st.Addr); isF && f == "RollbackOnError" {
						reset = true
					}
				}
			}
		})
		_ = req
		c.Result(len(h) == 0 && !reset, "C22.e", "CONST", "handleLoad:sql-text:rollback-on-error", c.P.Pos(ex.Pos()),
			"SQL text posted to /db/load is executed with RollbackOnError set",
			"handleLoad executes posted SQL text without RollbackOnError: a dump that runs its own BEGIN and then fails leaves that transaction open on the read-write connection of every node — later acknowledged writes stay invisible and are lost, or a stray COMMIT publishes the rejected dump's partial data", nil)
	}
}
