package props

import (
	"go/token"
	"sort"
	"strings"

	"golang.org/x/tools/go/ssa"

	"rqverif/checker/internal/an"
	"rqverif/checker/internal/core"
)

func init() {
	register(&core.Check{
		ID:    "C23",
		Title: "Queued writes are applied in order and none are dropped",
		Explanation: "C23.a WHO: the queue's output channel (stmtQueue.C) is received from in exactly one function of package http (runQueue), which is started exactly once, from Start. " +
			"C23.b DOM: in runQueue, from the receipt of a batch, the acknowledgement of that batch (req.Close(), the sequence-number store) is reachable only through the nil edge of proxy.Execute's error or the edge where the batch carries no statements; every other exit from the retry loop is a return on closeCh; the retry re-sends the same request value. " +
			"C23.c DOM: in queuedExecute, when the client asked to wait, the success response is reachable only through the select case that received from the request's own flush channel; statements are rewritten (sql.Process) before they are queued, and the flush channel handed to the queue is the one waited on.",
		NotCovered: []string{"interleavings between producers (C24 covers the queue's own ordering discipline)", "behaviour when no leader is ever reachable (the loop retries forever by design)"},
		Run:        runC23,
	})
}

func runC23(c *core.Ctx) {
	sp := c.P.SPkg("http")
	if sp == nil {
		return
	}
	// C23.a
	recv := map[string]bool{}
	for _, fn := range pkgFuncs(sp) {
		an.Instrs(fn, func(in ssa.Instruction) {
			isC := func(v ssa.Value) bool {
				return an.Mentions(v, func(x ssa.Value) bool {
					t, f, _, ok := an.FieldOf(x)
					return ok && t == "Queue" && f == "C"
				}) && an.MentionsField(v, "Service", "stmtQueue")
			}
			switch x := in.(type) {
			case *ssa.UnOp:
				if x.Op == token.ARROW && isC(x.X) {
					recv[core.FuncName(an.TopFunc(fn))] = true
				}
			case *ssa.Select:
				for _, st := range x.States {
					if st.Dir == 2 && isC(st.Chan) {
						recv[core.FuncName(an.TopFunc(fn))] = true
					}
				}
			}
		})
	}
	var rs []string
	for r := range recv {
		rs = append(rs, r)
	}
	sort.Strings(rs)
	c.Result(strings.Join(rs, ",") == "(*http.Service).runQueue", "C23.a", "WHO", "stmtQueue.C:receivers", "", "the queue output is consumed only by runQueue", "the queue output is consumed by: "+strings.Join(rs, ","), nil)
	starts := 0
	var starters []string
	for _, fn := range pkgFuncs(sp) {
		an.Instrs(fn, func(in ssa.Instruction) {
			if g, ok := in.(*ssa.Go); ok && an.IsCall(g, "http.Service.runQueue") {
				starts++
				starters = append(starters, core.FuncName(fn))
			}
		})
	}
	c.Result(starts == 1 && starters[0] == "(*http.Service).Start", "C23.a", "WHO", "runQueue:started-once", "", "runQueue is started once, from Start", "runQueue is started from "+strings.Join(starters, ","), nil)

	// C23.b
	if fn := c.Fn("C23.b", "http", "(*Service).runQueue"); fn != nil {
		var sel ssa.Instruction
		an.Instrs(fn, func(in ssa.Instruction) {
			if s, ok := in.(*ssa.Select); ok && sel == nil {
				for _, st := range s.States {
					if st.Dir == 2 && an.MentionsField(st.Chan, "Service", "stmtQueue") {
						sel = in
					}
				}
			}
		})
		execs := an.CallsTo(fn, false, "proxy.Proxy.Execute")
		if sel == nil || len(execs) != 1 {
			c.Unk("C23.b", "DOM", "runQueue:shape", c.P.Pos(fn.Pos()), "runQueue no longer has one receive from the queue and one proxy.Execute")
		} else {
			gate := an.SenseEdges(fn, an.ErrResult(execs[0]), an.IsNil)
			// batches without statements are acknowledged without a write
			var stmtLoads []ssa.Value
			an.Instrs(fn, func(in ssa.Instruction) {
				if u, ok := in.(*ssa.UnOp); ok && u.Op == token.MUL {
					if t, f, _, ok := an.FieldOf(u.X); ok && t == "Request" && f == "Statements" {
						stmtLoads = append(stmtLoads, u)
					}
				}
			})
			for e := range an.SenseEdges(fn, stmtLoads, an.IsNil) {
				gate[e] = true
			}
			acks := 0
			isAck := func(in ssa.Instruction) bool {
				call, ok := in.(*ssa.Call)
				if !ok {
					return false
				}
				id := an.CalleeID(call)
				if strings.HasSuffix(id, "queue.Request.Close") {
					return true
				}
				if id == "sync/atomic.StoreInt64" && an.MentionsField(call.Common().Args[0], "Service", "seqNum") {
					return true
				}
				return false
			}
			an.Instrs(fn, func(in ssa.Instruction) {
				if isAck(in) {
					acks++
				}
			})
			c.Count("acknowledgement sites in runQueue", acks)
			c.Min("acknowledgement sites in runQueue", 2)
			hits := an.Ungated(an.CutSpec{Fn: fn, Start: sel, GateEdge: gate, Sink: isAck})
			if len(hits) == 0 {
				c.OK("C23.b", "DOM", "runQueue:ack-only-after-success", c.P.Pos(execs[0].Pos()), "a batch is acknowledged only after proxy.Execute returned nil (or it carried no statements)")
			}
			for _, h := range hits {
				c.Bad("C23.b", "DOM", "runQueue:ack-only-after-success:"+an.CalleeID(h.Instr.(ssa.CallInstruction)), c.P.Pos(h.Instr.Pos()),
					"a batch can be acknowledged (flush channels closed, sequence number advanced) on a path where its write did not succeed: the statements are dropped and waiting clients are told they were applied", an.PathString(fn, h.Path, c.P.Pos))
			}
			// the request sent is the one built from the received batch, every time
			arg := execs[0].Common().Args[2]
			al, isAl := an.Unwrap(arg).(*ssa.Alloc)
			okReq := isAl && strings.HasSuffix(al.Type().String(), "ExecuteRequest")
			c.Result(okReq, "C23.b", "DOM", "runQueue:same-request-resent", c.P.Pos(execs[0].Pos()), "every attempt sends the request built from the received batch", "the retried request is not the one built from the received batch", nil)
			// every attempt can succeed however long the batch has already waited: the
			// context handed to Execute has no deadline, or is created afresh between
			// two attempts (a deadline set once per batch makes every retry after it
			// fail at once, and the single consumer never moves on)
			ctxArg := an.Unwrap(execs[0].Common().Args[1])
			okCtx := false
			switch x := ctxArg.(type) {
			case *ssa.Call:
				okCtx = an.IsCall(x, "context.Background", "context.TODO")
			case *ssa.Extract:
				if mk, isCall := x.Tuple.(*ssa.Call); isCall && strings.HasPrefix(an.CalleeID(mk), "context.With") {
					ex := execs[0].(ssa.Instruction)
					stale := an.Ungated(an.CutSpec{Fn: fn, Start: ex, NoLift: true,
						GateInstr: func(in ssa.Instruction) bool { return in == ssa.Instruction(mk) },
						Sink:      func(in ssa.Instruction) bool { return in == ex }})
					okCtx = len(stale) == 0
				}
			}
			c.Result(okCtx, "C23.b", "CONST", "runQueue:attempt-context-fresh", c.P.Pos(execs[0].Pos()),
				"each attempt runs under a context without a deadline inherited from earlier attempts",
				"the context handed to proxy.Execute in runQueue's retry loop is created outside the loop (or is not a background context): once its deadline passes every retry fails immediately, so a batch that outlives it — and every queued write behind it — is never applied", nil)
			// exits from the loop other than acknowledgement are returns guarded by closeCh
			var rets []ssa.Instruction
			an.Instrs(fn, func(in ssa.Instruction) {
				if _, ok := in.(*ssa.Return); ok {
					rets = append(rets, in)
				}
			})
			okExit := true
			for _, r := range rets {
				// each return is reached through a select case on closeCh
				h := an.Ungated(an.CutSpec{Fn: fn,
					GateInstr: func(in ssa.Instruction) bool {
						s, ok := in.(*ssa.Select)
						if !ok {
							return false
						}
						for _, st := range s.States {
							if an.MentionsField(st.Chan, "Service", "closeCh") {
								return true
							}
						}
						return false
					},
					Sink: func(in ssa.Instruction) bool { return in == r }})
				if len(h) > 0 {
					okExit = false
				}
			}
			c.Result(okExit, "C23.b", "DOM", "runQueue:exits-only-on-close", c.P.Pos(fn.Pos()), "runQueue returns only after observing closeCh", "runQueue can return without observing closeCh (pending batches would be abandoned while the node runs)", nil)
		}
	}

	// C23.c
	if fn := c.Fn("C23.c", "http", "(*Service).queuedExecute"); fn != nil {
		writes := an.CallsTo(fn, false, "queue.Queue.Write")
		procs := an.CallsTo(fn, false, "command/sql.Process")
		if len(writes) != 1 {
			c.Unk("C23.c", "DOM", "queuedExecute:write", c.P.Pos(fn.Pos()), "expected one stmtQueue.Write")
			return
		}
		w := writes[0]
		okProc := len(procs) == 1 && an.Dominates(procs[0].(ssa.Instruction), w.(ssa.Instruction)) && an.Unwrap(procs[0].Common().Args[0]) == an.Unwrap(w.Common().Args[1])
		c.Result(okProc, "C23.c", "DOM", "queuedExecute:rewrite-before-queue", c.P.Pos(w.Pos()), "the statements queued are the ones sql.Process rewrote", "statements are queued without having passed sql.Process", nil)
		// wait: response only after the flush channel fired
		fc := w.Common().Args[2]
		var waitSel *ssa.Select
		an.Instrs(fn, func(in ssa.Instruction) {
			if s, ok := in.(*ssa.Select); ok {
				for _, st := range s.States {
					if st.Dir == 2 && an.Unwrap(st.Chan) == an.Unwrap(fc) {
						waitSel = s
					}
				}
			}
		})
		if waitSel == nil {
			c.Bad("C23.c", "DOM", "queuedExecute:wait-on-own-flush-channel", c.P.Pos(w.Pos()), "no select waits on the flush channel that was handed to the queue", nil)
			return
		}
		// on the Wait() edge, writeResponse is reachable only via select index 0 (the flush channel)
		idx := -1
		for i, st := range waitSel.States {
			if an.Unwrap(st.Chan) == an.Unwrap(fc) {
				idx = i
			}
		}
		var idxVal ssa.Value
		for _, r := range *waitSel.Referrers() {
			if e, ok := r.(*ssa.Extract); ok && e.Index == 0 {
				idxVal = e
			}
		}
		fired := map[an.Edge]bool{}
		for _, b := range fn.Blocks {
			if len(b.Instrs) == 0 {
				continue
			}
			ifi, ok := b.Instrs[len(b.Instrs)-1].(*ssa.If)
			if !ok {
				continue
			}
			bo, ok := ifi.Cond.(*ssa.BinOp)
			if !ok || bo.Op != token.EQL || bo.X != idxVal {
				continue
			}
			if k, ok := an.ConstInt(bo.Y); ok && int(k) == idx {
				fired[an.Edge{From: b, To: b.Succs[0]}] = true
			}
		}
		hits := an.Ungated(an.CutSpec{Fn: fn, Start: waitSel, GateEdge: fired, Sink: func(in ssa.Instruction) bool { return an.IsCall(in, "http.Service.writeResponse") }})
		c.Result(len(fired) > 0 && len(hits) == 0, "C23.c", "DOM", "queuedExecute:wait-on-own-flush-channel", c.P.Pos(waitSel.Pos()),
			"with wait, the success response follows only the receipt on the request's own flush channel",
			"with wait, the success response is reachable from the select without the flush channel having fired", nil)
		// and when Wait() holds, the select is always passed before the response
		waitTrue := map[an.Edge]bool{}
		var waitVals []ssa.Value
		for _, call := range an.CallsTo(fn, false, "http.QueryParams.Wait") {
			waitVals = append(waitVals, call.Value())
		}
		for e := range an.SenseEdges(fn, waitVals, an.IsFalse) {
			waitTrue[e] = true // edges to exclude: Wait() false
		}
		hits = an.Ungated(an.CutSpec{Fn: fn, Start: w.(ssa.Instruction), GateEdge: waitTrue,
			GateInstr: func(in ssa.Instruction) bool { return in == ssa.Instruction(waitSel) },
			Sink:      func(in ssa.Instruction) bool { return an.IsCall(in, "http.Service.writeResponse") }})
		c.Result(len(hits) == 0, "C23.c", "DOM", "queuedExecute:wait-not-skipped", c.P.Pos(waitSel.Pos()),
			"when the client asked to wait, the response cannot be written without passing the wait", "the wait can be skipped although the client asked for it", nil)
	}
}
