package props

import (
	"fmt"
	"go/ast"
	"go/token"
	"go/types"
	"os"
	"sort"
	"strings"

	"golang.org/x/tools/go/ssa"

	"rqverif/checker/internal/an"
	"rqverif/checker/internal/core"
)

func init() {
	register(&core.Check{
		ID:    "C24",
		Title: "The batching queue is FIFO, lossless and bounded per batch",
		Explanation: "C24.a GUARD: Queue.seqNum is accessed only with seqMu held, and the send on batchCh in Write happens inside the same critical section that allocated the sequence number (lock state at the send instruction is 'held'), so channel order equals sequence-number order. " +
			"C24.b WHO: batchCh is received from, and sendCh sent to, only in run (and its closures); the public channel C is sendCh. " +
			"C24.c DOM: in run, after every append to the pending slice each path back to the select passes the len==batchSize test, whose true edge calls the flush closure; the flush closure sends the merged request and then truncates the pending slice; mergeQueued appends each element's Objects whole, in index order, and keeps the maximum sequence number; flush channels are closed only in Request.Close.",
		NotCovered: []string{"liveness under timer races", "that no write blocks forever when the consumer stops"},
		Run:        runC24,
	})
}

func runC24(c *core.Ctx) {
	spec := an.GuardSpec{TypeName: "Queue", Mutex: "seqMu", Fields: []string{"seqNum"}}
	guardCheck(c, "C24.a", "queue", spec, 5)
	methods := an.MethodsOf(c.P.AllFunctions(), "queue", "Queue")
	sort.Slice(methods, func(i, j int) bool { return methods[i].Name() < methods[j].Name() })
	byName := map[string]*ssa.Function{}
	for _, m := range methods {
		byName[m.Name()] = m
	}
	isChanField := func(v ssa.Value, field string) bool { return an.LoadedField(v, "Queue", field) }

	// send inside the critical section
	if w := byName["Write"]; w != nil {
		sends := 0
		an.Instrs(w, func(in ssa.Instruction) {
			var ch ssa.Value
			switch x := in.(type) {
			case *ssa.Send:
				ch = x.Chan
			case *ssa.Select:
				for _, st := range x.States {
					if st.Dir == 1 /* SendOnly */ && isChanField(st.Chan, "batchCh") {
						ch = st.Chan
					}
				}
			}
			if ch == nil || !isChanField(ch, "batchCh") {
				return
			}
			sends++
			held := an.HeldAt(w, spec, 0, in)
			c.Result(held == 2, "C24.a", "GUARD", fmt.Sprintf("Queue.Write:send#%d:in-critical-section", sends), c.P.Pos(in.Pos()),
				"the enqueue happens with seqMu held, in the section that allocated the sequence number",
				"an enqueue on batchCh happens without seqMu held: two writers can enqueue in the opposite order of their sequence numbers", nil)
		})
		c.Count("enqueue sites in Write", sends)
		c.Min("enqueue sites in Write", 1)
	} else {
		c.Unk("C24.a", "GUARD", "Queue.Write", "", "Queue.Write not found")
	}

	// who receives / sends
	recvIn, sendIn := map[string]bool{}, map[string]bool{}
	// a helper method called only from run is run's code
	liftToRun := func(set map[string]bool) {
		for name := range set {
			if name == "run" {
				continue
			}
			for _, m := range methods {
				if m.Name() != name {
					continue
				}
				delete(set, name)
				for _, n := range accountable(c, m, func(n string) bool { return strings.HasSuffix(n, ").run") }) {
					set[n[strings.LastIndex(n, ".")+1:]] = true
				}
			}
		}
	}
	for _, m := range methods {
		for _, f := range an.WithClosures(m) {
			an.Instrs(f, func(in ssa.Instruction) {
				switch x := in.(type) {
				case *ssa.UnOp:
					if x.Op == token.ARROW && isChanField(x.X, "batchCh") {
						recvIn[m.Name()] = true
					}
				case *ssa.Select:
					for _, st := range x.States {
						if isChanField(st.Chan, "batchCh") && st.Dir == 2 /* RecvOnly */ {
							recvIn[m.Name()] = true
						}
						if isChanField(st.Chan, "sendCh") && st.Dir == 1 {
							sendIn[m.Name()] = true
						}
					}
				case *ssa.Send:
					if isChanField(x.Chan, "sendCh") {
						sendIn[m.Name()] = true
					}
				}
			})
		}
	}
	keys := func(m map[string]bool) string {
		var k []string
		for x := range m {
			k = append(k, x)
		}
		sort.Strings(k)
		return strings.Join(k, ",")
	}
	liftToRun(recvIn)
	liftToRun(sendIn)
	c.Result(keys(recvIn) == "run", "C24.b", "WHO", "Queue.batchCh:receivers", "", "batchCh is received from only in run", "batchCh is received from in: "+keys(recvIn), nil)
	c.Result(keys(sendIn) == "run", "C24.b", "WHO", "Queue.sendCh:senders", "", "sendCh is sent to only in run", "sendCh is sent to in: "+keys(sendIn), nil)

	// run: append followed by the size test; flush closure
	if run := byName["run"]; run != nil {
		c.Touch(run)
		var flush *ssa.Function
		for _, cl := range run.AnonFuncs {
			sends := false
			an.Instrs(cl, func(in ssa.Instruction) {
				if s, ok := in.(*ssa.Send); ok && isChanField(s.Chan, "sendCh") {
					sends = true
				}
			})
			if sends {
				flush = cl
			}
		}
		// the flush step as a private method of Queue that takes the pending
		// slice and returns the slice to continue with (value form)
		valueForm := false
		if flush == nil {
			for _, m := range methods {
				if m.Name() == "run" || ast.IsExported(m.Name()) {
					continue
				}
				sends := false
				an.Instrs(m, func(in ssa.Instruction) {
					if s, ok := in.(*ssa.Send); ok && isChanField(s.Chan, "sendCh") {
						sends = true
					}
				})
				if sends && len(m.Params) == 2 && m.Signature.Results().Len() == 1 {
					flush, valueForm = m, true
				}
			}
			// the instance run actually calls
			if flush != nil {
				an.Instrs(run, func(in ssa.Instruction) {
					if call, ok := in.(*ssa.Call); ok {
						if f := call.Common().StaticCallee(); f != nil && originOf(f) == originOf(flush) && len(f.Blocks) > 0 {
							flush = f
						}
					}
				})
			}
		}
		isFlush := func(call *ssa.Call) bool {
			switch v := call.Common().Value.(type) {
			case *ssa.MakeClosure:
				return v.Fn == ssa.Value(flush)
			case *ssa.Function:
				return v == flush || (valueForm && originOf(v) == originOf(flush))
			}
			// closure stored in a local: any call of a func value defined by MakeClosure(flush)
			return an.Mentions(call.Common().Value, func(y ssa.Value) bool {
				mc, ok := y.(*ssa.MakeClosure)
				return ok && mc.Fn == ssa.Value(flush)
			})
		}
		if flush == nil {
			c.Bad("C24.c", "DOM", "Queue.run:flush-closure", c.P.Pos(run.Pos()), "no closure in run sends on sendCh", nil)
		} else if valueForm {
			// merge(param) → send → return param[:0]; every call in run continues with the result
			var merge, send ssa.Instruction
			var trunc *ssa.Slice
			pend := flush.Params[1]
			fromPend := func(v ssa.Value) bool {
				return an.Mentions(v, func(y ssa.Value) bool { return y == ssa.Value(pend) })
			}
			an.Instrs(flush, func(in ssa.Instruction) {
				if call, ok := in.(*ssa.Call); ok && strings.HasSuffix(an.CalleeID(call), "queue.mergeQueued") && fromPend(call.Common().Args[0]) {
					merge = in
				}
				if s, ok := in.(*ssa.Send); ok && isChanField(s.Chan, "sendCh") {
					send = in
				}
				if sl, ok := in.(*ssa.Slice); ok && sl.High != nil && fromPend(sl.X) {
					if k, ok := an.ConstInt(sl.High); ok && k == 0 {
						trunc = sl
					}
				}
			})
			ok := merge != nil && send != nil && trunc != nil && an.Dominates(merge, send) && an.Dominates(send, trunc)
			if os.Getenv("RQCHECK_DEBUG_C24") != "" {
				fmt.Fprintf(os.Stderr, "C24 value form: run=%s flush=%s merge=%v send=%v trunc=%v ok=%v\n", run.String(), flush.String(), merge, send, trunc, ok)
			}
			if ok {
				ok = an.Unwrap(send.(*ssa.Send).X) == merge.(ssa.Value)
			}
			if ok {
				// every return after the send hands back the truncated slice
				an.Instrs(flush, func(in ssa.Instruction) {
					r, isRet := in.(*ssa.Return)
					if !isRet || !ok {
						return
					}
					if !an.MentionsValue(r.Results[0], trunc) && an.ReachableFrom(send, in, nil) {
						ok = false
					}
				})
			}
			if ok {
				// in run the result replaces the pending slice
				an.Instrs(run, func(in ssa.Instruction) {
					call, isCall := in.(*ssa.Call)
					if !isCall || !isFlush(call) {
						return
					}
					used := false
					for _, r := range *call.Referrers() {
						switch r.(type) {
						case *ssa.Phi, *ssa.Store:
							used = true
						}
					}
					if !used {
						ok = false
					}
				})
			}
			c.Result(ok, "C24.c", "DOM", "Queue.run:flush:merge-send-truncate", c.P.Pos(flush.Pos()),
				"the flush step sends mergeQueued(pending) and run continues with the truncated slice it returns",
				"the flush step does not send the merged request and then empty the pending slice (a batch could be lost, duplicated or grow past the batch size)", nil)
		} else {
			// flush: mergeQueued → send → truncate, in that order, on the non-nil edge
			var merge, send, trunc ssa.Instruction
			nSends := 0
			an.Instrs(flush, func(in ssa.Instruction) {
				if call, ok := in.(*ssa.Call); ok && strings.HasSuffix(an.CalleeID(call), "queue.mergeQueued") {
					merge = in
				}
				if s, ok := in.(*ssa.Send); ok && isChanField(s.Chan, "sendCh") {
					send = in
					nSends++
				}
				if st, ok := in.(*ssa.Store); ok {
					if sl, ok := st.Val.(*ssa.Slice); ok && sl.High != nil {
						if k, ok := an.ConstInt(sl.High); ok && k == 0 {
							if _, isFV := st.Addr.(*ssa.FreeVar); isFV {
								trunc = in
							}
						}
					}
				}
			})
			ok := nSends == 1 && merge != nil && send != nil && trunc != nil && an.Dominates(merge, send) && an.Dominates(send, trunc)
			if ok {
				// the sent value is the merged request
				ok = an.Unwrap(send.(*ssa.Send).X) == merge.(ssa.Value)
			}
			c.Result(ok, "C24.c", "DOM", "Queue.run:flush:merge-send-truncate", c.P.Pos(flush.Pos()),
				"the flush closure sends mergeQueued(pending) and then truncates the pending slice",
				"the flush closure does not send the merged request and then empty the pending slice (a batch could be lost, duplicated or grow past the batch size)", nil)
		}
		// append to the pending cell followed by the size test on every path back to the select
		var appends []ssa.Instruction
		var pendingCell ssa.Value
		an.Instrs(run, func(in ssa.Instruction) {
			st, ok := in.(*ssa.Store)
			if !ok {
				return
			}
			call, ok := st.Val.(*ssa.Call)
			if !ok {
				return
			}
			if bi, ok := call.Common().Value.(*ssa.Builtin); ok && bi.Name() == "append" {
				appends = append(appends, in)
				pendingCell = st.Addr
			}
		})
		// value form: the pending slice is an SSA value, not a captured cell
		appendVal := map[ssa.Instruction]ssa.Value{}
		if valueForm && len(appends) == 0 {
			an.Instrs(run, func(in ssa.Instruction) {
				call, ok := in.(*ssa.Call)
				if !ok {
					return
				}
				if bi, ok := call.Common().Value.(*ssa.Builtin); ok && bi.Name() == "append" && types.Identical(call.Type(), flush.Params[1].Type()) {
					appends = append(appends, in)
					appendVal[in] = call
				}
			})
		}
		c.Count("appends to the pending slice in run", len(appends))
		c.Min("appends to the pending slice in run", 1)
		for i, ap := range appends {
			isSizeTest := func(in ssa.Instruction) bool {
				ifi, ok := in.(*ssa.If)
				if !ok {
					return false
				}
				b, ok := ifi.Cond.(*ssa.BinOp)
				if !ok || (b.Op != token.EQL && b.Op != token.GEQ) {
					return false
				}
				lenOfPending := func(v ssa.Value) bool {
					call, ok := v.(*ssa.Call)
					if !ok {
						return false
					}
					bi, ok := call.Common().Value.(*ssa.Builtin)
					if !ok || bi.Name() != "len" {
						return false
					}
					if av := appendVal[ap]; av != nil {
						return call.Common().Args[0] == av
					}
					u, ok := call.Common().Args[0].(*ssa.UnOp)
					return ok && u.X == pendingCell
				}
				return (lenOfPending(b.X) && an.LoadedField(b.Y, "Queue", "batchSize")) || (lenOfPending(b.Y) && an.LoadedField(b.X, "Queue", "batchSize"))
			}
			hits := an.Ungated(an.CutSpec{Fn: run, Start: ap, GateInstr: isSizeTest,
				Sink: func(in ssa.Instruction) bool { _, ok := in.(*ssa.Select); return ok }})
			okTest := len(hits) == 0
			// the true edge of the size test calls the flush closure before the next select
			okFlush := false
			an.Instrs(run, func(in ssa.Instruction) {
				if !isSizeTest(in) {
					return
				}
				tb := in.Block().Succs[0]
				h := an.Ungated(an.CutSpec{Fn: run, StartBlocks: []*ssa.BasicBlock{tb},
					GateInstr: func(x ssa.Instruction) bool {
						call, ok := x.(*ssa.Call)
						return ok && flush != nil && isFlush(call)
					},
					Sink: func(x ssa.Instruction) bool { _, ok := x.(*ssa.Select); return ok }})
				if len(h) == 0 {
					okFlush = true
				}
			})
			c.Result(okTest && okFlush, "C24.c", "DOM", fmt.Sprintf("Queue.run:append#%d:size-test-then-flush", i+1), c.P.Pos(ap.Pos()),
				"every append is followed by the len==batchSize test, whose true edge flushes before the next receive",
				"after an append the batch-size test (or the flush on its true edge) can be skipped before the next receive: a batch could exceed the batch size", nil)
		}
		// the batch timeout and the flush marker always flush what is pending
		if flush != nil {
			isFlushCall := func(x ssa.Instruction) bool {
				call, ok := x.(*ssa.Call)
				return ok && isFlush(call)
			}
			toSelect := func(x ssa.Instruction) bool { _, ok := x.(*ssa.Select); return ok }
			var sel *ssa.Select
			an.Instrs(run, func(in ssa.Instruction) {
				if s, ok := in.(*ssa.Select); ok {
					sel = s
				}
			})
			okTimer, okMarker := false, false
			if sel != nil {
				for i, st := range sel.States {
					if !an.LoadedField(st.Chan, "Timer", "C") {
						continue
					}
					if b := selectCaseBlock(sel, i); b != nil {
						h := an.Ungated(an.CutSpec{Fn: run, StartBlocks: []*ssa.BasicBlock{b}, GateInstr: isFlushCall, Sink: toSelect})
						okTimer = len(h) == 0
					}
				}
			}
			// flush marker: the nil edge of the value received from batchCh
			an.Instrs(run, func(in ssa.Instruction) {
				ifi, ok := in.(*ssa.If)
				if !ok {
					return
				}
				bo, ok := ifi.Cond.(*ssa.BinOp)
				if !ok || bo.Op != token.EQL || !an.IsNilConst(bo.Y) {
					return
				}
				if ex, isEx := bo.X.(*ssa.Extract); !isEx || ex.Tuple != ssa.Value(sel) {
					return
				}
				h := an.Ungated(an.CutSpec{Fn: run, StartBlocks: []*ssa.BasicBlock{in.Block().Succs[0]}, GateInstr: isFlushCall, Sink: toSelect})
				okMarker = len(h) == 0
			})
			c.Result(okTimer, "C24.c", "DOM", "Queue.run:timeout-flushes", c.P.Pos(run.Pos()),
				"when the batch timer fires, the pending requests are always flushed before the next receive",
				"Queue.run can return to its select after the batch timer fired without flushing the pending requests (the timer is one-shot): requests below the batch size stay queued until enough further requests arrive — with no further traffic they are never applied", nil)
			c.Result(okMarker, "C24.c", "DOM", "Queue.run:flush-marker-flushes", c.P.Pos(run.Pos()),
				"a flush marker always flushes the pending requests before the next receive",
				"Queue.run can ignore a flush marker: Flush() returns without the pending requests having been handed on", nil)
		}
	} else {
		c.Unk("C24.c", "DOM", "Queue.run", "", "Queue.run not found")
	}

	// mergeQueued
	var merge *ssa.Function
	for f := range c.P.AllFunctions() {
		if f.Name() == "mergeQueued" && f.Pkg != nil && strings.HasSuffix(f.Pkg.Pkg.Path(), "/queue") && len(f.Blocks) > 0 {
			merge = f
		}
	}
	if merge == nil {
		for f := range c.P.AllFunctions() {
			if o := f.Origin(); o != nil && o.Name() == "mergeQueued" && len(f.Blocks) > 0 {
				merge = f
			}
		}
	}
	if merge == nil {
		c.Unk("C24.c", "DOM", "mergeQueued", "", "mergeQueued not found")
	} else {
		c.Touch(merge)
		okAppend, okMax := false, false
		an.Instrs(merge, func(in ssa.Instruction) {
			if call, ok := in.(*ssa.Call); ok {
				if bi, ok := call.Common().Value.(*ssa.Builtin); ok && bi.Name() == "append" && len(call.Common().Args) == 2 {
					a0, a1 := call.Common().Args[0], call.Common().Args[1]
					if an.MentionsField(a0, "Request", "Objects") && an.MentionsField(a1, "queuedObjects", "Objects") {
						// element index is the range index of a loop over the parameter
						okAppend = an.Mentions(a1, func(v ssa.Value) bool {
							ia, ok := v.(*ssa.IndexAddr)
							if !ok {
								return false
							}
							// the range index: a phi, or phi+1 in the rotated loop form
							isIdx := an.Mentions(ia.Index, func(y ssa.Value) bool { _, isPhi := y.(*ssa.Phi); return isPhi })
							return isIdx && isParamN(merge, 0)(ia.X)
						})
					}
				}
			}
			if ifi, ok := in.(*ssa.If); ok {
				if b, ok := ifi.Cond.(*ssa.BinOp); ok && b.Op == token.LSS && an.MentionsField(b.X, "Request", "SequenceNumber") && an.MentionsField(b.Y, "queuedObjects", "SequenceNumber") {
					// true edge stores the larger number
					tb := ifi.Block().Succs[0]
					for _, x := range tb.Instrs {
						if st, ok := x.(*ssa.Store); ok && an.MentionsField(st.Val, "queuedObjects", "SequenceNumber") {
							if t, f, _, ok := an.FieldOf(st.Addr); ok && t == "Request" && f == "SequenceNumber" {
								okMax = true
							}
						}
					}
				}
			}
		})
		// the merged slice is the request's own memory: Request.Objects only ever
		// grows by append onto itself (from nil or a fresh make), it never starts
		// as a queued write's slice — append would then write the later writes into
		// that caller's spare capacity
		okOwn, stores := true, 0
		an.Instrs(merge, func(in ssa.Instruction) {
			st, ok := in.(*ssa.Store)
			if !ok {
				return
			}
			if t, f, _, ok := an.FieldOf(st.Addr); !ok || t != "Request" || f != "Objects" {
				return
			}
			stores++
			v := an.Unwrap(st.Val)
			if call, isCall := v.(*ssa.Call); isCall {
				if bi, isB := call.Common().Value.(*ssa.Builtin); isB && bi.Name() == "append" && an.MentionsField(call.Common().Args[0], "Request", "Objects") && !an.MentionsField(call.Common().Args[0], "queuedObjects", "Objects") {
					return
				}
			}
			if _, isMake := v.(*ssa.MakeSlice); isMake {
				return
			}
			if an.IsNilConst(v) {
				return
			}
			okOwn = false
		})
		c.Result(okOwn && stores > 0, "C24.c", "OWN", "mergeQueued:merged-slice-is-own-memory", c.P.Pos(merge.Pos()),
			"the merged request's Objects grow only by append onto the request's own slice",
			"mergeQueued lets the merged request's Objects start as (or be replaced by) a queued write's own slice: appending the following writes can overwrite that caller's backing array, so objects of another write are lost or duplicated", nil)
		c.Result(okAppend, "C24.c", "DOM", "mergeQueued:whole-in-order", c.P.Pos(merge.Pos()), "each queued write's objects are appended whole, in index order", "mergeQueued does not append each element's Objects whole in index order", nil)
		c.Result(okMax, "C24.c", "DOM", "mergeQueued:max-sequence", c.P.Pos(merge.Pos()), "the merged request carries the maximum sequence number", "mergeQueued does not keep the maximum sequence number", nil)
	}

	// flush channels closed only in Request.Close
	closers := map[string]bool{}
	sp := c.P.SPkg("queue")
	all := c.P.AllFunctions()
	for f := range all {
		if len(f.Blocks) == 0 {
			continue
		}
		pk := f.Pkg
		if pk == nil && f.Origin() != nil {
			pk = f.Origin().Pkg
		}
		if pk != sp {
			continue
		}
		an.Instrs(f, func(in ssa.Instruction) {
			if call, ok := in.(*ssa.Call); ok {
				if bi, ok := call.Common().Value.(*ssa.Builtin); ok && bi.Name() == "close" {
					if strings.HasSuffix(call.Common().Args[0].Type().String(), "queue.FlushChannel") {
						closers[f.Name()] = true
					}
				}
			}
		})
	}
	c.Result(keys(closers) == "Close", "C24.c", "WHO", "FlushChannel:closers", "", "flush channels are closed only in Request.Close", "flush channels are closed in: "+keys(closers), nil)
}
