package props

import (
	"go/token"
	"strings"

	"golang.org/x/tools/go/ssa"

	"rqverif/checker/internal/an"
	"rqverif/checker/internal/core"
)

func init() {
	register(&core.Check{
		ID:    "C25",
		Title: "CDC delivers every committed change at least once with its log index",
		Explanation: "C25.a INIT: every CDCIndexedEventGroup that db.CDCStreamer installs as its pending group after construction carries the current log entry's index — the argument of Reset, or the previous group's Index in CommitHook (one log entry may commit more than once); the group is handed to the out channel on every commit with events (a non-blocking send that can discard the group is reported). " +
			"C25.b DOM: in cdc.Service.leaderLoop the high watermark is stored only after sink.Write returned nil for that batch and with that batch's index; FIFO.DeleteRange is called only with a value read from the high watermark (leader ticker) or received from the leader (follower); writeToBatcher skips a group only when its index is non-zero and <= the high watermark. " +
			"C25.c ORD: on a snapshot sync request the channel handed over by the store is closed only after the flush marker's batch was acknowledged (its flush channel fired) or the service is shutting down. " +
			"C25.d TABLE: the FIFO key of a batch is the maximum Index over its groups (mainLoop), and store.fsmApply calls CDCStreamer.Reset(l.Index) before CommandProcessor.Process on every path where CDC is enabled. " +
			"C25.e DECIDE: cdc.HTTPSink.Write — whose nil error lets the leader advance the high watermark and every node prune the batch — is interpreted over {request built, round trip ok, status ∈ {200,202,204,301,404,429,500,503}}: it reports success only for a request that was sent and answered 200/202 (other 2xx either way), an error for every other status.",
		NotCovered: []string{"delivery across restarts and leader changes (needs executions)", "one log index spanning two batches: the FIFO ignores the second batch because its key is not above the highest key (observed, not decidable by a structural rule)"},
		Run:        runC25,
	})
}

func runC25(c *core.Ctx) {
	c25e(c)
	c25Reregister(c)
	// C25.a
	groups := 0
	for _, name := range []string{"(*CDCStreamer).Reset", "(*CDCStreamer).CommitHook"} {
		fn := c.Fn("C25.a", "db", name)
		if fn == nil {
			continue
		}
		an.Instrs(fn, func(in ssa.Instruction) {
			st, ok := in.(*ssa.Store)
			if !ok {
				return
			}
			t, f, _, ok := an.FieldOf(st.Addr)
			if !ok || t != "CDCStreamer" || f != "pending" {
				return
			}
			al, ok := an.Unwrap(st.Val).(*ssa.Alloc)
			if !ok {
				return
			}
			groups++
			// a store to al.Index before the group is installed
			var idx ssa.Value
			for _, r := range *al.Referrers() {
				if fa, ok := r.(*ssa.FieldAddr); ok {
					if _, fl, _, ok := an.FieldOf(fa); ok && fl == "Index" {
						for _, rr := range *fa.Referrers() {
							if s2, ok := rr.(*ssa.Store); ok && s2.Addr == ssa.Value(fa) {
								idx = s2.Val
							}
						}
					}
				}
			}
			okIdx := idx != nil && (isParamN(fn, 1)(idx) || an.Mentions(idx, func(v ssa.Value) bool {
				tt, ff, _, ok := an.FieldOf(v)
				return ok && tt == "CDCIndexedEventGroup" && ff == "Index"
			}))
			c.Result(okIdx, "C25.a", "INIT", name+":pending-group-carries-index", c.P.Pos(st.Pos()),
				"the new pending group is labelled with the log entry's index", "a pending group is installed without the current log entry's index: the changes of a second commit within one log entry are labelled 0 and later discarded as already delivered", nil)
			// the new group's event list is its own memory: the previous group has been handed to the
			// consumer, which must not see events appended afterwards
			fresh := true
			for _, r := range *al.Referrers() {
				if fa, ok := r.(*ssa.FieldAddr); ok {
					if _, fl, _, ok := an.FieldOf(fa); ok && fl == "Events" {
						for _, rr := range *fa.Referrers() {
							if s2, ok := rr.(*ssa.Store); ok && s2.Addr == ssa.Value(fa) {
								switch v := s2.Val.(type) {
								case *ssa.MakeSlice:
								case *ssa.Const:
								case *ssa.Slice:
									// make([]T, k) with constant k is a slice of a new array
									if _, isNew := v.X.(*ssa.Alloc); !isNew {
										fresh = false
									}
								default:
									fresh = false
								}
							}
						}
					}
				}
			}
			c.Result(fresh, "C25.a", "INIT", name+":pending-group-own-events", c.P.Pos(st.Pos()),
				"the new pending group starts with an event list of its own (made fresh or nil)",
				"a pending group is installed with an event list derived from existing memory (e.g. the previous group's slice re-sliced to length 0): the group already handed to the consumer shares its backing array, and the events of the next commit overwrite the ones being delivered", nil)
		})
	}
	c.Count("pending-group installations after construction", groups)
	c.Min("pending-group installations after construction", 2)
	if fn := c.Fn("C25.a", "db", "(*CDCStreamer).CommitHook"); fn != nil {
		blocking := false
		dropping := false
		an.Instrs(fn, func(in ssa.Instruction) {
			switch x := in.(type) {
			case *ssa.Send:
				if an.LoadedField(x.Chan, "CDCStreamer", "out") {
					blocking = true
				}
			case *ssa.Select:
				for _, st := range x.States {
					if st.Dir == 1 && an.LoadedField(st.Chan, "CDCStreamer", "out") {
						if x.Blocking {
							blocking = true
						} else {
							dropping = true
						}
					}
				}
			}
		})
		c.Result(blocking && !dropping, "C25.a", "INIT", "CommitHook:group-always-handed-over", c.P.Pos(fn.Pos()),
			"every committed group is handed to the CDC service", "CommitHook sends the committed group with a non-blocking select and discards it when the channel is full: changes committed while the CDC service is busy are never delivered", nil)
	}

	// C25.b
	sp := c.P.SPkg("cdc")
	if sp == nil {
		return
	}
	var leader *ssa.Function
	for _, fn := range pkgFuncs(sp) {
		if fn.Parent() != nil && fn.Parent().Name() == "leaderLoop" && len(an.CallsTo(fn, false, "cdc.Sink.Write", "io.Writer.Write")) > 0 {
			leader = fn
		}
	}
	if leader == nil {
		c.Unk("C25.b", "DOM", "leaderLoop", "", "the leader loop goroutine (calling sink.Write) was not found")
	} else {
		c.Touch(leader)
		var writes []ssa.CallInstruction
		for _, w := range an.AllCalls(leader, false) {
			if recvField(w, "Service") == "sink" {
				writes = append(writes, w)
			}
		}
		var stores []ssa.CallInstruction
		for _, call := range an.AllCalls(leader, false) {
			if strings.HasSuffix(an.CalleeID(call), ".Store") && len(call.Common().Args) == 2 && an.MentionsField(call.Common().Args[0], "Service", "highWatermark") {
				stores = append(stores, call)
			}
		}
		if len(writes) != 1 || len(stores) == 0 {
			c.Unk("C25.b", "DOM", "leaderLoop:shape", c.P.Pos(leader.Pos()), "expected one sink.Write and at least one high-watermark store")
		} else {
			okE := an.SenseEdges(leader, an.ErrResult(writes[0]), an.IsNil)
			for _, st := range stores {
				sti := st.(ssa.Instruction)
				// per batch: start from the receive of the event
				h := an.UngatedPS(an.CutSpec{Fn: leader, Start: recvOf(leader, "Queue", "C"), GateEdge: okE, Sink: func(in ssa.Instruction) bool { return in == sti }})
				okIdx := an.MentionsField(st.Common().Args[1], "Event", "Index")
				c.Result(len(okE) > 0 && len(h) == 0 && okIdx, "C25.b", "DOM", "leaderLoop:hwm-after-delivery", c.P.Pos(st.Pos()),
					"the high watermark advances to a batch's index only after the endpoint accepted that batch", "the high watermark can advance for a batch that was not delivered (or to another index): the batch is then treated as delivered and pruned", nil)
			}
		}
	}
	// DeleteRange arguments
	n := 0
	for _, fn := range pkgFuncs(sp) {
		for _, call := range an.AllCalls(fn, false) {
			if recvField(call, "Service") != "fifo" {
				continue
			}
			m := ""
			if sc := call.Common().StaticCallee(); sc != nil {
				m = sc.Name()
			}
			if m != "DeleteRange" {
				continue
			}
			n++
			arg := call.Common().Args[1]
			ok := an.Mentions(arg, func(v ssa.Value) bool {
				if cl, isC := v.(*ssa.Call); isC && strings.HasSuffix(an.CalleeID(cl), ".Load") && an.MentionsField(cl.Common().Args[0], "Service", "highWatermark") {
					return true
				}
				if u, isU := v.(*ssa.UnOp); isU && u.Op == token.ARROW && an.MentionsField(u.X, "Service", "hwmObCh") {
					return true
				}
				if e, isE := v.(*ssa.Extract); isE {
					if sel, isS := e.Tuple.(*ssa.Select); isS {
						for _, st := range sel.States {
							if an.MentionsField(st.Chan, "Service", "hwmObCh") {
								return true
							}
						}
					}
				}
				return false
			})
			c.Result(ok, "C25.b", "DOM", core.FuncName(an.TopFunc(fn))+":DeleteRange-arg", c.P.Pos(call.Pos()), "the FIFO is pruned only up to a high-watermark value", "the FIFO is pruned with "+an.Canon(arg)+", which is not a high-watermark value: undelivered batches could be deleted", nil)
		}
	}
	c.Count("FIFO prune sites", n)
	c.Min("FIFO prune sites", 2)
	// writeToBatcher skip condition
	if fn := c.Fn("C25.b", "cdc", "(*Service).writeToBatcher"); fn != nil {
		writes := an.CallsTo(fn, false, "queue.Queue.WriteOne")
		c.Count("batcher writes", len(writes))
		c.Min("batcher writes", 1)
		// a received group reaches the batcher unless (Index != 0 && Index <= hwm)
		okSkip := false
		for _, b := range fn.Blocks {
			if len(b.Instrs) == 0 {
				continue
			}
			ifi, ok := b.Instrs[len(b.Instrs)-1].(*ssa.If)
			if !ok {
				continue
			}
			bo, ok := ifi.Cond.(*ssa.BinOp)
			if ok && bo.Op == token.LEQ && an.MentionsField(bo.X, "CDCIndexedEventGroup", "Index") && an.MentionsField(bo.Y, "Service", "highWatermark") {
				okSkip = true
			}
		}
		c.Result(okSkip, "C25.b", "DOM", "writeToBatcher:skip-condition", c.P.Pos(fn.Pos()), "a group is skipped only when its index is <= the high watermark", "writeToBatcher's skip condition is no longer 'index <= high watermark'", nil)

		// C25.c
		var closeCh ssa.Instruction
		closes := map[ssa.Instruction]bool{}
		an.Instrs(fn, func(in ssa.Instruction) {
			if call, ok := in.(*ssa.Call); ok {
				if bi, ok := call.Common().Value.(*ssa.Builtin); ok && bi.Name() == "close" {
					if closeCh == nil {
						closeCh = in
					}
					closes[in] = true
				}
			}
		})
		if closeCh == nil {
			c.Unk("C25.c", "ORD", "writeToBatcher:snapshot-sync", c.P.Pos(fn.Pos()), "the close of the snapshot-sync channel was not found")
		} else {
			// the close is preceded by a blocking select on the flush channel (or done)
			h := an.Ungated(an.CutSpec{Fn: fn, Start: recvOf(fn, "Service", "snapshotCh"),
				GateInstr: func(in ssa.Instruction) bool {
					s, ok := in.(*ssa.Select)
					if !ok || !s.Blocking {
						return false
					}
					hasFlush := false
					for _, st := range s.States {
						if _, isMk := an.Unwrap(st.Chan).(*ssa.MakeChan); isMk {
							hasFlush = true
						}
					}
					return hasFlush
				},
				Sink: func(in ssa.Instruction) bool { return closes[in] }})
			if len(h) > 0 {
				closeCh = h[0].Instr
			}
			c.Result(len(h) == 0, "C25.c", "ORD", "writeToBatcher:snapshot-sync", c.P.Pos(closeCh.Pos()),
				"the snapshot may proceed only after the flush marker's batch was written to the FIFO (or on shutdown)", "the snapshot-sync channel can be closed without waiting for the flush marker: a snapshot could truncate log entries whose changes are not yet in the FIFO", nil)
		}
	}

	// C25.b (continued): every batch leaving the batcher is written to the FIFO
	if fn := c.Fn("C25.b", "cdc", "(*Service).mainLoop"); fn != nil {
		var sel *ssa.Select
		idx := -1
		an.Instrs(fn, func(in ssa.Instruction) {
			if s, ok := in.(*ssa.Select); ok {
				for i, st := range s.States {
					if st.Dir == 2 && an.MentionsField(st.Chan, "Service", "batcher") {
						sel, idx = s, i
					}
				}
			}
		})
		var enq ssa.Instruction
		for _, call := range an.AllCalls(fn, false) {
			if recvField(call, "Service") == "fifo" {
				if sc := call.Common().StaticCallee(); sc != nil && sc.Name() == "Enqueue" {
					enq = call.(ssa.Instruction)
				}
			}
		}
		if sel == nil || enq == nil {
			c.Unk("C25.b", "DOM", "mainLoop:batch-to-fifo", c.P.Pos(fn.Pos()), "the receive from the batcher or the FIFO write was not found in mainLoop")
		} else {
			var idxVal ssa.Value
			for _, r := range *sel.Referrers() {
				if e, ok := r.(*ssa.Extract); ok && e.Index == 0 {
					idxVal = e
				}
			}
			var start *ssa.BasicBlock
			bypass := map[an.Edge]bool{}
			for _, b := range fn.Blocks {
				if len(b.Instrs) == 0 {
					continue
				}
				ifi, ok := b.Instrs[len(b.Instrs)-1].(*ssa.If)
				if !ok {
					continue
				}
				if bo, ok := ifi.Cond.(*ssa.BinOp); ok && bo.Op == token.EQL && bo.X == idxVal {
					if k, ok := an.ConstInt(bo.Y); ok && int(k) == idx {
						start = b.Succs[0]
					}
				}
				// a lone flush marker carries no changes
				if an.MentionsField(ifi.Cond, "CDCIndexedEventGroup", "Flush") {
					bypass[an.Edge{From: b, To: b.Succs[0]}] = true
				}
			}
			for _, call := range an.AllCalls(fn, false) {
				id := an.CalleeID(call)
				if strings.HasSuffix(id, "MarshalToEnvelopeJSON") || strings.HasSuffix(id, "flate.Compress") {
					for e := range an.SenseEdges(fn, an.ErrResult(call), an.NotNil) {
						bypass[e] = true
					}
				}
			}
			if start == nil {
				c.Unk("C25.b", "DOM", "mainLoop:batch-to-fifo", c.P.Pos(fn.Pos()), "the select case receiving from the batcher was not located")
			} else {
				h := an.Ungated(an.CutSpec{Fn: fn, StartBlocks: []*ssa.BasicBlock{start}, GateEdge: bypass,
					GateInstr: func(in ssa.Instruction) bool { return in == enq },
					Sink: func(in ssa.Instruction) bool {
						if in == ssa.Instruction(sel) {
							return true
						}
						_, isRet := in.(*ssa.Return)
						return isRet
					}})
				c.Result(len(h) == 0, "C25.b", "DOM", "mainLoop:batch-to-fifo", c.P.Pos(enq.Pos()),
					"every batch received from the batcher is written to the FIFO (except a lone flush marker or an encoding failure)",
					"a batch received from the batcher can be dropped without being written to the FIFO: its changes are never delivered if this node becomes leader", nil)
			}
		}
	}

	// C25.d
	if fn := c.Fn("C25.d", "cdc", "(*Service).mainLoop"); fn != nil {
		okMax := false
		for _, b := range fn.Blocks {
			if len(b.Instrs) == 0 {
				continue
			}
			ifi, ok := b.Instrs[len(b.Instrs)-1].(*ssa.If)
			if !ok {
				continue
			}
			bo, ok := ifi.Cond.(*ssa.BinOp)
			if ok && bo.Op == token.GTR && an.MentionsField(bo.X, "CDCIndexedEventGroup", "Index") {
				if _, isPhi := bo.Y.(*ssa.Phi); isPhi {
					okMax = true
				}
			}
		}
		okKey := false
		for _, call := range an.AllCalls(fn, false) {
			if recvField(call, "Service") == "fifo" {
				if al, ok := an.Unwrap(call.Common().Args[1]).(*ssa.Alloc); ok {
					for _, r := range *al.Referrers() {
						if fa, ok := r.(*ssa.FieldAddr); ok {
							if _, fl, _, _ := an.FieldOf(fa); fl == "Index" {
								for _, rr := range *fa.Referrers() {
									if st, ok := rr.(*ssa.Store); ok {
										if _, isPhi := st.Val.(*ssa.Phi); isPhi {
											okKey = true
										}
									}
								}
							}
						}
					}
				}
			}
		}
		c.Result(okMax && okKey, "C25.d", "TABLE", "mainLoop:fifo-key-is-max-index", c.P.Pos(fn.Pos()), "a batch is keyed by the maximum index of its groups", "the FIFO key of a batch is not the maximum index over its groups", nil)
	}
	if fn := c.Fn("C25.d", "store", "(*Store).fsmApply"); fn != nil {
		ok := false
		hosts := an.WithClosures(fn)
		// the block may have become a private method of its own
		if h := hostOf(fn, func(f *ssa.Function) bool {
			return len(an.CallsTo(f, false, "db.CDCStreamer.Reset")) == 1 && len(an.CallsTo(f, false, "store.CommandProcessor.Process")) == 1
		}); h != nil && h != fn {
			c.Touch(h)
			hosts = append(hosts, an.WithClosures(h)...)
		}
		for _, cl := range hosts {
			resets := an.CallsTo(cl, false, "db.CDCStreamer.Reset")
			procs := an.CallsTo(cl, false, "store.CommandProcessor.Process")
			if len(resets) == 1 && len(procs) == 1 {
				// on the cdcEnabled edge, Reset precedes Process and takes l.Index
				var en []ssa.Value
				for _, call := range an.AllCalls(cl, false) {
					if strings.HasSuffix(an.CalleeID(call), "AtomicBool.Is") && an.MentionsField(call.Common().Args[0], "Store", "cdcEnabled") {
						en = append(en, call.Value())
					}
				}
				off := an.SenseEdges(cl, en, an.IsFalse)
				h := an.Ungated(an.CutSpec{Fn: cl, GateEdge: off, GateInstr: func(in ssa.Instruction) bool { return in == resets[0].(ssa.Instruction) },
					Sink: func(in ssa.Instruction) bool { return in == procs[0].(ssa.Instruction) }})
				ok = len(en) > 0 && len(h) == 0 && an.MentionsField(resets[0].Common().Args[1], "Log", "Index")
			}
		}
		c.Result(ok, "C25.d", "TABLE", "fsmApply:reset-with-entry-index", c.P.Pos(fn.Pos()), "with CDC enabled every entry is applied after CDCStreamer.Reset(l.Index)", "an entry can be applied with CDC enabled without the streamer having been reset to its index", nil)
	}
}

// recvOf returns the instruction that receives from the channel held in
// field typ.field (a receive or a select with such a state), or nil.
func recvOf(fn *ssa.Function, typ, field string) ssa.Instruction {
	var out ssa.Instruction
	an.Instrs(fn, func(in ssa.Instruction) {
		if out != nil {
			return
		}
		has := func(v ssa.Value) bool {
			return an.Mentions(v, func(x ssa.Value) bool {
				t, f, _, ok := an.FieldOf(x)
				return ok && t == typ && f == field
			})
		}
		switch x := in.(type) {
		case *ssa.UnOp:
			if x.Op == token.ARROW && has(x.X) {
				out = in
			}
		case *ssa.Select:
			for _, st := range x.States {
				if st.Dir == 2 && has(st.Chan) {
					out = in
				}
			}
		}
	})
	return out
}
