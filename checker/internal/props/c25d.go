package props

import (
	"strings"

	"golang.org/x/tools/go/ssa"

	"rqverif/checker/internal/an"
	"rqverif/checker/internal/core"
)

// C25.d: replacing the database (Swap) drops the CDC hooks that were registered
// on the old connection. Every path that replaced it successfully must mark the
// hooks as not registered, so that the next apply registers them again;
// otherwise changes applied after a restore / load / boot never reach CDC.
func c25Reregister(c *core.Ctx) {
	isUnset := func(in ssa.Instruction) bool {
		call, ok := in.(*ssa.Call)
		if !ok || !strings.HasSuffix(an.CalleeID(call), "AtomicBool.Unset") {
			return false
		}
		return an.MentionsField(call.Call.Args[0], "Store", "cdcRegistered")
	}
	n := 0
	for _, name := range []string{"(*Store).fsmRestore", "(*Store).ReadFrom"} {
		fn := c.Fn("C25.d", "store", name)
		if fn == nil {
			continue
		}
		swaps := an.CallsTo(fn, false, "db.SwappableDB.Swap")
		if len(swaps) != 1 {
			c.Unk("C25.d", "PAIR", name+":swap", c.P.Pos(fn.Pos()), "expected exactly one Swap")
			continue
		}
		n++
		okE := an.SenseEdges(fn, an.ErrResult(swaps[0]), an.IsNil)
		var starts []*ssa.BasicBlock
		for e := range okE {
			starts = append(starts, e.To)
		}
		succ := map[ssa.Instruction]bool{}
		for _, r := range an.SuccessReturns(fn) {
			succ[r] = true
		}
		h := an.Ungated(an.CutSpec{Fn: fn, StartBlocks: starts, GateInstr: an.Lift(isUnset, 2, core.InModule), Sink: func(in ssa.Instruction) bool { return succ[in] }})
		c.Result(len(starts) > 0 && len(h) == 0, "C25.d", "PAIR", name+":hooks-marked-unregistered-after-swap", c.P.Pos(swaps[0].Pos()),
			"after the database was replaced, the CDC hooks are marked unregistered before the function returns successfully",
			name+" can return successfully after replacing the database without clearing cdcRegistered: the hooks registered on the old connection are gone and are never registered again — changes applied afterwards are not captured, so they are never delivered", nil)
	}
	if fn := c.Fn("C25.d", "store", "(*Store).fsmApply"); fn != nil {
		blocks := caseRegions(fn)[4] // COMMAND_TYPE_LOAD
		n++
		c.Result(regionHas(blocks, isUnset), "C25.d", "PAIR", "(*Store).fsmApply:LOAD:hooks-marked-unregistered", c.P.Pos(fn.Pos()),
			"the LOAD case marks the CDC hooks unregistered", "fsmApply's LOAD case does not clear cdcRegistered after the load replaced the database: changes applied afterwards are not captured", nil)
	}
	c.Count("database replacement sites checked for CDC re-registration", n)
	c.Min("database replacement sites checked for CDC re-registration", 3)
}
