package props

import (
	"go/token"

	"golang.org/x/tools/go/ssa"

	"rqverif/checker/internal/an"
	"rqverif/checker/internal/core"
)

// C25.e: the leader loop advances the high watermark — and every node then
// prunes the batch from its FIFO — when Sink.Write returns nil. The HTTP sink
// therefore reports success only for a request that was sent and answered with
// a success status: decision table of HTTPSink.Write over {request built, round
// trip ok, status ∈ {200, 202, 204, 301, 404, 429, 500, 503}}.
func c25e(c *core.Ctx) {
	fn := c.Fn("C25.e", "cdc", "(*HTTPSink).Write")
	if fn == nil {
		return
	}
	statuses := []int{200, 202, 204, 301, 404, 429, 500, 503}
	isStatus := func(v ssa.Value) bool { return an.LoadedField(an.Unwrap(v), "Response", "StatusCode") }
	spec := an.DecideSpec{
		Fn:   fn,
		Vars: []an.Var{an.Bool("reqOK"), an.Bool("doOK"), {Name: "status", Values: statuses}},
		Conds: []an.CondMatcher{
			errOf("reqOK", "net/http.NewRequest", "net/http.NewRequestWithContext"),
			errOf("doOK", "net/http.Client.Do"),
			func(cond ssa.Value) (func(an.Val) bool, bool) {
				b, ok := cond.(*ssa.BinOp)
				if !ok {
					return nil, false
				}
				var k int64
				var kok, left bool
				switch {
				case isStatus(b.X):
					k, kok = an.ConstInt(b.Y)
					left = true
				case isStatus(b.Y):
					k, kok = an.ConstInt(b.X)
				}
				if !kok {
					return nil, false
				}
				op := b.Op
				if !left {
					switch op {
					case token.LSS:
						op = token.GTR
					case token.GTR:
						op = token.LSS
					case token.LEQ:
						op = token.GEQ
					case token.GEQ:
						op = token.LEQ
					}
				}
				return func(v an.Val) bool {
					s := int64(v["status"])
					switch op {
					case token.EQL:
						return s == k
					case token.NEQ:
						return s != k
					case token.LSS:
						return s < k
					case token.LEQ:
						return s <= k
					case token.GTR:
						return s > k
					case token.GEQ:
						return s >= k
					}
					return false
				}, true
			},
		},
		Ret: func(r *ssa.Return, resolve func(ssa.Value) ssa.Value) string {
			if len(r.Results) == 0 {
				return "?"
			}
			if an.IsNilConst(an.Unwrap(resolve(r.Results[len(r.Results)-1]))) {
				return "delivered"
			}
			return "error"
		},
		Ref: func(v an.Val) string {
			if v["reqOK"] == 0 || v["doOK"] == 0 {
				return " => error"
			}
			switch s := v["status"]; {
			case s == 200 || s == 202:
				return " => delivered"
			case s >= 200 && s < 300:
				return " => delivered ||  => error" // other 2xx: either reading is defensible
			}
			return " => error"
		},
	}
	reportDecide(c, "C25.e", "(*HTTPSink).Write", c.P.Pos(fn.Pos()), an.Decide(spec, c.P.Pos))
}
