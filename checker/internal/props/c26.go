package props

import (
	"go/token"
	"sort"
	"strings"

	"golang.org/x/tools/go/ssa"

	"rqverif/checker/internal/an"
	"rqverif/checker/internal/core"
)

func init() {
	register(&core.Check{
		ID:    "C26",
		Title: "The CDC disk queue is ordered, durable and prunes exactly what it is told",
		Explanation: "C26.a WHO by field: the bbolt handle of cdc.Queue is touched only by NewQueue and the run goroutine (and its closures); the request channels are received from only in run — all cursor state lives in that one goroutine. " +
			"C26.b DOM: in run's enqueue branch the ignore path is exactly idx <= highestKey; the item Put and the highest-key update happen inside the same bbolt Update closure; the caller is answered only after that transaction returned. " +
			"C26.c DOM: in run's delete branch keys are collected from the first key while key <= idx (and only those are deleted), and the read cursor (nextFrom) is moved by a delete only forwards: the assignment nextFrom = idx+1 is reachable only on the edge nextFrom != 0 ∧ nextFrom <= idx. " +
			"C26.d CONST: every integer ↔ bbolt key conversion in package cdc is big-endian (bbolt orders keys bytewise; First/Seek/Next and range deletes rely on key order = index order).",
		NotCovered: []string{"ordering and durability across process kills (bbolt's guarantees)", "that an item is emitted at most once per open (depends on the interplay of head reloads; the forward-only cursor is its structural part)"},
		Run:        runC26,
	})
}

func runC26(c *core.Ctx) {
	c26d(c)
	methods := an.MethodsOf(c.P.AllFunctions(), "cdc", "Queue")
	sort.Slice(methods, func(i, j int) bool { return methods[i].Name() < methods[j].Name() })
	// C26.a
	users := map[string]bool{}
	recvs := map[string]map[string]bool{"enqueueChan": {}, "deleteRangeChan": {}, "queryChan": {}}
	for _, m := range methods {
		for _, f := range an.WithClosures(m) {
			an.Instrs(f, func(in ssa.Instruction) {
				if fa, ok := in.(*ssa.FieldAddr); ok {
					if t, fl, _, ok := an.FieldOf(fa); ok && t == "Queue" && fl == "db" {
						users[m.Name()] = true
					}
				}
				if s, ok := in.(*ssa.Select); ok {
					for _, st := range s.States {
						for ch := range recvs {
							if st.Dir == 2 && an.LoadedField(st.Chan, "Queue", ch) {
								recvs[ch][m.Name()] = true
							}
						}
					}
				}
				if u, ok := in.(*ssa.UnOp); ok && u.Op == token.ARROW {
					for ch := range recvs {
						if an.LoadedField(u.X, "Queue", ch) {
							recvs[ch][m.Name()] = true
						}
					}
				}
			})
		}
	}
	keys := func(m map[string]bool) string {
		var k []string
		for x := range m {
			k = append(k, x)
		}
		sort.Strings(k)
		return strings.Join(k, ",")
	}
	c.Result(keys(users) == "run", "C26.a", "WHO", "Queue.db:users", "", "the bbolt handle is used only by the run goroutine (NewQueue builds it before the goroutine starts)", "the bbolt handle is used by methods {"+keys(users)+"}; reference {run}", nil)
	for _, ch := range []string{"enqueueChan", "deleteRangeChan", "queryChan"} {
		c.Result(keys(recvs[ch]) == "run", "C26.a", "WHO", "Queue."+ch+":receivers", "", ch+" is served only by run", ch+" is received from in {"+keys(recvs[ch])+"}", nil)
	}

	var run *ssa.Function
	for _, m := range methods {
		if m.Name() == "run" {
			run = m
		}
	}
	if run == nil {
		c.Unk("C26.b", "DOM", "Queue.run", "", "Queue.run not found")
		return
	}
	c.Touch(run)
	// C26.b
	var putCl *ssa.Function
	for _, cl := range run.AnonFuncs {
		if len(an.CallsTo(cl, false, "go.etcd.io/bbolt.Bucket.Put")) > 0 {
			putCl = cl
		}
	}
	if putCl == nil {
		c.Bad("C26.b", "DOM", "run:enqueue:transaction", c.P.Pos(run.Pos()), "no Update closure storing the item was found", nil)
	} else {
		c.Touch(putCl)
		sameTx := len(an.CallsTo(putCl, false, "cdc.setHighestKey")) > 0
		c.Result(sameTx, "C26.b", "DOM", "run:enqueue:item-and-highest-key-in-one-transaction", c.P.Pos(putCl.Pos()),
			"the item and the highest-key marker are written in the same transaction", "the highest-key marker is not updated in the transaction that stores the item: a crash between them makes the queue accept an older index again or refuse a new one", nil)
		// the response follows the Update call
		var upd ssa.Instruction
		for _, call := range an.CallsTo(run, false, "go.etcd.io/bbolt.DB.Update") {
			if mc, ok := call.Common().Args[1].(*ssa.MakeClosure); ok && mc.Fn == ssa.Value(putCl) {
				upd = call.(ssa.Instruction)
			}
		}
		okResp := false
		if upd != nil {
			// a send of enqueueResp reachable only after upd, on the non-ignore path
			an.WalkFrom(run, upd, func(in ssa.Instruction) bool {
				if s, ok := in.(*ssa.Send); ok && strings.Contains(s.X.Type().String(), "enqueueResp") {
					okResp = true
					return false
				}
				_, isSel := in.(*ssa.Select)
				return !isSel
			})
		}
		c.Result(okResp, "C26.b", "DOM", "run:enqueue:answer-after-transaction", c.P.Pos(run.Pos()), "the enqueuer is answered after the transaction returned", "the enqueuer can be answered before the transaction that stores its item has returned", nil)
	}
	// ignore condition: idx <= highestKey
	okIgnore := false
	for _, b := range run.Blocks {
		if len(b.Instrs) == 0 {
			continue
		}
		ifi, ok := b.Instrs[len(b.Instrs)-1].(*ssa.If)
		if !ok {
			continue
		}
		bo, ok := ifi.Cond.(*ssa.BinOp)
		if ok && bo.Op == token.LEQ && an.MentionsField(bo.X, "enqueueReq", "idx") && isParamOrCellOf(bo.Y, run, 1) {
			// the true edge answers without a Put: no Update on that edge before the next select
			h := an.Ungated(an.CutSpec{Fn: run, StartBlocks: []*ssa.BasicBlock{b.Succs[0]},
				GateInstr: func(in ssa.Instruction) bool { _, isSel := in.(*ssa.Select); return isSel },
				Sink:      func(in ssa.Instruction) bool { return an.IsCall(in, "go.etcd.io/bbolt.DB.Update") }})
			okIgnore = len(h) == 0
		}
	}
	c.Result(okIgnore, "C26.b", "DOM", "run:enqueue:ignore-iff-not-above-highest", c.P.Pos(run.Pos()), "an item is ignored exactly when its index is <= the highest key ever stored", "the enqueue ignore test is no longer 'idx <= highestKey'", nil)

	// C26.c
	var delCl *ssa.Function
	for _, cl := range run.AnonFuncs {
		if len(an.CallsTo(cl, false, "go.etcd.io/bbolt.Bucket.Delete")) > 0 {
			delCl = cl
		}
	}
	if delCl == nil {
		c.Bad("C26.c", "DOM", "run:delete:transaction", c.P.Pos(run.Pos()), "no Update closure deleting keys was found", nil)
	} else {
		c.Touch(delCl)
		first := len(an.CallsTo(delCl, false, "go.etcd.io/bbolt.Cursor.First")) == 1
		bound := false
		for _, b := range delCl.Blocks {
			if len(b.Instrs) == 0 {
				continue
			}
			ifi, ok := b.Instrs[len(b.Instrs)-1].(*ssa.If)
			if !ok {
				continue
			}
			if bo, ok := ifi.Cond.(*ssa.BinOp); ok && bo.Op == token.LEQ && an.MentionsCall(bo.X, "cdc.btouint64") && an.MentionsField(bo.Y, "deleteRangeReq", "idx") {
				bound = true
			}
		}
		c.Result(first && bound, "C26.c", "DOM", "run:delete:range", c.P.Pos(delCl.Pos()), "keys are collected from the first key while key <= idx", "the delete no longer collects exactly the keys <= idx starting at the first key", nil)
	}
	// forward-only cursor
	// the read cursor is the local of run whose value positions the bucket
	// cursor: a closure of run loads it (as a captured variable) into
	// uint64tob(...) → Cursor.Seek
	var cell *ssa.Alloc
	var bindingOf func(fv *ssa.FreeVar) ssa.Value
	bindingOf = func(fv *ssa.FreeVar) ssa.Value {
		cl := fv.Parent()
		par := cl.Parent()
		if par == nil {
			return nil
		}
		var out ssa.Value
		for i, f := range cl.FreeVars {
			if f != fv {
				continue
			}
			an.Instrs(par, func(in ssa.Instruction) {
				if mc, ok := in.(*ssa.MakeClosure); ok && mc.Fn == ssa.Value(cl) && i < len(mc.Bindings) {
					out = mc.Bindings[i]
				}
			})
		}
		if inner, ok := out.(*ssa.FreeVar); ok {
			return bindingOf(inner)
		}
		return out
	}
	for _, cl := range an.WithClosures(run) {
		if cl == run {
			continue
		}
		for _, seek := range an.CallsTo(cl, false, "go.etcd.io/bbolt.Cursor.Seek") {
			an.Mentions(seek.Common().Args[len(seek.Common().Args)-1], func(x ssa.Value) bool {
				u, ok := x.(*ssa.UnOp)
				if !ok || u.Op != token.MUL {
					return false
				}
				fv, ok := u.X.(*ssa.FreeVar)
				if !ok {
					return false
				}
				if al, ok := bindingOf(fv).(*ssa.Alloc); ok && al.Parent() == run {
					cell = al
				}
				return false
			})
		}
	}
	if cell == nil {
		// the positioning moved into a function of the package that takes the position
		// as a parameter: seekX(tx, nextFrom) with Cursor.Seek(uint64tob(from)) inside
		for _, cl := range an.WithClosures(run) {
			for _, ci := range an.AllCalls(cl, false) {
				g := ci.Common().StaticCallee()
				if g == nil || len(g.Blocks) == 0 || g.Pkg != run.Pkg {
					continue
				}
				for i, a := range ci.Common().Args {
					if i >= len(g.Params) {
						continue
					}
					u, ok := an.Unwrap(a).(*ssa.UnOp)
					if !ok || u.Op != token.MUL {
						continue
					}
					var al *ssa.Alloc
					switch x := u.X.(type) {
					case *ssa.FreeVar:
						al, _ = bindingOf(x).(*ssa.Alloc)
					case *ssa.Alloc:
						al = x
					}
					if al == nil || al.Parent() != run {
						continue
					}
					p := g.Params[i]
					for _, seek := range an.CallsTo(g, false, "go.etcd.io/bbolt.Cursor.Seek") {
						if an.MentionsValue(seek.Common().Args[len(seek.Common().Args)-1], p) {
							cell = al
						}
					}
				}
			}
		}
	}
	if cell == nil {
		c.Unk("C26.c", "DOM", "run:delete:cursor", c.P.Pos(run.Pos()), "the read cursor variable was not found in run")
		return
	}
	var loads []ssa.Value
	var stores []*ssa.Store
	an.Instrs(run, func(in ssa.Instruction) {
		if u, ok := in.(*ssa.UnOp); ok && u.Op == token.MUL && u.X == ssa.Value(cell) {
			loads = append(loads, u)
		}
		if st, ok := in.(*ssa.Store); ok && st.Addr == ssa.Value(cell) {
			stores = append(stores, st)
		}
	})
	isLoad := func(v ssa.Value) bool {
		for _, l := range loads {
			if v == l {
				return true
			}
		}
		return false
	}
	leq := map[an.Edge]bool{}
	nz := map[an.Edge]bool{}
	for _, b := range run.Blocks {
		if len(b.Instrs) == 0 {
			continue
		}
		ifi, ok := b.Instrs[len(b.Instrs)-1].(*ssa.If)
		if !ok {
			continue
		}
		bo, ok := ifi.Cond.(*ssa.BinOp)
		if !ok {
			continue
		}
		if bo.Op == token.LEQ && isLoad(bo.X) && an.MentionsField(bo.Y, "deleteRangeReq", "idx") {
			leq[an.Edge{From: b, To: b.Succs[0]}] = true
		}
		if bo.Op == token.NEQ && isLoad(bo.X) {
			if k, ok := an.ConstInt(bo.Y); ok && k == 0 {
				nz[an.Edge{From: b, To: b.Succs[0]}] = true
			}
		}
	}
	okFwd := len(stores) > 0
	for _, st := range stores {
		s := st
		h1 := an.Ungated(an.CutSpec{Fn: run, GateEdge: leq, Sink: func(in ssa.Instruction) bool { return in == ssa.Instruction(s) }})
		h2 := an.Ungated(an.CutSpec{Fn: run, GateEdge: nz, Sink: func(in ssa.Instruction) bool { return in == ssa.Instruction(s) }})
		if len(leq) == 0 || len(nz) == 0 || len(h1) > 0 || len(h2) > 0 {
			okFwd = false
		}
	}
	c.Result(okFwd, "C26.c", "DOM", "run:delete:cursor-only-forward", c.P.Pos(run.Pos()),
		"a delete moves the read cursor only when the cursor is set and not beyond idx (so only forwards)",
		"a delete can move the read cursor without the guard 'nextFrom != 0 && nextFrom <= idx': the cursor can move backwards and already-emitted items are emitted again", nil)
}

// isParamOrCellOf: v is parameter #idx of fn or a load of the local cell that
// holds it (parameters captured by closures are spilled to cells).
func isParamOrCellOf(v ssa.Value, fn *ssa.Function, idx int) bool {
	if isParamN(fn, idx)(v) {
		return true
	}
	u, ok := v.(*ssa.UnOp)
	if !ok || u.Op != token.MUL {
		return false
	}
	al, ok := u.X.(*ssa.Alloc)
	if !ok {
		return false
	}
	for _, r := range *al.Referrers() {
		if st, ok := r.(*ssa.Store); ok && st.Addr == ssa.Value(al) && isParamN(fn, idx)(st.Val) {
			return true
		}
	}
	return false
}
