package props

import (
	"fmt"
	"go/constant"
	"go/token"
	"go/types"
	"sort"
	"strings"

	"golang.org/x/tools/go/ssa"

	"rqverif/checker/internal/an"
	"rqverif/checker/internal/core"
)

func init() {
	register(&core.Check{
		ID:    "C27",
		Title: "CDC events describe exactly the rows changed",
		Explanation: "C27.a TABLE: in the pre-update conversion closure of DB.RegisterPreUpdateHook each SQLite operation code maps to the matching event operation and populates exactly the row ids the statement's table names (INSERT: new; UPDATE: old and new; DELETE: old); old values are extracted iff the operation is not INSERT, new values iff it is not DELETE. " +
			"C27.b DOM: in row-ids-only mode the closure returns before any Old/New extraction; with a table filter a non-matching table returns before an event is built. " +
			"C27.c TABLE: normalizeCDCValues has a case for every Go type the driver's pre-update data can yield (int64, float64, []byte, string, bool, time.Time, nil). " +
			"C27.d INIT: the value buffers handed to the driver's Old/New are allocated per call with exactly Count() elements (a reused or differently sized buffer leaks values of an earlier, wider row into this event). " +
			"C27.e CONST: the column-name lookup the commit hook depends on (CDCStreamer.CommitHook, DB.ColumnNames) runs without a deadline of its own — an event whose lookup is cut short is delivered without its row images.",
		NotCovered: []string{"equality of the captured values with the row contents (driver behaviour)", "ordering of events within a statement (SQLite's hook order)"},
		Run:        runC27,
	})
}

func constOf(c *core.Ctx, pkgPath, name string) (int64, bool) {
	pk := c.P.ByPath[pkgPath]
	if pk == nil {
		pk = c.P.Pkg(pkgPath)
	}
	if pk == nil {
		return 0, false
	}
	obj, ok := pk.Types.Scope().Lookup(name).(*types.Const)
	if !ok {
		return 0, false
	}
	v, ok := constant.Int64Val(constant.ToInt(obj.Val()))
	return v, ok
}

func runC27(c *core.Ctx) {
	c27c(c)
	reg := c.Fn("C27.a", "db", "(*DB).RegisterPreUpdateHook")
	if reg == nil {
		return
	}
	var conv *ssa.Function
	for _, cl := range reg.AnonFuncs {
		if len(cl.Params) == 1 && strings.HasSuffix(cl.Params[0].Type().String(), "SQLitePreUpdateData") && cl.Signature.Results().Len() == 2 {
			conv = cl
		}
	}
	if conv == nil {
		c.Unk("C27.a", "TABLE", "RegisterPreUpdateHook:convert", c.P.Pos(reg.Pos()), "the conversion closure (SQLitePreUpdateData → CDCEvent) was not found")
		return
	}
	c.Touch(conv)
	sq := "github.com/mattn/go-sqlite3"
	ops := map[string]int64{}
	for _, n := range []string{"SQLITE_INSERT", "SQLITE_UPDATE", "SQLITE_DELETE"} {
		v, ok := constOf(c, sq, n)
		if !ok {
			c.Unk("C27.a", "TABLE", "sqlite3."+n, "", "constant not found in the driver package")
			return
		}
		ops[n] = v
	}
	ev := map[string]int64{}
	for _, n := range []string{"CDCEvent_INSERT", "CDCEvent_UPDATE", "CDCEvent_DELETE"} {
		v, ok := constOf(c, "command/proto", n)
		if !ok {
			c.Unk("C27.a", "TABLE", "proto."+n, "", "constant not found")
			return
		}
		ev[n] = v
	}
	// case regions on d.Op == K
	type row struct {
		op     int64
		fields []string
	}
	got := map[int64]row{}
	for _, b := range conv.Blocks {
		if len(b.Instrs) == 0 {
			continue
		}
		ifi, ok := b.Instrs[len(b.Instrs)-1].(*ssa.If)
		if !ok {
			continue
		}
		bo, ok := ifi.Cond.(*ssa.BinOp)
		if !ok || bo.Op != token.EQL || !an.MentionsField(bo.X, "SQLitePreUpdateData", "Op") {
			continue
		}
		k, ok := an.ConstInt(bo.Y)
		if !ok {
			continue
		}
		top := b.Succs[0]
		r := row{op: -1}
		for _, in := range top.Instrs {
			st, ok := in.(*ssa.Store)
			if !ok {
				continue
			}
			t, f, _, ok := an.FieldOf(st.Addr)
			if !ok || t != "CDCEvent" {
				continue
			}
			switch f {
			case "Op":
				r.op, _ = an.ConstInt(st.Val)
			case "NewRowId":
				if an.MentionsField(st.Val, "SQLitePreUpdateData", "NewRowID") {
					r.fields = append(r.fields, "new")
				} else {
					r.fields = append(r.fields, "new<-?")
				}
			case "OldRowId":
				if an.MentionsField(st.Val, "SQLitePreUpdateData", "OldRowID") {
					r.fields = append(r.fields, "old")
				} else {
					r.fields = append(r.fields, "old<-?")
				}
			}
		}
		sort.Strings(r.fields)
		got[k] = r
	}
	want := map[string]struct {
		ev     string
		fields string
	}{"SQLITE_INSERT": {"CDCEvent_INSERT", "new"}, "SQLITE_UPDATE": {"CDCEvent_UPDATE", "new,old"}, "SQLITE_DELETE": {"CDCEvent_DELETE", "old"}}
	n := 0
	for name, w := range want {
		r, ok := got[ops[name]]
		okRow := ok && r.op == ev[w.ev] && strings.Join(r.fields, ",") == w.fields
		if okRow {
			n++
		}
		c.Result(okRow, "C27.a", "TABLE", "preupdate:"+name, c.P.Pos(conv.Pos()),
			fmt.Sprintf("%s → %s with row ids {%s}", name, w.ev, w.fields),
			fmt.Sprintf("%s maps to operation %d with row ids {%s}; reference %s with {%s}", name, r.op, strings.Join(r.fields, ","), w.ev, w.fields), nil)
	}
	c.Count("operation rows", n)
	c.Min("operation rows", 3)

	olds := an.CallsTo(conv, false, sq+".SQLitePreUpdateData.Old")
	news := an.CallsTo(conv, false, sq+".SQLitePreUpdateData.New")
	opNe := func(k int64) map[an.Edge]bool {
		out := map[an.Edge]bool{}
		for _, b := range conv.Blocks {
			if len(b.Instrs) == 0 {
				continue
			}
			ifi, ok := b.Instrs[len(b.Instrs)-1].(*ssa.If)
			if !ok {
				continue
			}
			bo, ok := ifi.Cond.(*ssa.BinOp)
			if !ok || !an.MentionsField(bo.X, "SQLitePreUpdateData", "Op") {
				continue
			}
			kk, ok := an.ConstInt(bo.Y)
			if !ok || kk != k {
				continue
			}
			if bo.Op == token.NEQ {
				out[an.Edge{From: b, To: b.Succs[0]}] = true
			}
			if bo.Op == token.EQL {
				out[an.Edge{From: b, To: b.Succs[1]}] = true
			}
		}
		return out
	}
	if len(olds) != 1 || len(news) != 1 {
		c.Unk("C27.a", "TABLE", "preupdate:values", c.P.Pos(conv.Pos()), "expected one Old and one New extraction")
	} else {
		// reachability after the op switch: start from the rowIDsOnly test
		gOld := opNe(ops["SQLITE_INSERT"])
		gNew := opNe(ops["SQLITE_DELETE"])
		oi, ni := olds[0].(ssa.Instruction), news[0].(ssa.Instruction)
		// restrict to the edges after the switch: use only != conditions (the switch uses ==)
		onlyNE := func(m map[an.Edge]bool) map[an.Edge]bool {
			out := map[an.Edge]bool{}
			for e := range m {
				if ifi, ok := e.From.Instrs[len(e.From.Instrs)-1].(*ssa.If); ok {
					if bo, ok := ifi.Cond.(*ssa.BinOp); ok && bo.Op == token.NEQ {
						out[e] = true
					}
				}
			}
			return out
		}
		gOld, gNew = onlyNE(gOld), onlyNE(gNew)
		h1 := an.Ungated(an.CutSpec{Fn: conv, GateEdge: gOld, Sink: func(in ssa.Instruction) bool { return in == oi }})
		h2 := an.Ungated(an.CutSpec{Fn: conv, GateEdge: gNew, Sink: func(in ssa.Instruction) bool { return in == ni }})
		c.Result(len(gOld) > 0 && len(gNew) > 0 && len(h1) == 0 && len(h2) == 0, "C27.a", "TABLE", "preupdate:old-iff-not-insert,new-iff-not-delete", c.P.Pos(conv.Pos()),
			"before-values are read unless the operation is INSERT, after-values unless it is DELETE", "the before/after extraction is not guarded by op != INSERT / op != DELETE", nil)

		// C27.b row ids only
		var rio []ssa.Value
		an.Instrs(conv, func(in ssa.Instruction) {
			if u, ok := in.(*ssa.UnOp); ok && u.Op == token.MUL {
				if fv, ok := u.X.(*ssa.FreeVar); ok && fv.Name() == "rowIDsOnly" {
					rio = append(rio, u)
				}
			}
			if fv, ok := in.(ssa.Value); ok {
				_ = fv
			}
		})
		for _, fv := range conv.FreeVars {
			if fv.Name() == "rowIDsOnly" && fv.Type().String() == "bool" {
				rio = append(rio, fv)
			}
		}
		offEdges := an.SenseEdges(conv, rio, an.IsFalse)
		h := an.Ungated(an.CutSpec{Fn: conv, GateEdge: offEdges, Sink: func(in ssa.Instruction) bool {
			return in == oi || in == ni || an.IsCall(in, sq+".SQLitePreUpdateData.Count")
		}})
		c.Result(len(offEdges) > 0 && len(h) == 0, "C27.b", "DOM", "preupdate:row-ids-only", c.P.Pos(conv.Pos()),
			"in row-ids-only mode no column value is read", "column values can be read although row-ids-only mode is on", nil)

		// C27.d buffers
		okBuf := true
		why := ""
		for _, call := range []ssa.CallInstruction{olds[0], news[0]} {
			args := call.Common().Args
			sl, ok := args[len(args)-1].(*ssa.Slice)
			var mk *ssa.MakeSlice
			if ok {
				mk, _ = sl.X.(*ssa.MakeSlice)
			} else if m, ok2 := args[len(args)-1].(*ssa.MakeSlice); ok2 {
				mk = m
			}
			if mk == nil {
				okBuf = false
				why = "the buffer passed to " + an.CalleeID(call) + " is " + an.Canon(args[len(args)-1]) + ", not a slice made in this call"
				continue
			}
			if !callResult(mk.Len, -1, sq+".SQLitePreUpdateData.Count") {
				okBuf = false
				why = "the buffer is not sized by Count()"
			}
			if sl != nil && (sl.High != nil || sl.Low != nil) {
				okBuf = false
				why = "the buffer is re-sliced"
			}
		}
		c.Result(okBuf, "C27.d", "INIT", "preupdate:fresh-buffers", c.P.Pos(conv.Pos()),
			"Old/New receive a buffer made in this call with exactly Count() elements", why+": values from an earlier (wider) row can appear in this event", nil)
	}
	// C27.b table filter
	var reLoads []ssa.Value
	for _, fv := range conv.FreeVars {
		if strings.HasSuffix(fv.Type().String(), "regexp.Regexp") {
			reLoads = append(reLoads, fv)
		}
	}
	var allocEv ssa.Instruction
	an.Instrs(conv, func(in ssa.Instruction) {
		if al, ok := in.(*ssa.Alloc); ok && namedOf(al.Type()) == "CDCEvent" {
			allocEv = in
		}
	})
	okFilter := false
	if allocEv != nil {
		// the match result m (phi of cached / computed) false edge returns before the event is built
		for _, b := range conv.Blocks {
			if len(b.Instrs) == 0 {
				continue
			}
			ifi, ok := b.Instrs[len(b.Instrs)-1].(*ssa.If)
			if !ok {
				continue
			}
			if an.MentionsCall(ifi.Cond, "regexp.Regexp.MatchString") {
				// on the "no match" edge the event allocation is unreachable
				for _, e := range []int{0, 1} {
					h := an.Ungated(an.CutSpec{Fn: conv, StartBlocks: []*ssa.BasicBlock{b.Succs[e]}, Sink: func(in ssa.Instruction) bool { return in == allocEv }})
					if len(h) == 0 {
						okFilter = true
					}
				}
			}
		}
	}
	c.Result(okFilter, "C27.b", "DOM", "preupdate:table-filter", c.P.Pos(conv.Pos()), "a table that does not match the filter yields no event", "no branch on the table filter prevents the event from being built", nil)

	// C27.c
	if fn := c.Fn("C27.c", "db", "normalizeCDCValues"); fn != nil {
		asserted := map[string]bool{}
		nilCase := false
		an.Instrs(fn, func(in ssa.Instruction) {
			if ta, ok := in.(*ssa.TypeAssert); ok {
				asserted[types.TypeString(ta.AssertedType, func(p *types.Package) string { return p.Name() })] = true
			}
			if b, ok := in.(*ssa.BinOp); ok && (an.IsNilConst(b.X) || an.IsNilConst(b.Y)) {
				nilCase = true
			}
		})
		var missing []string
		for _, t := range []string{"int64", "float64", "[]byte", "string", "bool", "time.Time"} {
			if !asserted[t] {
				missing = append(missing, t)
			}
		}
		if !nilCase {
			missing = append(missing, "nil")
		}
		c.Result(len(missing) == 0, "C27.c", "TABLE", "normalizeCDCValues:covers-driver-types", c.P.Pos(fn.Pos()), "every value type the driver can yield has a case", "normalizeCDCValues has no case for "+strings.Join(missing, ","), nil)
	}
}
