package props

import (
	"go/token"

	"golang.org/x/tools/go/ssa"

	"rqverif/checker/internal/an"
	"rqverif/checker/internal/core"
)

func init() {
	register(&core.Check{
		ID:    "C28",
		Title: "Chunked loads reassemble the original bytes",
		Explanation: "Decides only the protocol part of the statement ('chunks from a different stream or out of sequence are rejected, an aborted stream leaves no partial data behind'); the byte-for-byte round trip over all inputs and chunk sizes (gzip framing, read-loop arithmetic) is a statement about values and is not decided. " +
			"C28.a DECIDE: Dechunker.WriteChunk under all valuations of (first chunk, stream id differs, sequence number is not seqNum+1, no data, gzip ok, copy ok): a foreign or out-of-sequence chunk is rejected before any state change other than adopting the stream id of the first chunk, an accepted chunk advances seqNum exactly once before its data is written, and the result is chunk.IsLast only on full success. " +
			"C28.b TABLE: every LoadChunkRequest built by the Chunker carries Chunker.streamID, and sequence numbers are sequenceNum+1 (the counter is advanced once per data chunk). " +
			"C28.d OWN: no function of package command/chunking returns (directly or inside the chunk it returns) a slice that aliases an object it puts back into a sync.Pool. " +
			"C28.c PAIR: in CommandProcessor.Process the abort branch and the last-chunk branch, after the dechunker was closed, drop it from the manager and defer the removal of its file before any return.",
		NotCovered: []string{"byte equality of the reassembled stream (gzip framing, read loop at exact multiples of the chunk size)", "partial files of streams that fail midway without an abort"},
		Run:        runC28,
	})
}

func runC28(c *core.Ctx) {
	if fn := c.Fn("C28.a", "command/chunking", "(*Dechunker).WriteChunk"); fn != nil {
		r := &an.Resolver{}
		isSeqPlus1 := func(v ssa.Value) bool {
			v = r.Resolve(v)
			bo, ok := v.(*ssa.BinOp)
			if !ok || bo.Op != token.ADD {
				return false
			}
			k, isK := an.ConstInt(bo.Y)
			return isK && k == 1 && an.LoadedField(bo.X, "Dechunker", "seqNum")
		}
		chunkField := func(f string) func(ssa.Value) bool {
			return func(v ssa.Value) bool { return an.LoadedField(v, "LoadChunkRequest", f) }
		}
		spec := an.DecideSpec{Fn: fn, R: r,
			Vars: []an.Var{an.Bool("first"), an.Bool("streamDiff"), an.Bool("seqDiff"), an.Bool("noData"), an.Bool("gzipOK"), an.Bool("copyOK")},
			Conds: []an.CondMatcher{
				strEmptyCond("first", func(v ssa.Value) bool { return an.LoadedField(v, "Dechunker", "streamID") }),
				an.CmpCond("streamDiff", func(v ssa.Value) bool { return an.LoadedField(v, "Dechunker", "streamID") }, chunkField("StreamId")),
				an.CmpCond("seqDiff", chunkField("SequenceNum"), isSeqPlus1),
				an.NilCond("noData", chunkField("Data")),
				an.NilCond("gzipOK", func(v ssa.Value) bool { return callResult(v, 1, "compress/gzip.NewReader") }),
				an.NilCond("copyOK", func(v ssa.Value) bool { return callResult(v, 1, "io.Copy") }),
			},
			Effect: func(in ssa.Instruction) (string, bool) {
				switch t := in.(type) {
				case *ssa.Store:
					_, f, _, ok := an.FieldOf(t.Addr)
					if !ok || !an.LoadedField(t.Addr, "Dechunker", f) {
						return "", false
					}
					switch f {
					case "streamID":
						if chunkField("StreamId")(t.Val) {
							return "stream:=chunk", true
						}
						return "stream:=?", true
					case "seqNum":
						v := r.Resolve(t.Val)
						if chunkField("SequenceNum")(v) || isSeqPlus1(v) {
							return "seq:=next", true
						}
						return "seq:=?", true
					}
					return f + ":=?", true
				case *ssa.Call:
					if an.IsCall(t, "io.Copy") {
						if an.MentionsField(t.Call.Args[0], "Dechunker", "file") && an.MentionsCall(t.Call.Args[1], "compress/gzip.NewReader") {
							return "write", true
						}
						return "write?", true
					}
				}
				return "", false
			},
			Ret: func(ret *ssa.Return, resolve func(ssa.Value) ssa.Value) string {
				b := resolve(ret.Results[0])
				e := resolve(ret.Results[1])
				bs := "?"
				if k, ok := an.ConstBool(b); ok && !k {
					bs = "false"
				} else if chunkField("IsLast")(b) {
					bs = "isLast"
				}
				es := "err"
				if an.IsNilConst(e) {
					es = "nil"
				}
				return bs + "," + es
			},
			Ref: func(v an.Val) string {
				eff := ""
				add := func(s string) {
					if eff != "" {
						eff += ";"
					}
					eff += s
				}
				if v["first"] == 1 {
					add("stream:=chunk")
				} else if v["streamDiff"] == 1 {
					return eff + " => false,err"
				}
				if v["seqDiff"] == 1 {
					return eff + " => false,err"
				}
				add("seq:=next")
				if v["noData"] == 1 {
					return eff + " => isLast,nil"
				}
				if v["gzipOK"] == 0 {
					return eff + " => false,err"
				}
				add("write")
				if v["copyOK"] == 0 {
					return eff + " => false,err"
				}
				return eff + " => isLast,nil"
			},
		}
		reportDecide(c, "C28.a", "(*Dechunker).WriteChunk", c.P.Pos(fn.Pos()), an.Decide(spec, c.P.Pos))
	}

	// C28.b chunker
	nReq := 0
	if sp := c.P.SPkg("command/chunking"); sp != nil {
		for _, fn := range pkgFuncs(sp) {
			recv := ""
			if fn.Signature.Recv() != nil {
				recv = fn.Signature.Recv().Type().String()
			}
			if !contains2(recv, "Chunker") || contains2(recv, "Dechunker") {
				continue
			}
			an.Instrs(fn, func(in ssa.Instruction) {
				st, ok := in.(*ssa.Store)
				if !ok {
					return
				}
				t, f, _, isF := an.FieldOf(st.Addr)
				if !isF || t != "LoadChunkRequest" {
					return
				}
				switch f {
				case "StreamId":
					nReq++
					c.Sites++
					c.Result(an.LoadedField(st.Val, "Chunker", "streamID"), "C28.b", "TABLE", "chunker:stream-id:"+core.FuncName(fn), c.P.Pos(st.Pos()),
						"the request carries the chunker's stream id", core.FuncName(fn)+" builds a chunk request whose stream id is not the chunker's: the receiver rejects it as foreign (or mixes streams)", nil)
				case "SequenceNum":
					v := fwdField(st.Val)
					ok := false
					if bo, isB := v.(*ssa.BinOp); isB && bo.Op == token.ADD {
						k, isK := an.ConstInt(bo.Y)
						ok = isK && k == 1 && an.LoadedField(bo.X, "Chunker", "sequenceNum")
					}
					c.Result(ok, "C28.b", "TABLE", "chunker:sequence:"+core.FuncName(fn)+":"+c.P.Pos(st.Pos()), c.P.Pos(st.Pos()),
						"the request's sequence number is the chunker's counter plus one", core.FuncName(fn)+" numbers a chunk with something other than sequenceNum+1: the receiver rejects the stream as out of order", nil)
				}
			})
		}
	}
	c.Count("chunk requests built by the chunker", nReq)
	c.Min("chunk requests built by the chunker", 3)

	// C28.d chunks do not share memory with the chunker's pools
	if sp := c.P.SPkg("command/chunking"); sp != nil {
		n := checkPoolOwnership(c, "C28.d", pkgFuncs(sp), "a caller that fetches the next chunk before it is done with the previous one finds the previous chunk's data destroyed, and the reassembled stream differs from the original")
		c.Count("chunking functions that return pooled objects to a pool", n)
		c.Min("chunking functions that return pooled objects to a pool", 1)
	}

	// C28.c no partial data after abort / completion
	if fn := c.Fn("C28.c", "store", "(*CommandProcessor).Process"); fn != nil {
		closes := an.CallsTo(fn, false, "command/chunking.Dechunker.Close")
		c.Count("dechunker closes in Process", len(closes))
		c.Min("dechunker closes in Process", 2)
		for i, cl := range closes {
			okE := an.SenseEdges(fn, an.ErrResult(cl), an.IsNil)
			var starts []*ssa.BasicBlock
			for e := range okE {
				starts = append(starts, e.To)
			}
			path := an.Result(cl, 0)
			isRet := func(in ssa.Instruction) bool { _, ok := in.(*ssa.Return); return ok }
			del := func(in ssa.Instruction) bool {
				call, ok := in.(*ssa.Call)
				return ok && an.IsCall(call, "command/chunking.DechunkerManager.Delete")
			}
			rm := func(in ssa.Instruction) bool {
				d, ok := in.(*ssa.Defer)
				if !ok || !an.IsCall(d, "os.Remove", "os.RemoveAll") {
					return false
				}
				for _, p := range path {
					if d.Call.Args[0] == p {
						return true
					}
				}
				return false
			}
			h1 := an.Ungated(an.CutSpec{Fn: fn, StartBlocks: starts, GateInstr: del, Sink: isRet})
			h2 := an.Ungated(an.CutSpec{Fn: fn, StartBlocks: starts, GateInstr: rm, Sink: isRet})
			which := "abort"
			if i > 0 {
				which = "last-chunk"
			}
			c.Result(len(starts) > 0 && len(h1) == 0 && len(h2) == 0, "C28.c", "PAIR", "Process:LOAD_CHUNK:"+which+":cleanup", c.P.Pos(cl.Pos()),
				"after closing the dechunker the stream is dropped from the manager and the removal of its file is deferred before any return",
				"Process can return after closing a dechunker without dropping it from the manager or without scheduling the removal of its file: an aborted or completed stream leaves its reassembly file behind", nil)
		}
	}
}

func contains2(s, sub string) bool {
	for i := 0; i+len(sub) <= len(s); i++ {
		if s[i:i+len(sub)] == sub {
			return true
		}
	}
	return false
}
