package props

import (
	"fmt"
	"go/token"
	"go/types"
	"sort"
	"strings"

	"golang.org/x/tools/go/ssa"

	"rqverif/checker/internal/an"
	"rqverif/checker/internal/core"
)

func init() {
	register(&core.Check{
		ID:    "C29",
		Title: "Commands survive encoding, optional compression and decoding unchanged",
		Explanation: "C29.a TABLE: for every command type built in package store (a store of Command.Type = K) the message type and marshal function on the writer side pair with the unmarshal function and target type in CommandProcessor.Process's case K (EXECUTE/QUERY/EXECUTE_QUERY ↔ tryCompress/UnmarshalSubCommand on the same request type; LOAD ↔ MarshalLoadRequest/UnmarshalLoadRequest; NOOP). " +
			"C29.b DOM/SSA identity: at each builder the SubCommand bytes and the Compressed flag are results #0 and #1 of the same tryCompress call, and tryCompress returns the marshaler's results unchanged. " +
			"C29.c DECIDE: RequestMarshaler.Marshal is interpreted for all valuations of {batch size vs threshold, any statement vs size threshold, marshal ok, gzip ok, gzip size vs raw size (<,=,>), force}: the returned bytes are the gzip output exactly when the returned flag is true, and the flag is true iff compression was attempted and (gzip is strictly smaller or compression is forced). UnmarshalSubCommand decompresses iff Command.Compressed. " +
			"C29.d OWN: no function of the module (outside command/chunking, which is C28.d) returns a slice that aliases an object it puts back into a sync.Pool (a pooled gzip buffer whose bytes are handed to the log would be rewritten by the next encoding).",
		NotCovered: []string{"protobuf and gzip round-trip themselves (trusted libraries)", "equality of the decoded request with the original over all inputs (a value property)"},
		Run:        runC29,
	})
}

func runC29(c *core.Ctx) {
	// C29.d OWN: encoded bytes never share memory with a pooled encoder / buffer that was put back
	{
		var fns []*ssa.Function
		for _, f := range moduleFuncs(c) {
			if f.Pkg != nil && !strings.HasSuffix(f.Pkg.Pkg.Path(), "/command/chunking") {
				fns = append(fns, f)
			}
		}
		n := checkPoolOwnership(c, "C29.d", fns, "an encoded command handed to the log is rewritten by the next encoding: the entry no longer decodes, or decodes to a different request")
		c.Count("functions outside chunking that return pooled objects to a pool", n)
		if n == 0 {
			c.OK("C29.d", "OWN", "module:pooled-memory-escapes", "", "no function outside command/chunking uses a sync.Pool with Put today; the rule's positive control is the fixture PoolEscape (self-test)")
		}
	}
	c29marshal(c)
	c29unmarshalSub(c)
	c29table(c)
}

func c29marshal(c *core.Ctx) {
	fn := c.Fn("C29.c", "command", "(*RequestMarshaler).Marshal")
	if fn == nil {
		return
	}
	lenOf := func(pred func(ssa.Value) bool) func(ssa.Value) bool {
		return func(v ssa.Value) bool {
			call, ok := an.Unwrap(v).(*ssa.Call)
			if !ok {
				return false
			}
			bi, ok := call.Common().Value.(*ssa.Builtin)
			return ok && bi.Name() == "len" && pred(call.Common().Args[0])
		}
	}
	isStmts := func(v ssa.Value) bool { return callResult(v, -1, "command/proto.Request.GetStatements") }
	isSQL := func(v ssa.Value) bool { return an.MentionsField(v, "Statement", "Sql") }
	isRaw := func(v ssa.Value) bool { return callResult(v, 0, "google.golang.org/protobuf/proto.Marshal") }
	isGz := func(v ssa.Value) bool { return callResult(v, 0, "command.gzCompress") }
	spec := an.DecideSpec{Fn: fn,
		Vars: []an.Var{an.Sign("batchVsThr"), an.Bool("more"), an.Sign("sqlVsThr"), an.Bool("marshalOK"), an.Bool("gzOK"), an.Sign("rawVsGz"), an.Bool("force")},
		Conds: []an.CondMatcher{
			an.CmpCond("batchVsThr", lenOf(isStmts), an.IsFieldLoad("RequestMarshaler", "BatchThreshold")),
			an.CmpCond("sqlVsThr", lenOf(isSQL), an.IsFieldLoad("RequestMarshaler", "SizeThreshold")),
			func(cond ssa.Value) (func(an.Val) bool, bool) { // range loop
				b, ok := cond.(*ssa.BinOp)
				if !ok || b.Op != token.LSS {
					return nil, false
				}
				if lenOf(isStmts)(b.Y) {
					if _, isField := an.Unwrap(b.X).(*ssa.UnOp); !isField {
						return func(v an.Val) bool { return v["more"] == 1 }, true
					}
				}
				return nil, false
			},
			an.NilCond("marshalOK", func(v ssa.Value) bool { return callResult(v, 1, "google.golang.org/protobuf/proto.Marshal") }),
			an.NilCond("gzOK", func(v ssa.Value) bool { return callResult(v, 1, "command.gzCompress") }),
			an.CmpCond("rawVsGz", lenOf(isRaw), lenOf(isGz)),
			an.BoolCond("force", an.IsFieldLoad("RequestMarshaler", "ForceCompression")),
		},
		Ret: func(r *ssa.Return, resolve func(ssa.Value) ssa.Value) string {
			b := resolve(r.Results[0])
			bs := "?"
			switch {
			case an.IsNilConst(b):
				bs = "nil"
			case isRaw(b):
				bs = "raw"
			case isGz(b):
				bs = "gz"
			}
			f := resolve(r.Results[1])
			fs := "?"
			if k, ok := an.ConstBool(f); ok {
				fs = fmt.Sprint(k)
			}
			es := "nil"
			if !an.IsNilConst(resolve(r.Results[2])) {
				es = "err"
			}
			return bs + "," + fs + "," + es
		},
		Ref: func(v an.Val) string {
			want := false
			switch {
			case v["batchVsThr"] >= 0:
				want = true
			case v["more"] == 0:
				want = false
			case v["sqlVsThr"] >= 0:
				want = true
			default:
				return " => loop"
			}
			if v["marshalOK"] == 0 {
				return " => nil,false,err"
			}
			if !want {
				return " => raw,false,nil"
			}
			if v["gzOK"] == 0 {
				return " => nil,false,err"
			}
			if v["rawVsGz"] > 0 || v["force"] == 1 {
				return " => gz,true,nil"
			}
			return " => raw,false,nil"
		},
	}
	reportDecide(c, "C29.c", "(*RequestMarshaler).Marshal", c.P.Pos(fn.Pos()), an.Decide(spec, c.P.Pos))
}

func c29unmarshalSub(c *core.Ctx) {
	fn := c.Fn("C29.c", "command", "UnmarshalSubCommand")
	if fn == nil {
		return
	}
	spec := an.DecideSpec{Fn: fn,
		Vars: []an.Var{an.Bool("compressed"), an.Bool("gunzipOK"), an.Bool("pbOK")},
		Conds: []an.CondMatcher{
			an.BoolCond("compressed", an.IsFieldLoad("Command", "Compressed")),
			an.NilCond("gunzipOK", func(v ssa.Value) bool { return callResult(v, 1, "command.gzUncompress") }),
			errOf("pbOK", "google.golang.org/protobuf/proto.Unmarshal"),
		},
		Effect: func(in ssa.Instruction) (string, bool) {
			call, ok := in.(*ssa.Call)
			if !ok {
				return "", false
			}
			switch {
			case an.IsCall(call, "command.gzUncompress"):
				if an.MentionsField(call.Common().Args[0], "Command", "SubCommand") {
					return "gunzip(SubCommand)", true
				}
				return "gunzip(?)", true
			case an.IsCall(call, "google.golang.org/protobuf/proto.Unmarshal"):
				return "decode", true
			}
			return "", false
		},
		Ret: func(r *ssa.Return, resolve func(ssa.Value) ssa.Value) string {
			if an.IsNilConst(resolve(r.Results[0])) {
				return "nil"
			}
			return "err"
		},
		Ref: func(v an.Val) string {
			eff := ""
			if v["compressed"] == 1 {
				eff = "gunzip(SubCommand)"
				if v["gunzipOK"] == 0 {
					return eff + " => err"
				}
				eff += ";"
			}
			if v["pbOK"] == 0 {
				return eff + "decode => err"
			}
			return eff + "decode => nil"
		},
	}
	reportDecide(c, "C29.c", "command.UnmarshalSubCommand", c.P.Pos(fn.Pos()), an.Decide(spec, c.P.Pos))
}

func namedOf(t types.Type) string {
	if p, ok := t.(*types.Pointer); ok {
		t = p.Elem()
	}
	if n, ok := t.(*types.Named); ok {
		return n.Obj().Name()
	}
	return t.String()
}

func c29table(c *core.Ctx) {
	sp := c.P.SPkg("store")
	if sp == nil {
		return
	}
	// writer side
	type wrow struct{ fn, how, typ string }
	writers := map[int64]wrow{}
	for _, fn := range pkgFuncs(sp) {
		if fn.Parent() != nil {
			continue
		}
		var k int64 = -1
		var cmdAlloc ssa.Value
		// a helper shared by the writers: the command type is its parameter, one
		// row per call site (type constant and request type taken from the arguments)
		typeParam := -1
		an.Instrs(fn, func(in ssa.Instruction) {
			if st, ok := in.(*ssa.Store); ok {
				if t, f, base, ok := an.FieldOf(st.Addr); ok && t == "Command" && f == "Type" {
					if kk, ok := an.ConstInt(st.Val); ok {
						k = kk
						cmdAlloc = base
					} else if p, isP := an.Unwrap(st.Val).(*ssa.Parameter); isP {
						for i, q := range fn.Params {
							if q == p {
								typeParam = i
								cmdAlloc = base
								k = -2
							}
						}
					}
				}
			}
		})
		if k == -1 {
			continue
		}
		c.Touch(fn)
		name := core.FuncName(fn)
		// SubCommand and Compressed stores on the same Command
		var sub, comp ssa.Value
		an.Instrs(fn, func(in ssa.Instruction) {
			if st, ok := in.(*ssa.Store); ok {
				if t, f, base, ok := an.FieldOf(st.Addr); ok && t == "Command" && base == cmdAlloc {
					switch f {
					case "SubCommand":
						sub = st.Val
					case "Compressed":
						comp = st.Val
					}
				}
			}
		})
		row := wrow{fn: name}
		// the bytes may live in a local cell (captured by a deferred closure):
		// take the value of the latest store that dominates the load
		if ld, ok := sub.(*ssa.UnOp); ok && ld.Op == token.MUL {
			if cell, ok := ld.X.(*ssa.Alloc); ok {
				var best *ssa.Store
				for _, r := range *cell.Referrers() {
					if st, ok := r.(*ssa.Store); ok && st.Addr == ssa.Value(cell) && an.Dominates(st, ld) {
						if best == nil || an.Dominates(best, st) {
							best = st
						}
					}
				}
				if best != nil {
					sub = best.Val
				}
			}
		}
		if e, ok := sub.(*ssa.Extract); ok {
			if call, ok := e.Tuple.(*ssa.Call); ok {
				id := an.CalleeID(call)
				switch {
				case id == "store.Store.tryCompress":
					row.how = "tryCompress"
					row.typ = namedOf(an.Unwrap(call.Common().Args[1]).Type())
					// C29.b: same call supplies the flag
					ce, okc := comp.(*ssa.Extract)
					same := okc && ce.Tuple == e.Tuple && ce.Index == 1 && e.Index == 0
					c.Result(same, "C29.b", "DOM", name+":flag-and-bytes-from-one-call", c.P.Pos(call.Pos()),
						"SubCommand and Compressed are results #0/#1 of the same tryCompress call",
						"SubCommand and Compressed do not come from the same tryCompress call: the flag can disagree with the bytes and every node fails to decode the entry", nil)
				case strings.HasPrefix(id, "command.Marshal"):
					row.how = strings.TrimPrefix(id, "command.")
					row.typ = namedOf(call.Common().Args[0].Type())
					c.Result(comp == nil, "C29.b", "DOM", name+":no-compressed-flag", c.P.Pos(call.Pos()), "no Compressed flag is set for "+row.how, "Compressed is set although the bytes come from "+row.how, nil)
				}
			}
		}
		if row.how == "" {
			c.Unk("C29.a", "TABLE", name+":writer", c.P.Pos(fn.Pos()), "cannot identify how SubCommand is produced")
			continue
		}
		if typeParam >= 0 {
			// which parameter carries the request (the argument of tryCompress / Marshal*)
			reqParam := -1
			if e, ok := sub.(*ssa.Extract); ok {
				if call, ok := e.Tuple.(*ssa.Call); ok {
					for _, a := range call.Common().Args {
						for i, q := range fn.Params {
							if an.Unwrap(a) == ssa.Value(q) && i != 0 {
								reqParam = i
							}
						}
					}
				}
			}
			sites := 0
			for _, caller := range pkgFuncs(sp) {
				for _, ci := range an.AllCalls(caller, false) {
					g := ci.Common().StaticCallee()
					if g == nil || originOf(g) != originOf(fn) {
						continue
					}
					args := ci.Common().Args
					if typeParam >= len(args) {
						continue
					}
					kk, isConst := an.ConstInt(an.Unwrap(args[typeParam]))
					if !isConst {
						c.Unk("C29.a", "TABLE", core.FuncName(caller)+":writer", c.P.Pos(ci.Pos()), "the command type handed to "+name+" is not a constant")
						continue
					}
					r := row
					r.fn = core.FuncName(caller)
					if reqParam >= 0 && reqParam < len(args) {
						a := args[reqParam]
						if mi, isMI := a.(*ssa.MakeInterface); isMI {
							a = mi.X
						}
						r.typ = namedOf(a.Type())
					}
					writers[kk] = r
					sites++
				}
			}
			if sites == 0 {
				c.Unk("C29.a", "TABLE", name+":writer", c.P.Pos(fn.Pos()), "no call site of the shared command builder found")
			}
			continue
		}
		writers[k] = row
	}
	// tryCompress returns the marshaler's results
	if fn := c.Fn("C29.b", "store", "(*Store).tryCompress"); fn != nil {
		ok := false
		for _, r := range an.SuccessReturns(fn) {
			if len(r.Results) == 3 && callResult(r.Results[0], 0, "command.RequestMarshaler.Marshal") && callResult(r.Results[1], 1, "command.RequestMarshaler.Marshal") {
				ok = true
			}
		}
		c.Result(ok, "C29.b", "DOM", "tryCompress:passes-through", c.P.Pos(fn.Pos()), "tryCompress returns the marshaler's (bytes, flag) unchanged", "tryCompress does not return the marshaler's bytes and flag together", nil)
	}
	// reader side
	proc := c.Fn("C29.a", "store", "(*CommandProcessor).Process")
	if proc == nil {
		return
	}
	type rrow struct{ how, typ string }
	readers := map[int64]rrow{}
	for _, b := range proc.Blocks {
		if len(b.Instrs) == 0 {
			continue
		}
		ifi, ok := b.Instrs[len(b.Instrs)-1].(*ssa.If)
		if !ok {
			continue
		}
		bo, ok := ifi.Cond.(*ssa.BinOp)
		if !ok || bo.Op != token.EQL || !an.LoadedField(bo.X, "Command", "Type") {
			continue
		}
		k, ok := an.ConstInt(bo.Y)
		if !ok {
			continue
		}
		top := b.Succs[0]
		r := rrow{how: "none"}
		for _, rb := range proc.Blocks {
			if rb != top && !top.Dominates(rb) {
				continue
			}
			for _, in := range rb.Instrs {
				call, ok := in.(*ssa.Call)
				if !ok {
					continue
				}
				id := an.CalleeID(call)
				if strings.HasPrefix(id, "command.Unmarshal") && r.how == "none" {
					r.how = strings.TrimPrefix(id, "command.")
					r.typ = namedOf(an.Unwrap(call.Common().Args[1]).Type())
				}
			}
		}
		readers[k] = r
	}
	pair := map[string]string{"tryCompress": "UnmarshalSubCommand", "MarshalLoadRequest": "UnmarshalLoadRequest", "MarshalLoadChunkRequest": "UnmarshalLoadChunkRequest", "MarshalNoop": "none"}
	keys := make([]int64, 0, len(writers))
	for k := range writers {
		keys = append(keys, k)
	}
	sort.Slice(keys, func(i, j int) bool { return keys[i] < keys[j] })
	rows := 0
	for _, k := range keys {
		w := writers[k]
		r, ok := readers[k]
		construct := fmt.Sprintf("type=%d:%s", k, w.fn)
		if !ok {
			c.Bad("C29.a", "TABLE", construct, "", fmt.Sprintf("%s builds command type %d but CommandProcessor.Process has no case for it", w.fn, k), nil)
			continue
		}
		rows++
		okRow := pair[w.how] == r.how && (r.how == "none" || w.typ == r.typ)
		c.Result(okRow, "C29.a", "TABLE", construct, c.P.Pos(proc.Pos()),
			fmt.Sprintf("writer %s(%s) ↔ reader %s(%s)", w.how, w.typ, r.how, r.typ),
			fmt.Sprintf("writer %s(%s) does not pair with reader %s(%s)", w.how, w.typ, r.how, r.typ), nil)
	}
	c.Count("command types with a writer and a reader", rows)
	c.Min("command types with a writer and a reader", 5)
}
