package props

import (
	"go/types"
	"sort"
	"strings"

	"golang.org/x/tools/go/ssa"

	"rqverif/checker/internal/an"
	"rqverif/checker/internal/core"
)

func init() {
	register(&core.Check{
		ID:    "C30",
		Title: "Values round-trip through the HTTP API without loss",
		Explanation: "C30.a TABLE (exhaustiveness): the oneof wrapper types of command/proto.Parameter are enumerated from the generated package (types implementing isParameter_Value); every type switch over a parameter value — db.parametersToValues (binding), db.populateEmptyTypes, encoding.NewValuesFromQueryValues (JSON output) — has a case for each wrapper and for nil; db.normalizeRowParameters produces each wrapper; http.makeParameter produces each wrapper that JSON can express and has a case for every dynamic type the JSON decoder yields under UseNumber (json.Number, string, bool, nil, []any). " +
			"C30.b DOM: in http.ParseRequest dec.UseNumber() precedes every Decode/Token, and makeParameter tries Int64() before Float64() (64-bit integers stay exact). " +
			"C30.c INIT: every byte slice stored as a blob parameter by makeParameter is allocated (make / decoder output), never a possibly-nil slice variable — go-sqlite3 binds a nil []byte as NULL, so an empty byte array must stay a zero-length blob; the same on the way out (normalizeRowParameters). " +
			"C30.d OWN: no function of command/encoding or http returns a slice that aliases an object it puts back into a sync.Pool (the response text would be rewritten by the next encoding before it reaches the client).",
		NotCovered: []string{"value equality end to end (SQLite type affinity, float formatting)", "associative vs array result rendering of values"},
		Run:        runC30,
	})
}

func runC30(c *core.Ctx) {
	pp := c.P.Pkg("command/proto")
	if pp == nil {
		c.Unk("C30.a", "TABLE", "command/proto", "", "package not loaded")
		return
	}
	// wrappers = named struct types with method isParameter_Value
	var wrappers []string
	for _, n := range pp.Types.Scope().Names() {
		tn, ok := pp.Types.Scope().Lookup(n).(*types.TypeName)
		if !ok {
			continue
		}
		ms := types.NewMethodSet(types.NewPointer(tn.Type()))
		for i := 0; i < ms.Len(); i++ {
			if ms.At(i).Obj().Name() == "isParameter_Value" {
				if _, isStruct := tn.Type().Underlying().(*types.Struct); isStruct {
					wrappers = append(wrappers, tn.Name())
				}
			}
		}
	}
	sort.Strings(wrappers)
	c.Count("Parameter oneof wrapper types", len(wrappers))
	c.Min("Parameter oneof wrapper types", 5)

	// functions with a type switch over the wrappers
	switchers := []struct{ pkg, name string }{
		{"db", "parametersToValues"}, {"db", "populateEmptyTypes"}, {"command/encoding", "NewValuesFromQueryValues"},
	}
	for _, s := range switchers {
		fn := c.Fn("C30.a", s.pkg, s.name)
		if fn == nil {
			continue
		}
		asserted := map[string]bool{}
		nilCase := false
		for _, f := range an.WithClosures(fn) {
			an.Instrs(f, func(in ssa.Instruction) {
				if ta, ok := in.(*ssa.TypeAssert); ok {
					asserted[namedOf(ta.AssertedType)] = true
				}
				if b, ok := in.(*ssa.BinOp); ok && (an.IsNilConst(b.X) || an.IsNilConst(b.Y)) {
					nilCase = true
				}
			})
		}
		var missing []string
		for _, w := range wrappers {
			if !asserted[w] {
				missing = append(missing, w)
			}
		}
		c.Result(len(missing) == 0, "C30.a", "TABLE", s.name+":covers-all-wrappers", c.P.Pos(fn.Pos()),
			s.name+" has a case for each of "+strings.Join(wrappers, ","), s.name+" has no case for "+strings.Join(missing, ",")+": values of that type are rejected or lose their type", nil)
		if s.name != "NewValuesFromQueryValues" {
			c.Result(nilCase, "C30.a", "TABLE", s.name+":covers-nil", c.P.Pos(fn.Pos()), s.name+" handles the nil (NULL) value", s.name+" has no nil case: NULL parameters are rejected", nil)
		}
	}
	// producers
	producers := []struct {
		pkg, name string
		want      []string
	}{
		{"db", "normalizeRowParameters", wrappers},
		{"http", "makeParameter", wrappers},
	}
	for _, p := range producers {
		fn := c.Fn("C30.a", p.pkg, p.name)
		if fn == nil {
			continue
		}
		made := map[string]bool{}
		an.Instrs(fn, func(in ssa.Instruction) {
			if al, ok := in.(*ssa.Alloc); ok {
				made[namedOf(al.Type())] = true
			}
		})
		var missing []string
		for _, w := range p.want {
			if !made[w] {
				missing = append(missing, w)
			}
		}
		c.Result(len(missing) == 0, "C30.a", "TABLE", p.name+":produces-all-wrappers", c.P.Pos(fn.Pos()),
			p.name+" can produce each of "+strings.Join(p.want, ","), p.name+" never produces "+strings.Join(missing, ",")+": values of that kind cannot be expressed", nil)
	}
	// makeParameter's input cases
	if fn := c.Fn("C30.a", "http", "makeParameter"); fn != nil {
		asserted := map[string]bool{}
		an.Instrs(fn, func(in ssa.Instruction) {
			if ta, ok := in.(*ssa.TypeAssert); ok {
				asserted[types.TypeString(ta.AssertedType, func(p *types.Package) string { return p.Name() })] = true
			}
		})
		var missing []string
		for _, t := range []string{"json.Number", "string", "bool", "[]any", "float64", "int64"} {
			if !asserted[t] && !asserted[strings.Replace(t, "any", "interface{}", 1)] {
				missing = append(missing, t)
			}
		}
		c.Result(len(missing) == 0, "C30.a", "TABLE", "makeParameter:covers-json-types", c.P.Pos(fn.Pos()),
			"makeParameter handles every dynamic type the JSON decoder yields", "makeParameter has no case for "+strings.Join(missing, ","), nil)

		// C30.b: Int64 before Float64
		i64 := an.CallsTo(fn, false, "encoding/json.Number.Int64")
		f64 := an.CallsTo(fn, false, "encoding/json.Number.Float64")
		ok := len(i64) >= 1 && len(f64) >= 1
		if ok {
			fi := f64[0].(ssa.Instruction)
			// Float64 only on the error edge of Int64
			errE := an.SenseEdges(fn, an.ErrResult(i64[0]), an.NotNil)
			ok = len(errE) > 0 && len(an.Ungated(an.CutSpec{Fn: fn, GateEdge: errE, Sink: func(in ssa.Instruction) bool { return in == fi }})) == 0
		}
		c.Result(ok, "C30.b", "DOM", "makeParameter:int64-before-float64", c.P.Pos(fn.Pos()),
			"a JSON number is converted with Int64() first and Float64() only if that fails", "a JSON number can be converted with Float64() without Int64() having failed: integers beyond 2^53 lose precision", nil)

		// C30.c: blobs are never possibly-nil slices
		bad := ""
		blobs := 0
		an.Instrs(fn, func(in ssa.Instruction) {
			st, ok := in.(*ssa.Store)
			if !ok {
				return
			}
			t, f, _, ok := an.FieldOf(st.Addr)
			if !ok || t != "Parameter_Y" || f != "Y" {
				return
			}
			blobs++
			if mayBeNilSlice(st.Val, map[ssa.Value]bool{}) {
				bad = an.Canon(st.Val)
			}
		})
		c.Count("blob parameter constructions in makeParameter", blobs)
		c.Min("blob parameter constructions in makeParameter", 3)
		c.Result(bad == "", "C30.c", "INIT", "makeParameter:blob-never-nil", c.P.Pos(fn.Pos()),
			"every blob parameter is built from an allocated slice", "a blob parameter is built from a slice that can be nil ("+bad+"): an empty byte array would be bound as NULL instead of a zero-length blob", nil)
	}
	// C30.d OWN: the bytes of a response are the caller's — no encoder function hands
	// out a slice of a buffer it puts back into a pool
	{
		var fns []*ssa.Function
		for _, pkg := range []string{"command/encoding", "http"} {
			if sp := c.P.SPkg(pkg); sp != nil {
				fns = append(fns, pkgFuncs(sp)...)
			}
		}
		n := checkPoolOwnership(c, "C30.d", fns, "the JSON text of one response is overwritten by the encoding of another request before it is written to the client: values arrive changed, or the response is not valid JSON")
		if n == 0 {
			c.OK("C30.d", "OWN", "encoders:pooled-memory-escapes", "", "no encoder function uses a sync.Pool with Put today; the rule's positive control is the fixture PoolEscape (self-test)")
		}
	}
	// C30.c on the way out: a blob read back from SQLite stays the scanned slice (or a
	// copy that keeps a zero-length blob non-nil) — the JSON encoder writes a nil
	// []byte as null
	if fn := c.Fn("C30.c", "db", "normalizeRowParameters"); fn != nil {
		bad := ""
		blobs := 0
		an.Instrs(fn, func(in ssa.Instruction) {
			st, ok := in.(*ssa.Store)
			if !ok {
				return
			}
			t, f, _, ok := an.FieldOf(st.Addr)
			if !ok || t != "Parameter_Y" || f != "Y" {
				return
			}
			blobs++
			if mayBeNilSlice(st.Val, map[ssa.Value]bool{}) {
				bad = an.Canon(st.Val)
			}
		})
		c.Count("blob results built in normalizeRowParameters", blobs)
		c.Min("blob results built in normalizeRowParameters", 1)
		c.Result(bad == "", "C30.c", "INIT", "normalizeRowParameters:blob-never-nil", c.P.Pos(fn.Pos()),
			"a blob read from a row is handed on as the scanned slice", "a blob read from a row is rebuilt from a slice that can be nil ("+bad+"): a zero-length blob is then returned as JSON null instead of an empty value", nil)
	}
	// C30.b UseNumber
	if fn := c.Fn("C30.b", "http", "ParseRequest"); fn != nil {
		use := an.CallsTo(fn, false, "encoding/json.Decoder.UseNumber")
		ok := len(use) == 1
		if ok {
			u := use[0].(ssa.Instruction)
			hits := an.Ungated(an.CutSpec{Fn: fn, GateInstr: func(in ssa.Instruction) bool { return in == u },
				Sink: func(in ssa.Instruction) bool {
					return an.IsCall(in, "encoding/json.Decoder.Decode", "encoding/json.Decoder.Token")
				}})
			ok = len(hits) == 0
		}
		c.Result(ok, "C30.b", "DOM", "ParseRequest:UseNumber-first", c.P.Pos(fn.Pos()), "numbers are decoded as json.Number (UseNumber precedes every Decode/Token)", "the decoder is used before (or without) UseNumber: integers are decoded as float64 and lose precision", nil)
	}
}

// mayBeNilSlice: the value can be a nil slice — a nil constant, or a phi / append chain rooted at one.
func mayBeNilSlice(v ssa.Value, seen map[ssa.Value]bool) bool {
	v = an.Unwrap(v)
	if seen[v] {
		return false
	}
	seen[v] = true
	switch x := v.(type) {
	case *ssa.Const:
		return x.Value == nil
	case *ssa.Phi:
		for _, e := range x.Edges {
			if mayBeNilSlice(e, seen) {
				return true
			}
		}
	case *ssa.Call:
		if bi, ok := x.Common().Value.(*ssa.Builtin); ok && bi.Name() == "append" {
			return mayBeNilSlice(x.Common().Args[0], seen)
		}
	case *ssa.UnOp:
		// load of a local cell: any store of a possibly-nil value, or no initialising store
		if al, ok := x.X.(*ssa.Alloc); ok {
			stores := 0
			for _, r := range *al.Referrers() {
				if st, ok := r.(*ssa.Store); ok && st.Addr == ssa.Value(al) {
					stores++
					if mayBeNilSlice(st.Val, seen) {
						return true
					}
				}
			}
			return stores == 0
		}
	}
	return false
}
