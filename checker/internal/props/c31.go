package props

import (
	"fmt"
	"time"

	"golang.org/x/tools/go/ssa"

	"rqverif/checker/internal/an"
	"rqverif/checker/internal/core"
)

func init() {
	register(&core.Check{
		ID:    "C31",
		Title: "Shutdown waits for in-flight snapshot or backup only as long as needed",
		Explanation: "C31.a CONST: every call of CheckAndSet.BeginWithRetry(owner, timeout, retryInterval) in the module passes constant durations with retryInterval ≤ 1s and timeout ≥ 10·retryInterval, and Store.Close's timeout lies in [5s,15s] ('about ten seconds'). " +
			"C31.b DECIDE: BeginWithRetry's loop is try → return nil on success → return the error when it is not a CAS conflict → ErrCASConflictTimeout once past the deadline → sleep retryInterval → repeat (all 8 valuations of {begin ok, conflict, expired}). " +
			"C31.c DOM/PAIR: in Store.Close every shutdown step (raft shutdown, transport/snapshot store/database/bolt close, CDC cleanup) is reachable only on the edge where BeginWithRetry returned nil and after End has been deferred.",
		NotCovered: []string{"measured latency of Close under a real holder; fairness of the retry loop under scheduling"},
		Run:        runC31,
	})
}

func runC31(c *core.Ctx) {
	const bwr = "internal/rsync.CheckAndSet.BeginWithRetry"
	// C31.a: all call sites in the module
	sites := 0
	for _, pk := range c.P.Roots {
		sp := c.P.SSAPkg[pk.PkgPath]
		if sp == nil {
			continue
		}
		for _, fn := range pkgFuncs(sp) {
			for _, call := range an.CallsTo(fn, false, bwr) {
				sites++
				c.Sites++
				c.Touch(fn)
				args := call.Common().Args // recv, owner, timeout, retry
				construct := core.FuncName(fn) + ":BeginWithRetry"
				pos := c.P.Pos(call.Pos())
				if len(args) != 4 {
					c.Unk("C31.a", "CONST", construct, pos, "unexpected signature of BeginWithRetry")
					continue
				}
				to, ok1 := an.ConstInt(args[2])
				ri, ok2 := an.ConstInt(args[3])
				if !ok1 || !ok2 {
					c.Unk("C31.a", "CONST", construct, pos, "timeout/retryInterval are not compile-time constants: "+an.Canon(args[2])+", "+an.Canon(args[3]))
					continue
				}
				tod, rid := time.Duration(to), time.Duration(ri)
				ok := rid > 0 && rid <= time.Second && tod >= 10*rid
				msg := fmt.Sprintf("timeout=%s retryInterval=%s", tod, rid)
				c.Result(ok, "C31.a", "CONST", construct, pos, msg+" (retry ≤ 1s, timeout ≥ 10·retry)",
					msg+": the wait loop sleeps retryInterval between attempts, so a holder that releases at once still costs a full retryInterval; expected retryInterval ≤ 1s and timeout ≥ 10·retryInterval (arguments transposed?)",
					map[string]string{"timeout": tod.String(), "retryInterval": rid.String()})
				if core.FuncName(fn) == "(*store.Store).Close" {
					ok := tod >= 5*time.Second && tod <= 15*time.Second
					c.Result(ok, "C31.a", "CONST", construct+":limit", pos, "shutdown wait limit "+tod.String()+" is about ten seconds",
						"shutdown wait limit is "+tod.String()+", the statement says about ten seconds", nil)
				}
			}
		}
	}
	c.Count("BeginWithRetry call sites", sites)
	c.Min("BeginWithRetry call sites", 2)

	// C31.b
	if fn := c.Fn("C31.b", "internal/rsync", "(*CheckAndSet).BeginWithRetry"); fn != nil {
		spec := an.DecideSpec{
			Fn:   fn,
			Vars: []an.Var{an.Bool("beginFails"), an.Bool("conflict"), an.Bool("expired")},
			Conds: []an.CondMatcher{
				// err == nil where err is Begin's result: variable 1 = err is nil → invert
				func(cond ssa.Value) (func(an.Val) bool, bool) {
					ev, ok := an.NilCond("beginNil", an.IsCallTo("internal/rsync.CheckAndSet.Begin"))(cond)
					if !ok {
						return nil, false
					}
					return func(v an.Val) bool {
						w := an.Val{"beginNil": 1 - v["beginFails"]}
						return ev(w)
					}, true
				},
				an.BoolCond("conflict", an.All(an.IsCallTo("errors.Is"), an.HasCall("internal/rsync.CheckAndSet.Begin"), an.HasGlobal("ErrCASConflict"))),
				an.BoolCond("expired", an.All(an.IsCallTo("time.Time.After"), an.HasCall("time.Now"), an.HasParam("timeout"))),
			},
			Effect: func(in ssa.Instruction) (string, bool) {
				if an.IsPlainCall(in, "time.Sleep") {
					return "sleep(" + an.Canon(in.(*ssa.Call).Common().Args[0]) + ")", true
				}
				if an.IsPlainCall(in, "internal/rsync.CheckAndSet.Begin") {
					return "begin", true
				}
				return "", false
			},
			Ref: func(v an.Val) string {
				switch {
				case v["beginFails"] == 0:
					return "begin => nil"
				case v["conflict"] == 0:
					return "begin => c.Begin(owner)"
				case v["expired"] == 1:
					return "begin => internal/rsync.ErrCASConflictTimeout"
				}
				return "begin;sleep(retryInterval) => loop"
			},
		}
		res := an.Decide(spec, c.P.Pos)
		reportDecide(c, "C31.b", "(*CheckAndSet).BeginWithRetry", c.P.Pos(fn.Pos()), res)
	}

	// C31.c
	if fn := c.Fn("C31.c", "store", "(*Store).Close"); fn != nil {
		calls := an.CallsTo(fn, false, bwr)
		if len(calls) != 1 {
			c.Unk("C31.c", "DOM", "(*Store).Close:gate", c.P.Pos(fn.Pos()), fmt.Sprintf("expected exactly one BeginWithRetry in Close, found %d", len(calls)))
			return
		}
		gate := an.SenseEdges(fn, an.ErrResult(calls[0]), an.IsNil)
		steps := []string{
			"github.com/hashicorp/raft.Raft.Shutdown", "store.Store.cleanupCDC", "store.NodeTransport.Close",
			"snapshot.Store.Close", "db.SwappableDB.Close", "github.com/rqlite/raft-boltdb/v2.BoltStore.Close",
		}
		n := 0
		seen := map[string]bool{}
		an.Instrs(fn, func(in ssa.Instruction) {
			if an.IsPlainCall(in, steps...) {
				n++
				seen[an.CalleeID(in.(ssa.CallInstruction))] = true
			}
		})
		c.Count("shutdown steps in Close", len(seen))
		c.Min("shutdown steps in Close", 5)
		hits := an.Ungated(an.CutSpec{Fn: fn, GateEdge: gate, Sink: func(in ssa.Instruction) bool { return an.IsPlainCall(in, steps...) }})
		if len(hits) == 0 {
			c.OK("C31.c", "DOM", "(*Store).Close:steps-after-gate", c.P.Pos(calls[0].Pos()), fmt.Sprintf("%d shutdown steps all dominated by the nil edge of BeginWithRetry", n))
		}
		for _, h := range hits {
			c.Bad("C31.c", "DOM", "(*Store).Close:step:"+an.CalleeID(h.Instr.(ssa.CallInstruction)), c.P.Pos(h.Instr.Pos()),
				"shutdown step reachable without holding the snapshot gate", an.PathString(fn, h.Path, c.P.Pos))
		}
		// End deferred before any step
		hits = an.Ungated(an.CutSpec{Fn: fn,
			GateInstr: func(in ssa.Instruction) bool {
				_, isDefer := in.(*ssa.Defer)
				return isDefer && an.IsCall(in, "internal/rsync.CheckAndSet.End")
			},
			Sink: func(in ssa.Instruction) bool { return an.IsPlainCall(in, steps...) }})
		if len(hits) == 0 {
			c.OK("C31.c", "PAIR", "(*Store).Close:defer-End", c.P.Pos(calls[0].Pos()), "gate release deferred before the first shutdown step")
		}
		for _, h := range hits {
			c.Bad("C31.c", "PAIR", "(*Store).Close:defer-End:"+an.CalleeID(h.Instr.(ssa.CallInstruction)), c.P.Pos(h.Instr.Pos()),
				"shutdown step reachable before the gate release is deferred (an error return would leave the gate held)", an.PathString(fn, h.Path, c.P.Pos))
		}
	}
}
