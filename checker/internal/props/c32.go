package props

import (
	"fmt"
	"go/token"
	"sort"
	"strings"

	"golang.org/x/tools/go/ssa"

	"rqverif/checker/internal/an"
	"rqverif/checker/internal/core"
)

func init() {
	register(&core.Check{
		ID:    "C32",
		Title: "Membership changes keep IDs and addresses unique",
		Explanation: "C32.a WHO: the raft configuration is mutated in the module only through AddVoter/AddNonvoter (Store.Join), RemoveServer (Store.remove), BootstrapCluster (Bootstrap, Notify) and the recovery path (RecoverNode); inside hashicorp/raft those entry points reach checkConfiguration (nextConfiguration, BootstrapCluster, RecoverCluster — re-derived from the module source), which rejects duplicate IDs and addresses. " +
			"C32.b DECIDE: Store.Join's loop over the current configuration is interpreted for all valuations of {more entries, ID equal, address equal, removal ok}: an entry equal in both ID and address makes the join a no-op, an entry equal in exactly one is removed before the add, scanning continues over all entries, and the add is AddVoter exactly when the request's Voter flag is set, AddNonvoter otherwise. " +
			"C32.c DECIDE: the failed-heartbeat observer removes a node iff (read replica ∧ ReapReadOnlyTimeout>0 ∧ silence>ReapReadOnlyTimeout) ∨ (voter ∧ ReapTimeout>0 ∧ silence>ReapTimeout), and only if the node is present in the configuration. " +
			"C32.d DOM: RecoverNode validates the supplied configuration (checkRaftConfiguration rejects duplicate IDs/addresses and voter-less sets) before anything else. " +
			"C32.e CONST: in cmd/rqlited the store's ReapTimeout and ReapReadOnlyTimeout are assigned from their own configuration settings and from nothing else (an unset timeout means that kind of node is never reaped).",
		NotCovered: []string{"histories on live clusters", "that the entry removed for an address-only match is the stale one (the join then fails on raft's duplicate-address check; uniqueness still holds)"},
		Run:        runC32,
	})
}

func runC32(c *core.Ctx) {
	c32e(c)
	const rp = "github.com/hashicorp/raft"
	// C32.a
	muts := map[string][]string{}
	for _, fn := range moduleFuncs(c) {
		an.Instrs(fn, func(in ssa.Instruction) {
			ci, ok := in.(ssa.CallInstruction)
			if !ok {
				return
			}
			id := an.CalleeID(ci)
			switch id {
			case rp + ".Raft.AddVoter", rp + ".Raft.AddNonvoter", rp + ".Raft.RemoveServer", rp + ".Raft.BootstrapCluster", rp + ".Raft.DemoteVoter", rp + ".RecoverCluster", rp + ".BootstrapCluster", rp + ".Raft.AddPeer", rp + ".Raft.RemovePeer":
				for _, n := range accountable(c, fn, func(n string) bool {
					switch n {
					case "(*store.Store).Join", "(*store.Store).remove", "(*store.Store).Bootstrap", "(*store.Store).Notify":
						return true
					}
					return false
				}) {
					muts[n] = append(muts[n], strings.TrimPrefix(strings.TrimPrefix(id, rp+".Raft."), rp+"."))
				}
			}
		})
	}
	allowed := map[string]string{
		"(*store.Store).Join": "AddNonvoter,AddVoter", "(*store.Store).remove": "RemoveServer",
		"(*store.Store).Bootstrap": "BootstrapCluster", "(*store.Store).Notify": "BootstrapCluster",
	}
	names := make([]string, 0, len(muts))
	for n := range muts {
		names = append(names, n)
	}
	sort.Strings(names)
	c.Count("functions mutating the raft configuration", len(names))
	c.Min("functions mutating the raft configuration", 4)
	for _, n := range names {
		ms := muts[n]
		sort.Strings(ms)
		got := strings.Join(uniq(ms), ",")
		c.Result(allowed[n] == got, "C32.a", "WHO", "raft-config-mutation:"+n, "", n+" uses "+got, n+" mutates the raft configuration through "+got+" (reviewed: "+allowed[n]+")", nil)
	}
	// raft side
	for _, pair := range [][2]string{{"nextConfiguration", "checkConfiguration"}, {"BootstrapCluster", "checkConfiguration"}, {"(*Raft).liveBootstrap", "BootstrapCluster"}, {"RecoverCluster", "checkConfiguration"}, {"(*Raft).appendConfigurationEntry", "nextConfiguration"}} {
		f := c.P.Func(rp, pair[0])
		ok := false
		if f != nil {
			c.Touch(f)
			for _, g := range an.WithClosures(f) {
				if len(an.CallsTo(g, false, rp+"."+pair[1])) > 0 {
					ok = true
				}
			}
		}
		c.Result(ok, "C32.a", "TABLE", "raft:"+pair[0]+"→"+pair[1], "", "hashicorp/raft "+pair[0]+" calls "+pair[1], "hashicorp/raft "+pair[0]+" no longer calls "+pair[1]+" (DESIGN.md A.3 is out of date: uniqueness may not be enforced there)", nil)
	}
	if f := c.P.Func(rp, "checkConfiguration"); f != nil {
		c.Touch(f)
		dupID, dupAddr := false, false
		an.Instrs(f, func(in ssa.Instruction) {
			if call, ok := in.(*ssa.Call); ok && an.IsCall(call, "fmt.Errorf") {
				if s, ok := an.ConstString(call.Common().Args[0]); ok {
					if strings.Contains(s, "duplicate ID") {
						dupID = true
					}
					if strings.Contains(s, "duplicate address") {
						dupAddr = true
					}
				}
			}
		})
		c.Result(dupID && dupAddr, "C32.a", "TABLE", "raft:checkConfiguration:rejects-duplicates", "", "raft.checkConfiguration rejects duplicate IDs and duplicate addresses", "raft.checkConfiguration no longer reports duplicate IDs/addresses", nil)
	}

	c32join(c)
	c32reap(c)

	// C32.d
	if fn := c.Fn("C32.d", "store", "RecoverNode"); fn != nil {
		checks := an.CallsTo(fn, false, "store.checkRaftConfiguration")
		ok := len(checks) == 1
		if ok {
			// the configuration checked is RecoverNode's raft.Configuration parameter (wherever it sits in the list)
			p, isP := an.Unwrap(checks[0].Common().Args[0]).(*ssa.Parameter)
			ok = isP && p.Parent() == fn && strings.HasSuffix(p.Type().String(), "raft.Configuration")
		}
		if ok {
			gate := an.SenseEdges(fn, an.ErrResult(checks[0]), an.IsNil)
			h := an.Ungated(an.CutSpec{Fn: fn, GateEdge: gate, Sink: func(in ssa.Instruction) bool {
				ci, isC := in.(ssa.CallInstruction)
				if !isC || in == checks[0].(ssa.Instruction) {
					return false
				}
				id := an.CalleeID(ci)
				return strings.HasPrefix(id, rp+".") || strings.HasPrefix(id, "snapshot.") || strings.HasPrefix(id, "db.")
			}})
			ok = len(gate) > 0 && len(h) == 0
		}
		c.Result(ok, "C32.d", "DOM", "RecoverNode:config-validated-first", c.P.Pos(fn.Pos()), "the peers configuration is validated before any store is touched", "RecoverNode uses the snapshot store, log or database before validating the peers configuration", nil)
	}
	if fn := c.Fn("C32.d", "store", "checkRaftConfiguration"); fn != nil {
		msgs := map[string]bool{}
		an.Instrs(fn, func(in ssa.Instruction) {
			if call, ok := in.(*ssa.Call); ok && an.IsCall(call, "fmt.Errorf") {
				if s, ok := an.ConstString(call.Common().Args[0]); ok {
					msgs[s] = true
				}
			}
		})
		ok := false
		id, addr, voters := false, false, false
		for m := range msgs {
			if strings.Contains(m, "duplicate ID") {
				id = true
			}
			if strings.Contains(m, "duplicate address") {
				addr = true
			}
			if strings.Contains(m, "at least one voter") {
				voters = true
			}
		}
		ok = id && addr && voters
		c.Result(ok, "C32.d", "DOM", "checkRaftConfiguration:rejects", c.P.Pos(fn.Pos()), "duplicate IDs, duplicate addresses and voter-less configurations are rejected", "checkRaftConfiguration no longer rejects duplicate IDs/addresses/voter-less sets", nil)
	}
}

func c32join(c *core.Ctx) {
	fn := c.Fn("C32.b", "store", "(*Store).Join")
	if fn == nil {
		return
	}
	R := &an.Resolver{}
	one := func(n string) an.Var { return an.Var{Name: n, Values: []int{1}} }
	isSrvField := func(field string) func(ssa.Value) bool {
		return func(v ssa.Value) bool { return an.MentionsField(v, "Server", field) }
	}
	fromReq := func(field string) func(ssa.Value) bool {
		return func(v ssa.Value) bool { return an.MentionsField(v, "JoinRequest", field) }
	}
	spec := an.DecideSpec{Fn: fn, R: R,
		Vars: []an.Var{one("open"), one("leader"), one("resolvable"), one("configOK"), an.Bool("more"), an.Bool("idEq"), an.Bool("addrEq"), an.Bool("removeOK"), an.Bool("voter"), {Name: "add", Values: []int{0, 1, 3}}},
		Conds: []an.CondMatcher{
			boolOf("open", -1, "internal/rsync.AtomicBool.Is"),
			stateLeaderCond(R),
			an.NilCond("resolvable", func(v ssa.Value) bool { return callResult(v, 1, "store.resolvableAddress") }),
			an.NilCond("configOK", futureErrOf("github.com/hashicorp/raft.Raft.GetConfiguration")),
			func(cond ssa.Value) (func(an.Val) bool, bool) { // range loop
				b, ok := cond.(*ssa.BinOp)
				if !ok || b.Op != token.LSS {
					return nil, false
				}
				if call, ok := b.Y.(*ssa.Call); ok {
					if bi, ok := call.Common().Value.(*ssa.Builtin); ok && bi.Name() == "len" {
						return func(v an.Val) bool { return v["more"] == 1 }, true
					}
				}
				return nil, false
			},
			func(cond ssa.Value) (func(an.Val) bool, bool) {
				ev, ok := an.CmpCond("_", isSrvField("ID"), fromReq("Id"))(cond)
				if !ok {
					return nil, false
				}
				return func(v an.Val) bool { return ev(an.Val{"_": 1 - v["idEq"]}) }, true
			},
			func(cond ssa.Value) (func(an.Val) bool, bool) {
				ev, ok := an.CmpCond("_", isSrvField("Address"), fromReq("Address"))(cond)
				if !ok {
					return nil, false
				}
				return func(v an.Val) bool { return ev(an.Val{"_": 1 - v["addrEq"]}) }, true
			},
			errOf("removeOK", "store.Store.remove"),
			an.BoolCond("voter", func(v ssa.Value) bool { return an.LoadedField(v, "JoinRequest", "Voter") }),
			func(cond ssa.Value) (func(an.Val) bool, bool) {
				ev, ok := an.NilCond("_", futureErrOf("github.com/hashicorp/raft.Raft.AddVoter", "github.com/hashicorp/raft.Raft.AddNonvoter"))(cond)
				if !ok {
					return nil, false
				}
				return func(v an.Val) bool {
					isNil := 0
					if v["add"] == 0 {
						isNil = 1
					}
					return ev(an.Val{"_": isNil})
				}, true
			},
			func(cond ssa.Value) (func(an.Val) bool, bool) {
				b, ok := cond.(*ssa.BinOp)
				if !ok || (b.Op != token.EQL && b.Op != token.NEQ) {
					return nil, false
				}
				isAddErr := futureErrOf("github.com/hashicorp/raft.Raft.AddVoter", "github.com/hashicorp/raft.Raft.AddNonvoter")
				if !(isAddErr(b.X) && an.HasGlobal("ErrNotLeader")(b.Y)) && !(isAddErr(b.Y) && an.HasGlobal("ErrNotLeader")(b.X)) {
					return nil, false
				}
				eq := b.Op == token.EQL
				return func(v an.Val) bool { return (v["add"] == 1) == eq }, true
			},
		},
		Effect: func(in ssa.Instruction) (string, bool) {
			call, ok := in.(*ssa.Call)
			if !ok {
				return "", false
			}
			switch {
			case an.IsCall(call, "store.Store.remove"):
				if fromReq("Id")(call.Common().Args[1]) {
					return "remove(joiner-id)", true
				}
				return "remove(" + an.Canon(call.Common().Args[1]) + ")", true
			case an.IsCall(call, "github.com/hashicorp/raft.Raft.AddVoter"):
				return "AddVoter", true
			case an.IsCall(call, "github.com/hashicorp/raft.Raft.AddNonvoter"):
				return "AddNonvoter", true
			}
			return "", false
		},
		Ret: lastErr,
		Feasible: func(v an.Val) bool {
			return true
		},
		Ref: func(v an.Val) string {
			add := "AddNonvoter"
			if v["voter"] == 1 {
				add = "AddVoter"
			}
			addOutcome := func(prefix string) string {
				switch v["add"] {
				case 1:
					return prefix + add + " => ErrNotLeader"
				case 3:
					return prefix + add + " => err(Error)"
				}
				return prefix + add + " => nil"
			}
			if v["more"] == 0 {
				return addOutcome("")
			}
			if v["idEq"] == 1 && v["addrEq"] == 1 {
				return " => nil"
			}
			if v["idEq"] == 1 || v["addrEq"] == 1 {
				if v["removeOK"] == 0 {
					return "remove(joiner-id) => err(remove)"
				}
				return "remove(joiner-id) => loop"
			}
			return " => loop"
		},
	}
	// the configuration future's Error() and the add future's Error() are both
	// raft.Future.Error: the first is fixed to success through the variable
	// "configErr" (absent ⇒ 0 ⇒ nil), the second through "add"
	res := an.Decide(spec, c.P.Pos)
	reportDecide(c, "C32.b", "(*Store).Join", c.P.Pos(fn.Pos()), res)
	_ = fmt.Sprint
}

// futureErrOf matches the result of <future>.Error() where the future was
// produced by a call to one of producers.
func futureErrOf(producers ...string) func(ssa.Value) bool {
	return func(v ssa.Value) bool {
		call, ok := an.Unwrap(v).(*ssa.Call)
		if !ok || !call.Common().IsInvoke() || call.Common().Method.Name() != "Error" {
			return false
		}
		return an.Mentions(call.Common().Value, func(x ssa.Value) bool {
			c2, ok := x.(*ssa.Call)
			return ok && an.IsCall(c2, producers...)
		})
	}
}

// rpFuture lists the callee ids under which a raft future's method may resolve.
func rpFuture(m string) []string {
	const rp = "github.com/hashicorp/raft"
	return []string{rp + ".Future." + m, rp + ".IndexFuture." + m, rp + ".ConfigurationFuture." + m, rp + ".ApplyFuture." + m}
}

func c32reap(c *core.Ctx) {
	obs := c.Fn("C32.c", "store", "(*Store).observe")
	if obs == nil {
		return
	}
	var fn *ssa.Function
	for _, cl := range obs.AnonFuncs {
		if len(an.CallsTo(cl, false, "store.Store.remove")) > 0 {
			fn = cl
		}
	}
	// the reap decision in a private single-caller helper of the closure: the
	// helper's parameters stand for the arguments of its only call
	var host *ssa.Function
	var via ssa.Instruction
	bind := map[ssa.Value]ssa.Value{}
	if fn == nil {
		for _, cl := range obs.AnonFuncs {
			for _, ci := range an.AllCalls(cl, false) {
				g := ci.Common().StaticCallee()
				if g == nil || an.StepPolicy == nil || !an.StepPolicy(g) || len(an.CallsTo(g, false, "store.Store.remove")) == 0 {
					continue
				}
				fn, host, via = cl, g, ci.(ssa.Instruction)
				args := ci.Common().Args
				for i, p := range g.Params {
					if i < len(args) {
						bind[p] = args[i]
					}
				}
			}
		}
	}
	if fn == nil {
		c.Unk("C32.c", "DECIDE", "observe:reap", c.P.Pos(obs.Pos()), "the observer closure that reaps nodes was not found")
		return
	}
	c.Touch(fn)
	rz := func(v ssa.Value) ssa.Value {
		if a, ok := bind[v]; ok {
			return a
		}
		return v
	}
	// gates for remove: cut checks under assumptions
	var rm ssa.Instruction
	if host != nil {
		c.Touch(host)
		rm = an.CallsTo(host, false, "store.Store.remove")[0].(ssa.Instruction)
	} else {
		rm = an.CallsTo(fn, false, "store.Store.remove")[0].(ssa.Instruction)
		via = rm
	}
	isRR := func(v ssa.Value) bool { return callResult(rz(v), 0, "store.Servers.IsReadReplica") }
	found := func(v ssa.Value) bool { return callResult(rz(v), 1, "store.Servers.IsReadReplica") }
	tmo := func(field string) func(ssa.Value) bool { return an.IsFieldLoad("Store", field) }
	durOf := func(v ssa.Value) bool { return callResult(rz(v), -1, "time.Since") }
	type scen struct {
		name                               string
		rr, roSet, roExceeded, vSet, vExcd bool
		want                               bool
	}
	var scens []scen
	for _, rr := range []bool{false, true} {
		for _, a := range []bool{false, true} {
			for _, b := range []bool{false, true} {
				for _, cc := range []bool{false, true} {
					for _, d := range []bool{false, true} {
						want := (rr && a && b) || (!rr && cc && d)
						scens = append(scens, scen{fmt.Sprintf("rr=%v roSet=%v roExceeded=%v vSet=%v vExceeded=%v", rr, a, b, cc, d), rr, a, b, cc, d, want})
					}
				}
			}
		}
	}
	bad := ""
	for _, s := range scens {
		assume := func(cond ssa.Value) (bool, bool) {
			if isRR(cond) {
				return s.rr, true
			}
			if found(cond) {
				return true, true
			}
			if b, ok := cond.(*ssa.BinOp); ok && b.Op == token.GTR {
				switch {
				case tmo("ReapReadOnlyTimeout")(b.X):
					if k, ok := an.ConstInt(b.Y); ok && k == 0 {
						return s.roSet, true
					}
				case tmo("ReapTimeout")(b.X):
					if k, ok := an.ConstInt(b.Y); ok && k == 0 {
						return s.vSet, true
					}
				case durOf(b.X) && tmo("ReapReadOnlyTimeout")(b.Y):
					return s.roExceeded, true
				case durOf(b.X) && tmo("ReapTimeout")(b.Y):
					return s.vExcd, true
				}
			}
			return false, false
		}
		// reachable under the scenario?
		var start ssa.Instruction
		for _, call := range an.CallsTo(fn, false, "store.Servers.IsReadReplica") {
			start = call.(ssa.Instruction)
		}
		if start == nil {
			c.Unk("C32.c", "DECIDE", "observe:reap", c.P.Pos(fn.Pos()), "IsReadReplica lookup not found")
			return
		}
		// "may reach" under assumptions: remove is a sink
		hits := an.UngatedUnder(an.CutSpec{Fn: fn, Start: start, Sink: func(in ssa.Instruction) bool { return in == via }}, assume)
		reach := len(hits) > 0
		if reach && host != nil {
			reach = len(an.UngatedUnder(an.CutSpec{Fn: host, Sink: func(in ssa.Instruction) bool { return in == rm }}, assume)) > 0
		}
		if reach != s.want {
			bad = s.name
		}
	}
	c.Count("reap scenarios", len(scens))
	c.Min("reap scenarios", 32)
	c.Result(bad == "", "C32.c", "DECIDE", "observe:reap-condition", c.P.Pos(rm.Pos()),
		"a silent node is removed iff its own timeout (read-replica or voter) is set and exceeded — 32 scenarios",
		"the reap condition disagrees with the reference in scenario "+bad, nil)
	// only nodes present in the configuration
	var fv []ssa.Value
	for _, call := range an.CallsTo(fn, false, "store.Servers.IsReadReplica") {
		fv = append(fv, an.Result(call, 1)...)
	}
	gate := an.SenseEdges(fn, fv, an.IsTrue)
	var st ssa.Instruction
	for _, call := range an.CallsTo(fn, false, "store.Servers.IsReadReplica") {
		st = call.(ssa.Instruction)
	}
	if host != nil {
		// the helper may test the "found" result it was handed
		var hv []ssa.Value
		for p, a := range bind {
			if callResult(a, 1, "store.Servers.IsReadReplica") {
				hv = append(hv, p)
			}
		}
		if hg := an.SenseEdges(host, hv, an.IsTrue); len(hg) > 0 && len(gate) == 0 {
			hh := an.Ungated(an.CutSpec{Fn: host, GateEdge: hg, Sink: func(in ssa.Instruction) bool { return in == rm }})
			c.Result(len(hh) == 0, "C32.c", "DOM", "observe:reap-only-known-nodes", c.P.Pos(rm.Pos()), "only nodes found in the configuration are reaped", "a node not present in the configuration can be 'removed'", nil)
			return
		}
	}
	h := an.Ungated(an.CutSpec{Fn: fn, Start: st, GateEdge: gate, Sink: func(in ssa.Instruction) bool { return in == via }})
	c.Result(len(gate) > 0 && len(h) == 0, "C32.c", "DOM", "observe:reap-only-known-nodes", c.P.Pos(rm.Pos()), "only nodes found in the configuration are reaped", "a node not present in the configuration can be 'removed'", nil)
}
