package props

import (
	"go/token"
	"strings"

	"golang.org/x/tools/go/ssa"

	"rqverif/checker/internal/an"
	"rqverif/checker/internal/core"
)

func init() {
	register(&core.Check{
		ID:    "C33",
		Title: "Manual recovery keeps all applied data",
		Explanation: "C33.a ORD: in store.RecoverNode the events occur, on every path to success, in the order: configuration validated → newest snapshot restored (when one exists) → every log index from snapshotIndex+1 through LastIndex() replayed, LogCommand entries through CommandProcessor.Process (and only those) → checkpoint → snapshot created with the peers-file configuration at the last replayed index/term → Persist → sink.Close() returned nil → only then DeleteRange of the log. " +
			"C33.b DOM: in Store.Open the fast-restart marker is removed before RecoverNode, the peers file is renamed only after RecoverNode returned nil, and on the path through a successful recovery raft is started with NoSnapshotRestoreOnStart == false and the database files are rebuilt (the recovery snapshot holds everything that was in the log, which has just been compacted). " +
			"C33.c DOM/PAIR: all files of the temporary recovery database (it runs in WAL mode) are removed before the snapshot is restored into it and again when the recovery ends. " +
			"C33.d CONST: the temporary database is opened with the node's own DBConfig.FKConstraints (passed from Store.Open), so that replayed statements behave as they did when first applied.",
		NotCovered: []string{"contents of the recovered database (values)", "raft's behaviour with the new configuration"},
		Run:        runC33,
	})
}

func runC33(c *core.Ctx) {
	c33TempDB(c)
	fn := c.Fn("C33.a", "store", "RecoverNode")
	if fn != nil {
		find := func(ids ...string) ssa.CallInstruction {
			for _, f := range an.WithClosures(fn) {
				if f != fn {
					continue
				}
				for _, call := range an.CallsTo(f, false, ids...) {
					if _, isDefer := call.(*ssa.Defer); !isDefer {
						return call
					}
				}
			}
			return nil
		}
		check := find("store.checkRaftConfiguration")
		list := find("github.com/hashicorp/raft.SnapshotStore.List")
		open := find("db.OpenSwappable")
		getlog := find("github.com/hashicorp/raft.LogStore.GetLog")
		proc := find("store.CommandProcessor.Process")
		cp := find("db.SwappableDB.Checkpoint")
		create := find("github.com/hashicorp/raft.SnapshotStore.Create")
		persist := find("snapshot.StateReader.Persist")
		closeS := find("github.com/hashicorp/raft.SnapshotSink.Close")
		if closeS == nil && create != nil {
			// SnapshotSink embeds io.WriteCloser: the call resolves to io.Closer.Close on the sink
			for _, call := range an.CallsTo(fn, false, "io.Closer.Close") {
				if _, isDefer := call.(*ssa.Defer); isDefer {
					continue
				}
				if e, ok := call.Common().Value.(*ssa.Extract); ok && e.Tuple == create.Value() {
					closeS = call
				}
			}
		}
		del := find("github.com/hashicorp/raft.LogStore.DeleteRange")
		steps := []struct {
			name string
			c    ssa.CallInstruction
		}{{"validate-config", check}, {"list-snapshots", list}, {"open-db", open}, {"checkpoint", cp}, {"create-snapshot", create}, {"persist", persist}, {"finalize", closeS}, {"compact-log", del}}
		if getlog != nil && cp != nil {
			// a log read failure ends the recovery (the replay loop may legitimately run zero times)
			bad := an.SenseEdges(fn, an.ErrResult(getlog), an.NotNil)
			var st []*ssa.BasicBlock
			for e := range bad {
				st = append(st, e.To)
			}
			hh := an.Ungated(an.CutSpec{Fn: fn, StartBlocks: st, Sink: func(in ssa.Instruction) bool {
				return in == cp.(ssa.Instruction) || (del != nil && in == del.(ssa.Instruction))
			}})
			c.Result(len(st) > 0 && len(hh) == 0, "C33.a", "ORD", "RecoverNode:read-log-failure-aborts", c.P.Pos(getlog.Pos()),
				"a failure to read a log entry aborts the recovery before checkpoint/compaction", "after a failed log read the recovery can still checkpoint, snapshot or compact the log", nil)
		}
		missing := ""
		for _, s := range steps {
			if s.c == nil {
				missing += s.name + " "
			}
		}
		if missing != "" || proc == nil {
			c.Unk("C33.a", "ORD", "RecoverNode:steps", c.P.Pos(fn.Pos()), "recovery steps not found: "+missing)
		} else {
			// each step is unreachable without the nil-error edge of the previous one
			for i := 1; i < len(steps); i++ {
				prev, cur := steps[i-1], steps[i]
				gate := an.SenseEdges(fn, an.ErrResult(prev.c), an.IsNil)
				ci := cur.c.(ssa.Instruction)
				h := an.Ungated(an.CutSpec{Fn: fn, GateEdge: gate, Sink: func(in ssa.Instruction) bool { return in == ci }})
				c.Result(len(gate) > 0 && len(h) == 0, "C33.a", "ORD", "RecoverNode:"+prev.name+"→"+cur.name, c.P.Pos(cur.c.Pos()),
					cur.name+" only after "+prev.name+" succeeded", cur.name+" is reachable without "+prev.name+" having succeeded"+map[bool]string{true: ": the log would be deleted before the recovery snapshot that replaces it is durable", false: ""}[cur.name == "compact-log"], nil)
			}
			c.Count("ordered recovery steps", len(steps))
			c.Min("ordered recovery steps", 8)
			// replay loop bounds and filter
			var lastIdx ssa.Value
			if li := find("github.com/hashicorp/raft.LogStore.LastIndex"); li != nil {
				if v := an.Result(li, 0); len(v) > 0 {
					lastIdx = v[0]
				}
			}
			okLoop := false
			var loopPhi *ssa.Phi
			for _, b := range fn.Blocks {
				if len(b.Instrs) == 0 {
					continue
				}
				ifi, ok := b.Instrs[len(b.Instrs)-1].(*ssa.If)
				if !ok {
					continue
				}
				bo, ok := ifi.Cond.(*ssa.BinOp)
				if !ok || bo.Op != token.LEQ || bo.Y != lastIdx {
					continue
				}
				if p, ok := bo.X.(*ssa.Phi); ok && b.Succs[0].Dominates(getlog.Block()) {
					loopPhi = p
					okLoop = true
				}
			}
			okInit, okStep := false, false
			if loopPhi != nil {
				for _, e := range loopPhi.Edges {
					if bo, ok := e.(*ssa.BinOp); ok && bo.Op == token.ADD {
						if k, ok := an.ConstInt(bo.Y); ok && k == 1 {
							if bo.X == ssa.Value(loopPhi) {
								okStep = true
							} else if isRestoredSnapshotIndex(fn, bo.X, 0) {
								okInit = true
							}
						}
					}
				}
				// GetLog reads the loop index
				okLoop = okLoop && an.MentionsValue(getlog.Common().Args[len(getlog.Common().Args)-2], loopPhi)
			}
			c.Result(okLoop && okInit && okStep, "C33.a", "ORD", "RecoverNode:replay-range", c.P.Pos(getlog.Pos()),
				"the replay loop reads every index from snapshotIndex+1 through LastIndex(), step 1", "the replay loop does not cover snapshotIndex+1 … LastIndex() with step 1: applied entries would be skipped", nil)
			// LogCommand filter
			var isCmd []ssa.Value
			cmdEdges := map[an.Edge]bool{}
			for _, b := range fn.Blocks {
				if len(b.Instrs) == 0 {
					continue
				}
				ifi, ok := b.Instrs[len(b.Instrs)-1].(*ssa.If)
				if !ok {
					continue
				}
				bo, ok := ifi.Cond.(*ssa.BinOp)
				if !ok || bo.Op != token.EQL || !an.MentionsField(bo.X, "Log", "Type") {
					continue
				}
				if k, ok := an.ConstInt(bo.Y); ok && k == 0 { // raft.LogCommand
					cmdEdges[an.Edge{From: b, To: b.Succs[0]}] = true
					isCmd = append(isCmd, bo)
				}
			}
			pi := proc.(ssa.Instruction)
			h := an.Ungated(an.CutSpec{Fn: fn, GateEdge: cmdEdges, Sink: func(in ssa.Instruction) bool { return in == pi }})
			// and on the command edge Process is always reached before the next GetLog
			always := false
			for e := range cmdEdges {
				hh := an.Ungated(an.CutSpec{Fn: fn, StartBlocks: []*ssa.BasicBlock{e.To}, GateInstr: func(in ssa.Instruction) bool { return in == pi },
					Sink: func(in ssa.Instruction) bool { return in == getlog.(ssa.Instruction) || in == cp.(ssa.Instruction) }})
				always = len(hh) == 0
			}
			c.Result(len(isCmd) == 1 && len(h) == 0 && always, "C33.a", "ORD", "RecoverNode:replay-commands", c.P.Pos(proc.Pos()),
				"every LogCommand entry, and nothing else, is applied through CommandProcessor.Process", "the replay does not apply exactly the LogCommand entries", nil)
			// snapshot metadata: last replayed index/term, the peers configuration
			a := create.Common().Args
			okMeta := len(a) >= 6 && an.Mentions(a[1], func(v ssa.Value) bool {
				return an.MentionsField(v, "Log", "Index") || isRestoredSnapshotIndex(fn, v, 0)
			}) && func() bool {
				// the configuration is RecoverNode's parameter of type raft.Configuration (wherever it sits in the list)
				p, isP := an.Unwrap(a[3]).(*ssa.Parameter)
				return isP && p.Parent() == fn && strings.HasSuffix(p.Type().String(), "raft.Configuration")
			}()
			c.Result(okMeta, "C33.a", "ORD", "RecoverNode:snapshot-meta", c.P.Pos(create.Pos()),
				"the recovery snapshot is labelled with the last replayed index and carries the peers-file configuration",
				"the recovery snapshot is not created at the last replayed index with the supplied configuration", nil)
		}
	}

	// C33.b
	if open := c.Fn("C33.b", "store", "(*Store).Open"); open != nil {
		recs := an.CallsTo(open, false, "store.RecoverNode")
		if len(recs) != 1 {
			c.Unk("C33.b", "DOM", "Store.Open:RecoverNode", c.P.Pos(open.Pos()), "expected one RecoverNode call in Open")
			return
		}
		rec := recs[0].(ssa.Instruction)
		// marker removed before
		h := an.Ungated(an.CutSpec{Fn: open,
			GateInstr: func(in ssa.Instruction) bool {
				return an.IsCall(in, "internal/fsutil.RemoveFile") && an.MentionsField(in.(*ssa.Call).Common().Args[0], "Store", "cleanSnapshotPath")
			},
			Sink: func(in ssa.Instruction) bool { return in == rec }})
		c.Result(len(h) == 0, "C33.b", "DOM", "Store.Open:marker-removed-before-recovery", c.P.Pos(rec.Pos()),
			"the fast-restart marker is removed before RecoverNode", "RecoverNode can run with the fast-restart marker still in place", nil)
		okEdges := an.SenseEdges(open, an.ErrResult(recs[0]), an.IsNil)
		var starts []*ssa.BasicBlock
		for e := range okEdges {
			starts = append(starts, e.To)
		}
		// rename of the peers file only after success
		var ren ssa.Instruction
		for _, r := range an.CallsTo(open, false, "os.Rename") {
			if an.MentionsField(r.Common().Args[0], "Store", "peersPath") {
				ren = r.(ssa.Instruction)
			}
		}
		okRen := ren != nil && len(an.Ungated(an.CutSpec{Fn: open, GateEdge: okEdges, Sink: func(in ssa.Instruction) bool { return in == ren }})) == 0
		c.Result(okRen, "C33.b", "DOM", "Store.Open:peers-renamed-after-success", c.P.Pos(rec.Pos()),
			"peers.json is renamed only after RecoverNode returned nil", "peers.json can be renamed although recovery did not succeed", nil)
		// after a successful recovery: snapshot restore on start enabled and DB rebuilt
		storesFalse := func(in ssa.Instruction) bool {
			st, ok := in.(*ssa.Store)
			if !ok {
				return false
			}
			t, f, _, ok := an.FieldOf(st.Addr)
			if !ok || t != "Config" || f != "NoSnapshotRestoreOnStart" {
				return false
			}
			b, isC := an.ConstBool(st.Val)
			return isC && !b
		}
		everTrue := false
		an.Instrs(open, func(in ssa.Instruction) {})
		for _, f := range an.WithClosures(open) {
			an.Instrs(f, func(in ssa.Instruction) {
				if st, ok := in.(*ssa.Store); ok {
					if t, fl, _, ok := an.FieldOf(st.Addr); ok && t == "Config" && fl == "NoSnapshotRestoreOnStart" {
						if b, isC := an.ConstBool(st.Val); isC && b {
							everTrue = true
						}
					}
				}
			})
		}
		isNewRaft := func(in ssa.Instruction) bool { return an.IsCall(in, "github.com/hashicorp/raft.NewRaft") }
		hh := an.Ungated(an.CutSpec{Fn: open, StartBlocks: starts, GateInstr: storesFalse, Sink: isNewRaft})
		// if the fast-restart decision is taken after recovery (not before), the obligation is moot
		decidedBefore := false
		if everTrue {
			for _, f := range an.WithClosures(open) {
				an.Instrs(f, func(in ssa.Instruction) {
					if st, ok := in.(*ssa.Store); ok {
						if t, fl, _, ok := an.FieldOf(st.Addr); ok && t == "Config" && fl == "NoSnapshotRestoreOnStart" {
							if b, isC := an.ConstBool(st.Val); isC && b {
								top := in
								if f != open {
									// the closure's call site in Open
									an.Instrs(open, func(x ssa.Instruction) {
										if call, ok := x.(*ssa.Call); ok {
											if mc, ok := call.Common().Value.(*ssa.MakeClosure); ok && mc.Fn == ssa.Value(f) {
												top = x
											}
										}
									})
								}
								if top.Parent() == open && an.ReachableFrom(top, rec, nil) {
									decidedBefore = true
								}
							}
						}
					}
				})
			}
		}
		c.Result(len(starts) > 0 && (!decidedBefore || len(hh) == 0), "C33.b", "DOM", "Store.Open:restore-after-recovery", c.P.Pos(rec.Pos()),
			"after a successful recovery raft restores the recovery snapshot on start (a fast-restart decision taken earlier is revoked)",
			"the fast-restart decision (NoSnapshotRestoreOnStart = true, keep the database file) is taken before RecoverNode and not revoked after it: the node starts on the old database file while the log entries that followed it exist only in the recovery snapshot — acknowledged writes are missing after recovery", nil)
	}
}
