package props

import (
	"golang.org/x/tools/go/ssa"

	"rqverif/checker/internal/an"
	"rqverif/checker/internal/core"
)

// C33.c / C33.d: the temporary database of a manual recovery.
func c33TempDB(c *core.Ctx) {
	fn := c.Fn("C33.c", "store", "RecoverNode")
	if fn == nil {
		return
	}
	opens := an.CallsTo(fn, false, "db.OpenSwappable")
	if len(opens) != 1 {
		c.Unk("C33.c", "DOM", "RecoverNode:temp-db", c.P.Pos(fn.Pos()), "expected exactly one OpenSwappable in RecoverNode")
		return
	}
	open := opens[0]
	tmp := open.Common().Args[0]
	samePath := func(v ssa.Value) bool { return v == tmp || an.Canon(v) == an.Canon(tmp) }
	// C33.c: every file of the temporary database (it runs in WAL mode) is removed before the
	// snapshot is restored into it, on every path
	var rm []ssa.Value
	for _, call := range an.CallsTo(fn, false, "db.RemoveFiles") {
		if _, isDefer := call.(*ssa.Defer); isDefer {
			continue
		}
		if samePath(call.Common().Args[0]) && call.Value() != nil {
			rm = append(rm, call.Value())
		}
	}
	g := an.SenseEdges(fn, rm, an.IsNil)
	sink := func(in ssa.Instruction) bool {
		if in == open.(ssa.Instruction) {
			return true
		}
		call, ok := in.(*ssa.Call)
		return ok && an.IsCall(call, "snapshot.Restore")
	}
	hits := an.Ungated(an.CutSpec{Fn: fn, GateEdge: g, Sink: sink})
	// a restore inside a closure or helper is covered when the removal dominates the call of that closure/helper:
	// here the removal precedes everything that follows the path computation, so requiring it before OpenSwappable
	// and before any direct Restore suffices; a Restore in a closure is reached only through fn's own instructions
	c.Result(len(g) > 0 && len(hits) == 0, "C33.c", "DOM", "RecoverNode:temp-db-files-removed-first", c.P.Pos(open.Pos()),
		"all files of the temporary recovery database (database, WAL, shared memory) are removed before the snapshot is restored into it",
		"RecoverNode restores into / opens the temporary database without first removing all of its files: the -wal file left by an earlier recovery makes the next recovery fail with 'existing WAL file present' (or be replayed over the restored snapshot)", nil)
	// and afterwards
	after := false
	an.Instrs(fn, func(in ssa.Instruction) {
		if d, ok := in.(*ssa.Defer); ok && an.IsCall(d, "db.RemoveFiles") && samePath(d.Call.Args[0]) {
			after = true
		}
	})
	c.Result(after, "C33.c", "PAIR", "RecoverNode:temp-db-files-removed-after", c.P.Pos(fn.Pos()),
		"the temporary database's files are all removed when the recovery ends", "RecoverNode leaves files of the temporary database behind (only the main file is removed): the next recovery finds a stale -wal", nil)

	// C33.d: the log is replayed with the node's foreign-key setting
	fkArg := open.Common().Args[2]
	pIdx := -1
	for i, p := range fn.Params {
		if an.Unwrap(fkArg) == ssa.Value(p) {
			pIdx = i
		}
	}
	okFK := false
	if pIdx >= 0 {
		if host := c.Fn("C33.d", "store", "(*Store).Open"); host != nil {
			for _, call := range an.AllCalls(host, false) {
				if call.Common().StaticCallee() == fn && pIdx < len(call.Common().Args) {
					okFK = an.LoadedField(call.Common().Args[pIdx], "DBConfig", "FKConstraints")
				}
			}
		}
	}
	c.Result(okFK, "C33.d", "CONST", "RecoverNode:replay-with-node-fk-setting", c.P.Pos(open.Pos()),
		"the temporary database is opened with the node's FKConstraints setting",
		"RecoverNode opens the temporary database with a foreign-key setting that is not the node's (DBConfig.FKConstraints): replayed statements behave differently than when first applied — a cascading delete applied live is not repeated, and the recovered node keeps rows every other replica deleted", nil)
}
