package props

import (
	"fmt"
	"go/token"
	"strings"

	"golang.org/x/tools/go/ssa"

	"rqverif/checker/internal/an"
	"rqverif/checker/internal/core"
)

func init() {
	register(&core.Check{
		ID:    "C34",
		Title: "Coordination primitives admit, exclude and wake correctly",
		Explanation: "C34.a GUARD: every access to CheckAndSet{state,owner,startT}, MultiRSW{owner,numReaders} and ReadyTarget{currentTarget,subscribers} happens with the object's mutex held (exclusively for writes), by a must-hold lock-set analysis over each method's CFG. " +
			"C34.b DECIDE: the admission/exit tables of Begin, End, BeginRead, BeginWrite, EndRead, EndWrite, UpgradeToWriter, Subscribe and Signal are interpreted for all valuations, with lock operations, field updates, close() and Broadcast as ordered effects: test and state change happen inside one critical section (no check-then-act across an unlock), Begin admits iff !state, BeginRead iff no writer, BeginWrite iff no writer and no readers, UpgradeToWriter iff sole reader, EndRead broadcasts when the count reaches zero, EndWrite always broadcasts; Subscribe closes at once iff target <= current else registers; Signal ignores index <= current, closes exactly the subscribers with target <= index and keeps the rest. " +
			"C34.c DOM: every cond.Wait sits in a loop that re-tests a predicate over the guarded fields. " +
			"C34.e PAIR: every acquisition of the snapshot gate in package store (Begin/BeginWithRetry on snapshotCAS) is released on all exits after success, and every release (deferred or direct) is dominated by the success edge of its acquisition.",
		NotCovered: []string{"progress under all schedules (needs a model or executions)", "fairness between readers and writers"},
		Run:        runC34,
	})
}

func runC34(c *core.Ctx) {
	guardCheck(c, "C34.a", "internal/rsync", an.GuardSpec{TypeName: "CheckAndSet", Mutex: "mu", Fields: []string{"state", "owner", "startT"}}, 5)
	guardCheck(c, "C34.a", "internal/rsync", an.GuardSpec{TypeName: "MultiRSW", Mutex: "mu", Fields: []string{"owner", "numReaders"}}, 7)
	guardCheck(c, "C34.a", "internal/rsync", an.GuardSpec{TypeName: "ReadyTarget", Mutex: "mu", Fields: []string{"currentTarget", "subscribers"}}, 5)
	c34tables(c)
	c34wait(c)
	c34gate(c)
}

func fieldIs(typ, field string) func(ssa.Value) bool { return an.IsFieldLoad(typ, field) }

func c34tables(c *core.Ctx) {
	type tbl struct {
		typ, method string
		vars        []an.Var
		conds       func(fn *ssa.Function) []an.CondMatcher
		ref         func(an.Val) string
		ret         func(r *ssa.Return, resolve func(ssa.Value) ssa.Value) string
	}
	retErr := func(r *ssa.Return, resolve func(ssa.Value) ssa.Value) string {
		if len(r.Results) == 0 {
			return ""
		}
		v := resolve(r.Results[len(r.Results)-1])
		if an.IsNilConst(v) {
			return "nil"
		}
		return "error"
	}
	ownerSet := func(fn *ssa.Function) an.CondMatcher {
		return func(cond ssa.Value) (func(an.Val) bool, bool) {
			ev, ok := strEmptyCond("_", fieldIs("MultiRSW", "owner"))(cond)
			if !ok {
				return nil, false
			}
			return func(v an.Val) bool { return ev(an.Val{"_": 1 - v["writer"]}) }, true
		}
	}
	paramEmpty := func(fn *ssa.Function) an.CondMatcher {
		return strEmptyCond("ownerArgEmpty", isParamN(fn, 1))
	}
	readers := func(k int64) an.CondMatcher {
		// compares numReaders with constant k; variable "readers" is the count (0,1,2)
		return func(cond ssa.Value) (func(an.Val) bool, bool) {
			ev, ok := an.EqConstCond("readers", func(v ssa.Value) bool { return an.MentionsField(v, "MultiRSW", "numReaders") })(cond)
			return ev, ok
		}
	}
	tables := []tbl{
		{"CheckAndSet", "Begin", []an.Var{an.Bool("held")},
			func(fn *ssa.Function) []an.CondMatcher {
				return []an.CondMatcher{an.BoolCond("held", fieldIs("CheckAndSet", "state"))}
			},
			func(v an.Val) string {
				if v["held"] == 1 {
					return "lock;defer-unlock => error"
				}
				return "lock;defer-unlock;owner=p1;state=true;startT=time.Now() => nil"
			}, retErr},
		{"CheckAndSet", "End", nil, func(fn *ssa.Function) []an.CondMatcher { return nil },
			func(v an.Val) string { return `lock;defer-unlock;owner="";state=false;startT=nil => ` }, nil},
		{"MultiRSW", "BeginRead", []an.Var{an.Bool("writer")},
			func(fn *ssa.Function) []an.CondMatcher { return []an.CondMatcher{ownerSet(fn)} },
			func(v an.Val) string {
				if v["writer"] == 1 {
					return "lock;defer-unlock => error"
				}
				return "lock;defer-unlock;numReaders=(p0.numReaders + 1) => nil"
			}, retErr},
		{"MultiRSW", "BeginWrite", []an.Var{an.Bool("writer"), {Name: "readers", Values: []int{0, 1, 2}}, an.Bool("ownerArgEmpty")},
			func(fn *ssa.Function) []an.CondMatcher {
				return []an.CondMatcher{paramEmpty(fn), ownerSet(fn), readers(0)}
			},
			func(v an.Val) string {
				switch {
				case v["ownerArgEmpty"] == 1:
					return "lock;defer-unlock;panic => panic"
				case v["writer"] == 1, v["readers"] > 0:
					return "lock;defer-unlock => error"
				}
				return "lock;defer-unlock;owner=p1 => nil"
			}, retErr},
		{"MultiRSW", "EndRead", []an.Var{{Name: "readers", Values: []int{-1, 0, 1}}},
			func(fn *ssa.Function) []an.CondMatcher { return []an.CondMatcher{readers(0)} },
			func(v an.Val) string {
				switch {
				case v["readers"] < 0:
					return "lock;defer-unlock;numReaders=(p0.numReaders - 1);panic => panic"
				case v["readers"] == 0:
					return "lock;defer-unlock;numReaders=(p0.numReaders - 1);broadcast => "
				}
				return "lock;defer-unlock;numReaders=(p0.numReaders - 1) => "
			}, nil},
		{"MultiRSW", "EndWrite", []an.Var{an.Bool("writer")},
			func(fn *ssa.Function) []an.CondMatcher { return []an.CondMatcher{ownerSet(fn)} },
			func(v an.Val) string {
				if v["writer"] == 0 {
					return "lock;defer-unlock;panic => panic"
				}
				return `lock;defer-unlock;owner="";broadcast => `
			}, nil},
		{"MultiRSW", "UpgradeToWriter", []an.Var{an.Bool("writer"), {Name: "readers", Values: []int{0, 1, 2}}},
			func(fn *ssa.Function) []an.CondMatcher { return []an.CondMatcher{ownerSet(fn), readers(0)} },
			func(v an.Val) string {
				switch {
				case v["writer"] == 1, v["readers"] > 1:
					return "lock;defer-unlock => error"
				case v["readers"] == 0:
					return "lock;defer-unlock;panic => panic"
				}
				return "lock;defer-unlock;owner=p1;numReaders=0 => nil"
			}, retErr},
	}
	n := 0
	for _, t := range tables {
		fn := c.Fn("C34.b", "internal/rsync", "(*"+t.typ+")."+t.method)
		if fn == nil {
			continue
		}
		spec := an.DecideSpec{Fn: fn, Vars: t.vars, Conds: t.conds(fn), Effect: syncEffects(t.typ), Ret: t.ret, Ref: t.ref}
		if spec.Ret == nil {
			spec.Ret = func(*ssa.Return, func(ssa.Value) ssa.Value) string { return "" }
		}
		res := an.Decide(spec, c.P.Pos)
		reportDecide(c, "C34.b", "(*"+t.typ+")."+t.method, c.P.Pos(fn.Pos()), res)
		if len(res.Mismatches) == 0 && len(res.Undecided) == 0 {
			n++
		}
	}
	// ReadyTarget
	if fn := c.Fn("C34.b", "internal/rsync", "(*ReadyTarget).Subscribe"); fn != nil {
		spec := an.DecideSpec{Fn: fn,
			Vars:  []an.Var{an.Sign("targetVsCurrent")},
			Conds: []an.CondMatcher{an.CmpCond("targetVsCurrent", isParamN(fn, 1), fieldIs("ReadyTarget", "currentTarget"))},
			Effect: func(in ssa.Instruction) (string, bool) {
				if lbl, ok := syncEffects("ReadyTarget")(in); ok {
					if strings.HasPrefix(lbl, "subscribers=") {
						return "register", true
					}
					return lbl, true
				}
				return "", false
			},
			Ret: func(*ssa.Return, func(ssa.Value) ssa.Value) string { return "ch" },
			Ref: func(v an.Val) string {
				if v["targetVsCurrent"] <= 0 {
					// an already-reached target may also be answered under the shared lock
					return "lock;defer-unlock;close => ch || rlock;defer-unlock;close => ch || rlock;unlock;close => ch"
				}
				return "lock;defer-unlock;register => ch"
			}}
		res := an.Decide(spec, c.P.Pos)
		reportDecide(c, "C34.b", "(*ReadyTarget).Subscribe", c.P.Pos(fn.Pos()), res)
		if len(res.Mismatches) == 0 && len(res.Undecided) == 0 {
			n++
		}
	}
	if fn := c.Fn("C34.b", "internal/rsync", "(*ReadyTarget).Signal"); fn != nil {
		spec := an.DecideSpec{Fn: fn,
			Vars: []an.Var{an.Sign("indexVsCurrent"), an.Bool("more"), an.Sign("indexVsTarget")},
			Conds: []an.CondMatcher{
				an.CmpCond("indexVsCurrent", isParamN(fn, 1), fieldIs("ReadyTarget", "currentTarget")),
				an.CmpCond("indexVsTarget", isParamN(fn, 1), fieldIs("Subscriber", "target")),
				func(cond ssa.Value) (func(an.Val) bool, bool) { // range loop condition
					b, ok := cond.(*ssa.BinOp)
					if !ok {
						return nil, false
					}
					if call, ok := b.Y.(*ssa.Call); ok {
						if bi, ok := call.Common().Value.(*ssa.Builtin); ok && bi.Name() == "len" {
							return func(v an.Val) bool { return v["more"] == 1 }, true
						}
					}
					return nil, false
				},
			},
			Effect: func(in ssa.Instruction) (string, bool) {
				if lbl, ok := syncEffects("ReadyTarget")(in); ok {
					if strings.HasPrefix(lbl, "subscribers=") {
						return "subscribers=remaining", true
					}
					return lbl, true
				}
				if call, ok := in.(*ssa.Call); ok {
					if bi, ok := call.Common().Value.(*ssa.Builtin); ok && bi.Name() == "append" {
						return "keep", true
					}
				}
				return "", false
			},
			Ret: func(*ssa.Return, func(ssa.Value) ssa.Value) string { return "" },
			Ref: func(v an.Val) string {
				if v["indexVsCurrent"] <= 0 {
					return "lock;defer-unlock => "
				}
				if v["more"] == 0 {
					return "lock;defer-unlock;currentTarget=p1;subscribers=remaining => "
				}
				if v["indexVsTarget"] >= 0 {
					return "lock;defer-unlock;currentTarget=p1;close => loop"
				}
				return "lock;defer-unlock;currentTarget=p1;keep => loop"
			}}
		res := an.Decide(spec, c.P.Pos)
		reportDecide(c, "C34.b", "(*ReadyTarget).Signal", c.P.Pos(fn.Pos()), res)
		if len(res.Mismatches) == 0 && len(res.Undecided) == 0 {
			n++
		}
	}
	c.Count("primitive decision tables matching", n)
	c.Min("primitive decision tables matching", 9)
}

func c34wait(c *core.Ctx) {
	sp := c.P.SPkg("internal/rsync")
	if sp == nil {
		return
	}
	waits := 0
	for _, fn := range pkgFuncs(sp) {
		for _, w := range an.CallsTo(fn, false, "sync.Cond.Wait") {
			waits++
			c.Touch(fn)
			wi := w.(ssa.Instruction)
			// in a loop: the wait can reach itself; and the loop re-tests guarded fields
			loops := an.ReachableFrom(wi, wi, nil)
			retest := false
			if loops {
				// a branch condition mentioning a field of the receiver's type lies on the cycle
				an.WalkFrom(fn, wi, func(in ssa.Instruction) bool {
					if ifi, ok := in.(*ssa.If); ok {
						if an.MentionsField(ifi.Cond, "MultiRSW", "owner") || an.MentionsField(ifi.Cond, "MultiRSW", "numReaders") {
							if an.ReachableFrom(ifi, wi, nil) {
								retest = true
							}
						}
					}
					return in != wi
				})
			}
			c.Result(loops && retest, "C34.c", "DOM", core.FuncName(fn)+":wait-in-loop", c.P.Pos(w.Pos()),
				"cond.Wait sits in a loop that re-tests the admission predicate", "cond.Wait is not inside a loop re-testing the predicate: a spurious or stale wake-up would admit the caller while the resource is held", nil)
			// Wait releases the mutex: every admission fact that gates a state change from the
			// function's entry must be re-established on every path from the Wait to that change
			ownerEmpty, readersZero := map[an.Edge]bool{}, map[an.Edge]bool{}
			for _, b := range fn.Blocks {
				if len(b.Instrs) == 0 {
					continue
				}
				ifi, isIf := b.Instrs[len(b.Instrs)-1].(*ssa.If)
				if !isIf {
					continue
				}
				bo, isB := ifi.Cond.(*ssa.BinOp)
				if !isB {
					continue
				}
				t, f := an.Edge{From: b, To: b.Succs[0]}, an.Edge{From: b, To: b.Succs[1]}
				if an.LoadedField(bo.X, "MultiRSW", "owner") {
					if s, isS := an.ConstString(bo.Y); isS && s == "" {
						switch bo.Op {
						case token.EQL:
							ownerEmpty[t] = true
						case token.NEQ:
							ownerEmpty[f] = true
						}
					}
				}
				if an.LoadedField(bo.X, "MultiRSW", "numReaders") {
					if k, isK := an.ConstInt(bo.Y); isK && k == 0 {
						switch bo.Op {
						case token.EQL, token.LEQ:
							readersZero[t] = true
						case token.NEQ, token.GTR:
							readersZero[f] = true
						}
					}
				}
			}
			okRe := true
			nState := 0
			an.Instrs(fn, func(in ssa.Instruction) {
				st, isSt := in.(*ssa.Store)
				if !isSt {
					return
				}
				tt, ff, _, isF := an.FieldOf(st.Addr)
				if !isF || tt != "MultiRSW" || (ff != "owner" && ff != "numReaders") {
					return
				}
				nState++
				sink := func(x ssa.Instruction) bool { return x == in }
				for _, g := range []map[an.Edge]bool{ownerEmpty, readersZero} {
					if len(g) == 0 {
						continue
					}
					if len(an.Ungated(an.CutSpec{Fn: fn, GateEdge: g, Sink: sink})) == 0 &&
						len(an.Ungated(an.CutSpec{Fn: fn, Start: wi, GateEdge: g, Sink: sink})) > 0 {
						okRe = false
					}
				}
			})
			c.Result(okRe && nState > 0, "C34.c", "DOM", core.FuncName(fn)+":predicate-re-established-after-wait", c.P.Pos(w.Pos()),
				"every admission test that guards the state change from entry also lies on every path from the Wait to the change",
				core.FuncName(fn)+" changes the lock state after a cond.Wait without re-testing everything it tested before waiting: Wait releases the mutex, so another caller may have taken the lock in between — two writers (or a writer and readers) are admitted together", nil)
		}
	}
	c.Count("cond.Wait sites", waits)
	c.Min("cond.Wait sites", 2)
}

// c34gate: snapshot gate users in package store.
func c34gate(c *core.Ctx) {
	sp := c.P.SPkg("store")
	if sp == nil {
		return
	}
	const begin, beginRetry, end = "internal/rsync.CheckAndSet.Begin", "internal/rsync.CheckAndSet.BeginWithRetry", "internal/rsync.CheckAndSet.End"
	users := 0
	for _, fn := range pkgFuncs(sp) {
		acqs := an.CallsTo(fn, false, begin, beginRetry)
		var onGate []ssa.CallInstruction
		for _, a := range acqs {
			if an.MentionsField(a.Common().Args[0], "Store", "snapshotCAS") {
				onGate = append(onGate, a)
			}
		}
		rels := []ssa.CallInstruction{}
		for _, r := range an.CallsTo(fn, false, end) {
			if an.MentionsField(r.Common().Args[0], "Store", "snapshotCAS") {
				rels = append(rels, r)
			}
		}
		if len(onGate) == 0 && len(rels) == 0 {
			continue
		}
		users++
		c.Touch(fn)
		name := core.FuncName(fn)
		// hand-off idiom: `go func() { defer gate.End(); … }()`
		handsOff := func(in ssa.Instruction) bool {
			g, ok := in.(*ssa.Go)
			if !ok {
				return false
			}
			mc, ok := g.Call.Value.(*ssa.MakeClosure)
			if !ok {
				return false
			}
			cl := mc.Fn.(*ssa.Function)
			var def ssa.Instruction
			an.Instrs(cl, func(x ssa.Instruction) {
				if d, isD := x.(*ssa.Defer); isD && an.IsCall(d, end) && an.MentionsField(d.Call.Args[0], "Store", "snapshotCAS") {
					def = x
				}
			})
			if def == nil {
				return false
			}
			return len(an.Ungated(an.CutSpec{Fn: cl, GateInstr: func(x ssa.Instruction) bool { return x == def },
				Sink: func(x ssa.Instruction) bool { _, isR := x.(*ssa.Return); return isR }})) == 0
		}
		isRel := func(in ssa.Instruction) bool {
			for _, r := range rels {
				if in == r.(ssa.Instruction) {
					return true
				}
			}
			return handsOff(in)
		}
		if len(onGate) == 0 && fn.Parent() != nil {
			// a closure that only releases: it must be started by its parent
			// after the parent's successful acquisition
			par := fn.Parent()
			psucc := map[an.Edge]bool{}
			for _, a := range an.CallsTo(par, false, begin, beginRetry) {
				if an.MentionsField(a.Common().Args[0], "Store", "snapshotCAS") {
					for e := range an.SenseEdges(par, an.ErrResult(a), an.IsNil) {
						psucc[e] = true
					}
				}
			}
			hits := an.Ungated(an.CutSpec{Fn: par, GateEdge: psucc, Sink: func(in ssa.Instruction) bool {
				mc, ok := in.(*ssa.MakeClosure)
				return ok && mc.Fn == ssa.Value(fn)
			}})
			c.Result(len(psucc) > 0 && len(hits) == 0, "C34.e", "PAIR", name+":release-handed-off", c.P.Pos(fn.Pos()),
				"the releasing goroutine is started only after its parent acquired the gate",
				"a goroutine that releases the snapshot gate can be started without the gate having been acquired", nil)
			continue
		}
		success := map[an.Edge]bool{}
		for i, a := range onGate {
			okEdges := an.SenseEdges(fn, an.ErrResult(a), an.IsNil)
			for e := range okEdges {
				success[e] = true
			}
			var starts []*ssa.BasicBlock
			for e := range okEdges {
				starts = append(starts, e.To)
			}
			if len(starts) == 0 {
				c.Bad("C34.e", "PAIR", fmt.Sprintf("%s:gate#%d:checked", name, i+1), c.P.Pos(a.Pos()), "the result of acquiring the snapshot gate is not tested", nil)
				continue
			}
			hits := an.Ungated(an.CutSpec{Fn: fn, StartBlocks: starts, GateInstr: isRel,
				Sink: func(in ssa.Instruction) bool { _, ok := in.(*ssa.Return); return ok }})
			c.Result(len(hits) == 0, "C34.e", "PAIR", fmt.Sprintf("%s:gate#%d:released", name, i+1), c.P.Pos(a.Pos()),
				"after a successful acquisition every exit passes End (deferred or direct)", "an exit after a successful acquisition does not release the snapshot gate", nil)
		}
		for i, r := range rels {
			ri := r.(ssa.Instruction)
			hits := an.Ungated(an.CutSpec{Fn: fn, GateEdge: success, Sink: func(in ssa.Instruction) bool { return in == ri }})
			c.Result(len(onGate) > 0 && len(hits) == 0, "C34.e", "PAIR", fmt.Sprintf("%s:release#%d:owned", name, i+1), c.P.Pos(r.Pos()),
				"End only after this function's own successful acquisition",
				"End (possibly deferred) is reachable without this function having acquired the gate: a failed or timed-out acquisition would release a gate held by another operation", nil)
		}
	}
	c.Count("snapshot gate users in package store", users)
	c.Min("snapshot gate users in package store", 4)
}
