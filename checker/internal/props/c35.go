package props

import (
	"fmt"
	"go/ast"
	"go/token"
	"go/types"
	"strings"

	"golang.org/x/tools/go/ssa"

	"rqverif/checker/internal/an"
	"rqverif/checker/internal/core"
)

func init() {
	register(&core.Check{
		ID:    "C35",
		Title: "Arbitrary bytes on the inter-node port cannot crash a node",
		Explanation: "C35.a TAINT: in every module function statically reachable from cluster.Service.handleConn and tcp.Mux.handleConn, a length decoded from received bytes (encoding/binary UintN) is used — other than in comparisons — only on edges where it is below a constant bound, and never as the size of a make() unless that bound is ≤ 1 MiB (so memory grows with bytes received). " +
			"C35.b DOM: in handleConn no field of a command payload (result of Command.GetXRequest()) is read or written on a path where the payload's non-nil test has not succeeded, including the fall-through after an error header (path-sensitive for the resp.Error flag). " +
			"C35.c DOM/PAIR: tcp.Mux.handleConn hands a connection to a listener only when the handler looked up from the header byte is non-nil, and every exit without a hand-off closes the connection; a command that fails to decode returns (closing the connection). State change without permission is C18.b. " +
			"C35.d DOM: serving a frame retains nothing beyond the frame — cluster.Service.handleConn (with its closures and single-caller helpers) starts no goroutine, performs no unconditional channel send, and every send that hands a decoded value to another goroutine is an arm of a select with a default. " +
			"C35.e DOM: tcp.Mux.Serve retries an Accept error that reports Temporary() (descriptor exhaustion, aborted connections): from the true edge of that test Accept is reached again before any return.",
		NotCovered: []string{"absence of panics in general below the handlers (SQLite, protobuf, raft transport)", "memory growth measurements", "the raft transport's own decoding (hashicorp/raft, trusted)"},
		Run:        runC35,
	})
}

func staticReach(roots []*ssa.Function) []*ssa.Function {
	seen := map[*ssa.Function]bool{}
	var out []*ssa.Function
	var q []*ssa.Function
	for _, r := range roots {
		if r != nil && !seen[r] {
			seen[r] = true
			q = append(q, r)
		}
	}
	for len(q) > 0 {
		f := q[0]
		q = q[1:]
		out = append(out, f)
		for _, g := range f.AnonFuncs {
			if !seen[g] {
				seen[g] = true
				q = append(q, g)
			}
		}
		an.Instrs(f, func(in ssa.Instruction) {
			ci, ok := in.(ssa.CallInstruction)
			if !ok {
				return
			}
			sc := ci.Common().StaticCallee()
			if sc == nil || seen[sc] || !core.InModule(sc) || len(sc.Blocks) == 0 {
				return
			}
			seen[sc] = true
			q = append(q, sc)
		})
	}
	return out
}

func isBinaryUint(v ssa.Value) bool {
	call, ok := v.(*ssa.Call)
	if !ok {
		return false
	}
	id := an.CalleeID(call)
	return strings.HasPrefix(id, "encoding/binary.") && (strings.HasSuffix(id, ".Uint16") || strings.HasSuffix(id, ".Uint32") || strings.HasSuffix(id, ".Uint64"))
}

func runC35(c *core.Ctx) {
	svc := c.Fn("C35.a", "cluster", "(*Service).handleConn")
	mux := c.Fn("C35.c", "tcp", "(*Mux).handleConn")
	if svc == nil || mux == nil {
		return
	}
	fns := staticReach([]*ssa.Function{svc, mux})
	decodes := 0
	for _, fn := range fns {
		c.Touch(fn)
		an.Instrs(fn, func(in ssa.Instruction) {
			v, ok := in.(ssa.Value)
			if !ok || !isBinaryUint(v) {
				return
			}
			// decode of a locally produced header (writer side) is not wire input:
			// only count decodes in functions that read from a net.Conn / io.Reader
			if !readsFromConn(fn) {
				return
			}
			decodes++
			c18taint(c, fn, v)
		})
	}
	c.Count("wire length decodes in server-side functions", decodes)
	c.Min("wire length decodes in server-side functions", 1)

	c35payload(c, svc)
	c35d(c, svc)
	c35e(c)
	c35mux(c, mux)
	c35decode(c, svc)
}

func readsFromConn(fn *ssa.Function) bool {
	found := false
	an.Instrs(fn, func(in ssa.Instruction) {
		if an.IsCall(in, "io.ReadFull", "net.Conn.Read", "io.Reader.Read", "io.CopyN", "io.ReadAll") {
			found = true
		}
	})
	return found
}

// derived collects values computed from v by conversions and arithmetic.
func derived(v ssa.Value) map[ssa.Value]bool {
	out := map[ssa.Value]bool{v: true}
	q := []ssa.Value{v}
	for len(q) > 0 {
		x := q[0]
		q = q[1:]
		refs := x.Referrers()
		if refs == nil {
			continue
		}
		for _, r := range *refs {
			switch y := r.(type) {
			case *ssa.Convert:
				if !out[y] {
					out[y] = true
					q = append(q, y)
				}
			case *ssa.ChangeType:
				if !out[y] {
					out[y] = true
					q = append(q, y)
				}
			case *ssa.BinOp:
				switch y.Op {
				case token.ADD, token.SUB, token.MUL, token.QUO, token.SHL, token.SHR:
					if !out[y] {
						out[y] = true
						q = append(q, y)
					}
				}
			case *ssa.Phi:
				if !out[y] {
					out[y] = true
					q = append(q, y)
				}
			case *ssa.Call:
				// min/max keep the sign of a negative operand
				if b, ok := y.Call.Value.(*ssa.Builtin); ok && (b.Name() == "min" || b.Name() == "max") && !out[y] {
					out[y] = true
					q = append(q, y)
				}
			}
		}
	}
	return out
}

// panicsOnNegative: the use panics when handed a negative size.
func panicsOnNegative(in ssa.Instruction) bool {
	switch x := in.(type) {
	case *ssa.MakeSlice, *ssa.MakeChan, *ssa.MakeMap, *ssa.Slice, *ssa.IndexAddr, *ssa.Index:
		return true
	case ssa.CallInstruction:
		return an.IsCall(x, "bytes.Buffer.Grow", "strings.Builder.Grow", "bufio.Reader.Discard", "bufio.Reader.Peek") || strings.HasPrefix(an.CalleeID(x), "slices.Grow")
	}
	return false
}

// signedOperand: the derived value consumed by the use has a signed type.
func signedOperand(in ssa.Instruction, dv map[ssa.Value]bool) bool {
	for _, op := range in.Operands(nil) {
		if *op == nil || !dv[*op] {
			continue
		}
		if bt, ok := (*op).Type().Underlying().(*types.Basic); ok && bt.Info()&types.IsUnsigned == 0 {
			return true
		}
	}
	return false
}

func c18taint(c *core.Ctx, fn *ssa.Function, src ssa.Value) {
	name := core.FuncName(fn)
	pos := c.P.Pos(src.Pos())
	dv := derived(src)
	// bounded edges: comparisons of a derived value against a constant
	bounded := map[an.Edge]bool{}
	// edges on which the length is known not to be negative: an ordered
	// comparison of an unsigned value, or an explicit sign test
	nonneg := map[an.Edge]bool{}
	var bound int64 = -1
	for _, b := range fn.Blocks {
		if len(b.Instrs) == 0 {
			continue
		}
		ifi, ok := b.Instrs[len(b.Instrs)-1].(*ssa.If)
		if !ok {
			continue
		}
		bo, ok := ifi.Cond.(*ssa.BinOp)
		if !ok {
			continue
		}
		var k int64
		var kok bool
		op := bo.Op
		if dv[bo.X] {
			k, kok = an.ConstInt(bo.Y)
		} else if dv[bo.Y] {
			k, kok = an.ConstInt(bo.X)
			switch op { // mirror
			case token.LSS:
				op = token.GTR
			case token.LEQ:
				op = token.GEQ
			case token.GTR:
				op = token.LSS
			case token.GEQ:
				op = token.LEQ
			}
		}
		if !kok {
			continue
		}
		operand := bo.X
		if !dv[bo.X] {
			operand = bo.Y
		}
		unsigned := false
		if bt, isB := operand.Type().Underlying().(*types.Basic); isB && bt.Info()&types.IsUnsigned != 0 {
			unsigned = true
		}
		switch op {
		case token.GTR, token.GEQ: // v > K : false edge is bounded
			if k == 0 || (k == -1 && op == token.GTR) {
				// v > 0 / v >= 0 : the true edge is non-negative (not an upper bound)
				nonneg[an.Edge{From: b, To: b.Succs[0]}] = true
				continue
			}
			bounded[an.Edge{From: b, To: b.Succs[1]}] = true
			if unsigned {
				nonneg[an.Edge{From: b, To: b.Succs[1]}] = true
			}
		case token.LSS, token.LEQ: // v < K : true edge is bounded
			if k == 0 && op == token.LSS {
				nonneg[an.Edge{From: b, To: b.Succs[1]}] = true
				continue
			}
			bounded[an.Edge{From: b, To: b.Succs[0]}] = true
			if unsigned {
				nonneg[an.Edge{From: b, To: b.Succs[0]}] = true
			}
		default:
			continue
		}
		if bound < 0 || k < bound {
			bound = k
		}
	}
	uses := 0
	bad := 0
	seenUse := map[ssa.Instruction]bool{}
	for v := range dv {
		refs := v.Referrers()
		if refs == nil {
			continue
		}
		for _, r := range *refs {
			switch y := r.(type) {
			case *ssa.Convert, *ssa.ChangeType, *ssa.Phi, *ssa.DebugRef:
				continue
			case *ssa.BinOp:
				switch y.Op {
				case token.EQL, token.NEQ, token.LSS, token.LEQ, token.GTR, token.GEQ:
					continue
				}
				if dv[y] {
					continue
				}
			}
			if seenUse[r] {
				continue
			}
			seenUse[r] = true
			uses++
			c.Sites++
			use := r
			construct := name + ":wire-length-use:" + useKind(use)
			if len(an.Ungated(an.CutSpec{Fn: fn, GateEdge: bounded, Sink: func(in ssa.Instruction) bool { return in == use }})) > 0 {
				bad++
				c.Bad("C35.a", "TAINT", construct, c.P.Pos(use.Pos()),
					fmt.Sprintf("a length decoded from the connection at %s reaches %s with no constant upper bound on the way: a few bytes can announce any size", pos, useKind(use)), nil)
				continue
			}
			if panicsOnNegative(use) && signedOperand(use, dv) {
				if len(an.Ungated(an.CutSpec{Fn: fn, GateEdge: nonneg, Sink: func(in ssa.Instruction) bool { return in == use }})) > 0 {
					bad++
					c.Bad("C35.a", "TAINT", construct+":sign", c.P.Pos(use.Pos()),
						fmt.Sprintf("a length decoded from the connection at %s is converted to a signed integer and reaches %s bounded from above only: a prefix with the top bit set becomes negative, passes the size check and panics there — the handler goroutine has no recover, so one malformed message stops the node", pos, useKind(use)), nil)
					continue
				}
			}
			if _, isMake := use.(*ssa.MakeSlice); isMake && bound > 1<<20 {
				bad++
				c.Bad("C35.a", "TAINT", construct, c.P.Pos(use.Pos()),
					fmt.Sprintf("make() sized by the announced length (bound %d) allocates before the bytes arrive; memory must grow with bytes actually received", bound), nil)
				continue
			}
		}
	}
	if bad == 0 {
		c.OK("C35.a", "TAINT", name+":wire-length", pos, fmt.Sprintf("%d use(s) of the decoded length, all under a constant bound (%d); no make() sized by it", uses, bound))
	}
}

func useKind(in ssa.Instruction) string {
	switch x := in.(type) {
	case *ssa.MakeSlice:
		return "make"
	case ssa.CallInstruction:
		if id := an.CalleeID(x); id != "" {
			return "call " + id
		}
		return "call"
	case *ssa.Slice:
		return "slice-bound"
	case *ssa.IndexAddr:
		return "index"
	}
	return fmt.Sprintf("%T", in)
}

func c35payload(c *core.Ctx, fn *ssa.Function) {
	var start ssa.Instruction
	an.Instrs(fn, func(in ssa.Instruction) {
		if an.IsPlainCall(in, "google.golang.org/protobuf/proto.Unmarshal") && start == nil {
			start = in
		}
	})
	if start == nil {
		c.Unk("C35.b", "DOM", "handleConn:decode", c.P.Pos(fn.Pos()), "command decode not found")
		return
	}
	getters := 0
	an.Instrs(fn, func(in ssa.Instruction) {
		call, ok := in.(*ssa.Call)
		if !ok {
			return
		}
		id := an.CalleeID(call)
		if !strings.HasPrefix(id, "cluster/proto.Command.Get") || !strings.HasSuffix(id, "Request") {
			return
		}
		getters++
		getter := strings.TrimPrefix(id, "cluster/proto.Command.")
		v := call.Value()
		gate := an.SenseEdges(fn, []ssa.Value{v}, an.NotNil)
		derefs := 0
		hits := an.UngatedPS(an.CutSpec{Fn: fn, Start: start, GateEdge: gate, Sink: func(x ssa.Instruction) bool {
			switch y := x.(type) {
			case *ssa.FieldAddr:
				if y.X == v {
					derefs++
					return true
				}
			case *ssa.Field:
				if y.X == v {
					derefs++
					return true
				}
			case *ssa.UnOp:
				if y.Op == token.MUL && y.X == v {
					derefs++
					return true
				}
			}
			return false
		}})
		c.Sites += derefs
		if len(hits) == 0 {
			c.OK("C35.b", "DOM", "handleConn:"+getter+":deref", c.P.Pos(call.Pos()), "payload fields touched only after its non-nil test")
		}
		for _, h := range hits {
			_, f, _, _ := an.FieldOf(h.Instr.(ssa.Value))
			c.Bad("C35.b", "DOM", "handleConn:"+getter+":deref:"+f, c.P.Pos(h.Instr.Pos()),
				"field "+f+" of the "+getter+"() payload is dereferenced on a path where the payload may be nil (a command without a payload panics the handler goroutine and the process)", an.PathString(fn, h.Path, c.P.Pos))
		}
	})
	c.Count("payload getters in handleConn", getters)
	c.Min("payload getters in handleConn", 11)
}

func c35mux(c *core.Ctx, fn *ssa.Function) {
	conn := an.Param(fn, "conn")
	if conn == nil {
		c.Unk("C35.c", "DOM", "Mux.handleConn:conn", c.P.Pos(fn.Pos()), "parameter conn not found")
		return
	}
	var sends []*ssa.Send
	an.Instrs(fn, func(in ssa.Instruction) {
		if s, ok := in.(*ssa.Send); ok && an.Unwrap(s.X) == ssa.Value(conn) {
			sends = append(sends, s)
		}
	})
	if len(sends) == 0 {
		c.Unk("C35.c", "DOM", "Mux.handleConn:handoff", c.P.Pos(fn.Pos()), "no hand-off of the connection to a listener channel found")
		return
	}
	for _, s := range sends {
		// channel is a field of the looked-up handler value
		var handler ssa.Value
		ch := s.Chan
		if u, ok := ch.(*ssa.UnOp); ok && u.Op == token.MUL {
			if fa, ok := u.X.(*ssa.FieldAddr); ok {
				handler = fa.X
			}
		}
		if handler == nil {
			c.Unk("C35.c", "DOM", "Mux.handleConn:handoff:handler", c.P.Pos(s.Pos()), "cannot identify the handler value whose channel receives the connection")
			continue
		}
		gate := an.SenseEdges(fn, []ssa.Value{handler}, an.NotNil)
		send := s
		hits := an.Ungated(an.CutSpec{Fn: fn, GateEdge: gate, Sink: func(in ssa.Instruction) bool {
			if fa, ok := in.(*ssa.FieldAddr); ok && fa.X == handler {
				return true
			}
			return in == ssa.Instruction(send)
		}})
		c.Result(len(hits) == 0, "C35.c", "DOM", "Mux.handleConn:handoff-nonnil", c.P.Pos(s.Pos()),
			"connection handed off only when a handler is registered for the header byte",
			"the handler looked up from the header byte is used without a non-nil test: an unregistered byte panics the mux goroutine", nil)
	}
	// every exit either handed off or closed the connection
	hits := an.Ungated(an.CutSpec{Fn: fn, GateEdge: closedOnFailure(fn, conn),
		GateInstr: func(in ssa.Instruction) bool {
			if s, ok := in.(*ssa.Send); ok && an.Unwrap(s.X) == ssa.Value(conn) {
				return true
			}
			if ci, ok := in.(ssa.CallInstruction); ok && ci.Common().IsInvoke() && ci.Common().Method.Name() == "Close" && ci.Common().Value == ssa.Value(conn) {
				return true
			}
			// a private helper that is handed the connection and closes it on every path
			if call, ok := in.(*ssa.Call); ok {
				if g := call.Common().StaticCallee(); g != nil && len(g.Blocks) > 0 && g.Pkg == fn.Pkg && !ast.IsExported(g.Name()) {
					for k, a := range call.Common().Args {
						if an.Unwrap(a) != ssa.Value(conn) || k >= len(g.Params) {
							continue
						}
						p := g.Params[k]
						open := an.Ungated(an.CutSpec{Fn: g, NoLift: true,
							GateInstr: func(x ssa.Instruction) bool {
								ci, ok := x.(ssa.CallInstruction)
								return ok && ci.Common().IsInvoke() && ci.Common().Method.Name() == "Close" && ci.Common().Value == ssa.Value(p)
							},
							Sink: func(x ssa.Instruction) bool { _, ok := x.(*ssa.Return); return ok }})
						if len(open) == 0 {
							return true
						}
					}
				}
			}
			return false
		},
		Sink: func(in ssa.Instruction) bool { _, ok := in.(*ssa.Return); return ok }})
	if len(hits) == 0 {
		c.OK("C35.c", "PAIR", "Mux.handleConn:close-or-handoff", c.P.Pos(fn.Pos()), "every exit closes the connection or hands it to a listener")
	}
	for _, h := range hits {
		c.Bad("C35.c", "PAIR", "Mux.handleConn:close-or-handoff", c.P.Pos(h.Instr.Pos()), "an exit leaves the connection neither closed nor handed off", an.PathString(fn, h.Path, c.P.Pos))
	}
}

// closedOnFailure returns the edges of fn on which a private helper that was
// handed conn has reported failure (false / non-nil error) when every return of
// that helper which reports failure has closed the connection: on those edges
// the connection is closed.
func closedOnFailure(fn *ssa.Function, conn ssa.Value) map[an.Edge]bool {
	out := map[an.Edge]bool{}
	an.Instrs(fn, func(in ssa.Instruction) {
		call, ok := in.(*ssa.Call)
		if !ok {
			return
		}
		g := call.Common().StaticCallee()
		if g == nil || len(g.Blocks) == 0 || g.Pkg != fn.Pkg || ast.IsExported(g.Name()) {
			return
		}
		k := -1
		for i, a := range call.Common().Args {
			if an.Unwrap(a) == conn {
				k = i
			}
		}
		if k < 0 || k >= len(g.Params) {
			return
		}
		p := g.Params[k]
		unclosed := an.Ungated(an.CutSpec{Fn: g, NoLift: true,
			GateInstr: func(x ssa.Instruction) bool {
				ci, ok := x.(ssa.CallInstruction)
				return ok && ci.Common().IsInvoke() && ci.Common().Method.Name() == "Close" && ci.Common().Value == ssa.Value(p)
			},
			Sink: func(x ssa.Instruction) bool { _, ok := x.(*ssa.Return); return ok }})
		res := g.Signature.Results()
		for i := 0; i < res.Len(); i++ {
			t := res.At(i).Type()
			isBool := types.Identical(t.Underlying(), types.Typ[types.Bool])
			isErr := an.IsErrorType(t)
			if !isBool && !isErr {
				continue
			}
			all := true
			for _, h := range unclosed {
				r := h.Instr.(*ssa.Return)
				if isBool {
					if b, ok := an.ConstBool(r.Results[i]); !ok || !b {
						all = false
					}
				} else if !an.IsNilConst(r.Results[i]) {
					all = false
				}
			}
			if !all {
				continue
			}
			sense := an.IsFalse
			if isErr {
				sense = an.NotNil
			}
			for e := range an.SenseEdges(fn, an.Result(call, i), sense) {
				out[e] = true
			}
		}
	})
	return out
}

// c35decode: a decode failure leaves the loop.
func c35decode(c *core.Ctx, fn *ssa.Function) {
	for _, call := range an.CallsTo(fn, false, "google.golang.org/protobuf/proto.Unmarshal") {
		errEdges := an.SenseEdges(fn, an.ErrResult(call), an.NotNil)
		if len(errEdges) == 0 {
			c.Bad("C35.c", "DOM", "handleConn:decode-error", c.P.Pos(call.Pos()), "the result of decoding a command is not checked", nil)
			continue
		}
		// from the error edge, no db/mgr action may be reachable before return
		var starts []*ssa.BasicBlock
		for e := range errEdges {
			starts = append(starts, e.To)
		}
		hits := an.Ungated(an.CutSpec{Fn: fn, StartBlocks: starts,
			GateInstr: func(in ssa.Instruction) bool { _, ok := in.(*ssa.Return); return ok },
			Sink: func(in ssa.Instruction) bool {
				ci, ok := in.(ssa.CallInstruction)
				if !ok {
					return false
				}
				f := recvField(ci, "Service")
				return f == "db" || f == "mgr"
			}})
		c.Result(len(hits) == 0, "C35.c", "DOM", "handleConn:decode-error", c.P.Pos(call.Pos()),
			"a command that fails to decode ends the handler (connection closed) before any action",
			"after a failed decode an action on the database/manager is still reachable", nil)
	}
}
