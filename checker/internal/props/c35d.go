package props

import (
	"go/types"

	"golang.org/x/tools/go/ssa"

	"rqverif/checker/internal/an"
	"rqverif/checker/internal/core"
)

// C35.d: a frame cannot make the node retain more than the frame. The
// per-connection handlers (cluster.Service.handleConn and tcp.Mux.handleConn,
// with their closures and single-caller helpers) start no goroutine per frame,
// and every channel send they perform is one arm of a select that has a default
// (or another ready arm is not required: the send must not block the handler,
// and must not be parked in a goroutine either): a client that keeps sending
// well-formed frames could otherwise pile up goroutines or block the handler on
// a channel nobody drains.
func c35d(c *core.Ctx, svc *ssa.Function) {
	fns := map[*ssa.Function]bool{}
	var add func(f *ssa.Function)
	add = func(f *ssa.Function) {
		if f == nil || fns[f] || len(f.Blocks) == 0 {
			return
		}
		fns[f] = true
		for _, cl := range f.AnonFuncs {
			add(cl)
		}
		an.Instrs(f, func(in ssa.Instruction) {
			if ci, ok := in.(ssa.CallInstruction); ok {
				if g := ci.Common().StaticCallee(); g != nil && an.StepPolicy != nil && an.StepPolicy(g) {
					add(g)
				}
			}
		})
	}
	add(svc)
	sends, gos := 0, 0
	for f := range fns {
		an.Instrs(f, func(in ssa.Instruction) {
			switch x := in.(type) {
			case *ssa.Go:
				gos++
				c.Bad("C35.d", "DOM", "handleConn:no-goroutine-per-frame:"+core.FuncName(f), c.P.Pos(in.Pos()),
					"the inter-node handler starts a goroutine while serving a frame: a client that keeps sending frames makes the node retain one goroutine (and its stack) per frame, for as long as that goroutine blocks", nil)
			case *ssa.Send:
				sends++
				c.Bad("C35.d", "DOM", "handleConn:no-blocking-send:"+core.FuncName(f), c.P.Pos(in.Pos()),
					"the inter-node handler performs an unconditional channel send while serving a frame: if nobody drains the channel the handler (and the connection) blocks for good", nil)
			case *ssa.Select:
				for _, st := range x.States {
					if st.Dir == types.SendOnly {
						sends++
						c.Result(!x.Blocking, "C35.d", "DOM", "handleConn:send-has-default:"+core.FuncName(f), c.P.Pos(in.Pos()),
							"the hand-over of a decoded value to another goroutine is a select with a default: a full channel drops the value instead of blocking the handler",
							"a channel send in the inter-node handler is part of a blocking select: a frame can block the handler on a channel nobody drains", nil)
					}
				}
			}
		})
	}
	c.Count("channel hand-overs in the inter-node handler", sends)
	c.Min("channel hand-overs in the inter-node handler", 1)
	if gos == 0 {
		c.OK("C35.d", "DOM", "handleConn:no-goroutine-per-frame", c.P.Pos(svc.Pos()), "serving a frame starts no goroutine")
	}
}
