package props

import (
	"sort"
	"strings"

	"golang.org/x/tools/go/ssa"

	"rqverif/checker/internal/an"
	"rqverif/checker/internal/core"
)

func init() {
	register(&core.Check{
		ID:    "C36",
		Title: "Write throttling stays within its configured bounds",
		Explanation: "C36.a GUARD: Throttler.delayFactor is read only with mu held and written only with mu held exclusively (lock-set analysis of every method and closure); it is a plain int (not an atomic) so no reader can observe an intermediate value. " +
			"C36.b DECIDE + WHO (interval invariant 0 ≤ delayFactor ≤ len(delays)−1): New guarantees len(delays) ≥ 1 and releaseRate ≥ 1; the only writers of delayFactor are New, Signal, Release and Reset; Signal increments only on the edge delayFactor < len(delays)−1; Release subtracts and then stores 0 on the negative edge before the lock is released; Reset stores 0 — each mutator preserves the invariant, so delays[delayFactor] is always in range. " +
			"C36.c DOM: Delay returns nil at once for a zero delay and otherwise waits in a select that has a ctx.Done() case; the idle timer is armed with Reset as its callback. " +
			"C36.d DOM: Signal and Release restart the idle timer with idleTimeout on every path (directly or through a helper all of whose paths do), except on the nil-timer edge — so the timer that returns the level to zero is running whenever the level may be above zero. " +
			"C36.e ORD: in Store.Execute and Store.Request every path from the throttle wait (Throttler.Delay) to the consensus step passes the nil edge of Delay's own error or of a ctx.Err() test made after the wait.",
		NotCovered: []string{"wall-clock behaviour of the delays", "fairness of the RWMutex"},
		Run:        runC36,
	})
}

func runC36(c *core.Ctx) {
	c36e(c)
	c36Idle(c)
	guardCheck(c, "C36.a", "store/throttler", an.GuardSpec{TypeName: "Throttler", Mutex: "mu", Fields: []string{"delayFactor"}}, 6)

	// the field is a plain integer
	if pk := c.P.Pkg("store/throttler"); pk != nil {
		obj := pk.Types.Scope().Lookup("Throttler")
		ok := false
		if obj != nil {
			if st := structOf(obj.Type()); st != nil {
				for i := 0; i < st.NumFields(); i++ {
					if st.Field(i).Name() == "delayFactor" {
						ok = st.Field(i).Type().String() == "int"
					}
				}
			}
		}
		c.Result(ok, "C36.a", "GUARD", "Throttler.delayFactor:type", "", "delayFactor is a plain int protected by mu", "delayFactor is no longer a plain int under mu: lock-free readers can observe the level between a subtraction and its clamp", nil)
	}

	// writers
	writers := map[string]bool{}
	for _, m := range an.MethodsOf(c.P.AllFunctions(), "store/throttler", "Throttler") {
		for _, f := range an.WithClosures(m) {
			an.Instrs(f, func(in ssa.Instruction) {
				if st, ok := in.(*ssa.Store); ok {
					if t, fl, _, ok := an.FieldOf(st.Addr); ok && t == "Throttler" && fl == "delayFactor" {
						writers[m.Name()] = true
					}
				}
			})
		}
	}
	var ws []string
	for w := range writers {
		ws = append(ws, w)
	}
	sort.Strings(ws)
	c.Result(strings.Join(ws, ",") == "Release,Reset,Signal", "C36.b", "WHO", "Throttler.delayFactor:writers", "",
		"delayFactor is written only by Release, Reset and Signal", "delayFactor is written by "+strings.Join(ws, ",")+"; the invariant was established for Release, Reset, Signal only", nil)

	df := func(v ssa.Value) bool { return an.MentionsField(v, "Throttler", "delayFactor") }
	if fn := c.Fn("C36.b", "store/throttler", "(*Throttler).Signal"); fn != nil {
		spec := an.DecideSpec{Fn: fn,
			Vars: []an.Var{an.Sign("levelVsMax"), an.Bool("timerNil")},
			Conds: []an.CondMatcher{
				// the idle-timer restart may be a helper or inline: its nil test is not part of the level logic
				an.NilCond("timerNil", an.IsFieldLoad("Throttler", "timer")),
				an.CmpCond("levelVsMax", an.All(df, func(v ssa.Value) bool { _, isB := v.(*ssa.BinOp); return !isB }), func(v ssa.Value) bool {
					// len(t.delays) - 1
					b, ok := v.(*ssa.BinOp)
					if !ok || b.Op.String() != "-" {
						return false
					}
					k, isK := an.ConstInt(b.Y)
					return isK && k == 1 && an.MentionsField(b.X, "Throttler", "delays")
				}),
			},
			Effect: func(in ssa.Instruction) (string, bool) {
				lbl, ok := syncEffects("Throttler")(in)
				if ok && (strings.HasPrefix(lbl, "delayFactor=") || strings.Contains(lbl, "lock")) {
					return lbl, true
				}
				return "", false
			},
			Ret: func(*ssa.Return, func(ssa.Value) ssa.Value) string { return "" },
			Ref: func(v an.Val) string {
				if v["levelVsMax"] < 0 {
					return "lock;defer-unlock;delayFactor=(p0.delayFactor + 1) => "
				}
				return "lock;defer-unlock => "
			}}
		reportDecide(c, "C36.b", "(*Throttler).Signal", c.P.Pos(fn.Pos()), an.Decide(spec, c.P.Pos))
	}
	if fn := c.Fn("C36.b", "store/throttler", "(*Throttler).Release"); fn != nil {
		spec := an.DecideSpec{Fn: fn,
			Vars:  []an.Var{an.Sign("afterSub"), an.Bool("timerNil")},
			Conds: []an.CondMatcher{an.CmpCond("afterSub", df, an.IsConstInt(0)), an.NilCond("timerNil", an.IsFieldLoad("Throttler", "timer"))},
			Effect: func(in ssa.Instruction) (string, bool) {
				lbl, ok := syncEffects("Throttler")(in)
				if ok && (strings.HasPrefix(lbl, "delayFactor=") || strings.Contains(lbl, "lock")) {
					return lbl, true
				}
				return "", false
			},
			Ret: func(*ssa.Return, func(ssa.Value) ssa.Value) string { return "" },
			Ref: func(v an.Val) string {
				if v["afterSub"] < 0 {
					return "lock;defer-unlock;delayFactor=(p0.delayFactor - p0.releaseRate);delayFactor=0 => "
				}
				return "lock;defer-unlock;delayFactor=(p0.delayFactor - p0.releaseRate) => "
			}}
		reportDecide(c, "C36.b", "(*Throttler).Release", c.P.Pos(fn.Pos()), an.Decide(spec, c.P.Pos))
	}
	if fn := c.Fn("C36.b", "store/throttler", "(*Throttler).Reset"); fn != nil {
		spec := an.DecideSpec{Fn: fn,
			Vars:  []an.Var{an.Bool("timerNil")},
			Conds: []an.CondMatcher{an.NilCond("timerNil", an.IsFieldLoad("Throttler", "timer"))},
			Effect: func(in ssa.Instruction) (string, bool) {
				lbl, ok := syncEffects("Throttler")(in)
				if ok && (strings.HasPrefix(lbl, "delayFactor=") || strings.Contains(lbl, "lock")) {
					return lbl, true
				}
				return "", false
			},
			Ret: func(*ssa.Return, func(ssa.Value) ssa.Value) string { return "" },
			Ref: func(v an.Val) string { return "lock;defer-unlock;delayFactor=0 => " }}
		reportDecide(c, "C36.b", "(*Throttler).Reset", c.P.Pos(fn.Pos()), an.Decide(spec, c.P.Pos))
	}
	if fn := c.Fn("C36.b", "store/throttler", "New"); fn != nil {
		// len(delays)==0 ⇒ replaced by a one-element slice; releaseRate<1 ⇒ 1
		lenDelays := func(v ssa.Value) bool {
			call, ok := v.(*ssa.Call)
			if !ok {
				return false
			}
			bi, ok := call.Common().Value.(*ssa.Builtin)
			return ok && bi.Name() == "len" && isParamN(fn, 0)(call.Common().Args[0])
		}
		var delaysStore, rateStore ssa.Value
		an.Instrs(fn, func(in ssa.Instruction) {
			if st, ok := in.(*ssa.Store); ok {
				if t, fl, _, ok := an.FieldOf(st.Addr); ok && t == "Throttler" {
					switch fl {
					case "delays":
						delaysStore = st.Val
					case "releaseRate":
						rateStore = st.Val
					}
				}
			}
		})
		okD, okR := false, false
		if p, ok := delaysStore.(*ssa.Phi); ok {
			// one edge is the parameter, the other a freshly built non-empty slice
			hasParam, hasLit := false, false
			for _, e := range p.Edges {
				if isParamN(fn, 0)(e) {
					hasParam = true
				}
				if sl, ok := e.(*ssa.Slice); ok {
					if al, ok := sl.X.(*ssa.Alloc); ok && strings.HasPrefix(al.Type().String(), "*[1]") {
						hasLit = true
					}
				}
			}
			okD = hasParam && hasLit
		}
		if p, ok := rateStore.(*ssa.Phi); ok {
			hasParam, hasOne := false, false
			for _, e := range p.Edges {
				if isParamN(fn, 1)(e) {
					hasParam = true
				}
				if k, ok := an.ConstInt(e); ok && k == 1 {
					hasOne = true
				}
			}
			okR = hasParam && hasOne
		}
		// and the guards are the right comparisons
		gD := len(an.SenseEdgesOfCmp(fn, lenDelays, 0)) > 0
		gR := len(an.SenseEdgesOfCmp(fn, isParamN(fn, 1), 1)) > 0
		c.Result(okD && okR && gD && gR, "C36.b", "DECIDE", "throttler.New:defaults", c.P.Pos(fn.Pos()),
			"New replaces an empty delay table by a one-entry table and a release rate below 1 by 1",
			"New no longer guarantees len(delays) ≥ 1 and releaseRate ≥ 1 (the bounds the level invariant rests on)", nil)
	}

	// C36.c
	if fn := c.Fn("C36.c", "store/throttler", "(*Throttler).Delay"); fn != nil {
		var sel *ssa.Select
		an.Instrs(fn, func(in ssa.Instruction) {
			if s, ok := in.(*ssa.Select); ok {
				sel = s
			}
		})
		ok := sel != nil && sel.Blocking
		if ok {
			hasCtx, hasTimer := false, false
			for _, st := range sel.States {
				if callResult(st.Chan, -1, "context.Context.Done") {
					hasCtx = true
				}
				if callResult(st.Chan, -1, "time.After") {
					hasTimer = true
				}
			}
			ok = hasCtx && hasTimer
			// the select is reached only when the delay is non-zero
			zero := an.SenseEdgesOfCmp(fn, func(v ssa.Value) bool { return an.MentionsField(v, "Throttler", "delays") }, 0)
			ok = ok && len(zero) > 0
		}
		c.Result(ok, "C36.c", "DOM", "(*Throttler).Delay:cancellable", c.P.Pos(fn.Pos()),
			"Delay waits in a select on {timer, ctx.Done()} and tests the zero delay first", "Delay's wait is not cancellable by the context or does not special-case a zero delay", nil)
	}
	if fn := c.Fn("C36.c", "store/throttler", "New"); fn != nil {
		ok := false
		for _, call := range an.CallsTo(fn, false, "time.AfterFunc") {
			if mc, isM := call.Common().Args[1].(*ssa.MakeClosure); isM && strings.Contains(mc.Fn.Name(), "Reset") {
				ok = true
			}
		}
		c.Result(ok, "C36.c", "DOM", "throttler.New:idle-timer", c.P.Pos(fn.Pos()), "the idle timer's callback is Reset", "the idle timer does not call Reset", nil)
	}
}
