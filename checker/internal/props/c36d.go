package props

import (
	"golang.org/x/tools/go/ssa"

	"rqverif/checker/internal/an"
	"rqverif/checker/internal/core"
)

// C36.d DOM: every pressure signal and every release re-arms the idle timer
// (when there is one): the level "returns to zero after the idle timeout" only
// if the timer that resets it is running whenever the level may be above zero.
func c36Idle(c *core.Ctx) {
	nilTimer := func(fn *ssa.Function) map[an.Edge]bool {
		return an.SenseEdges(fn, loadsOfField(fn, "Throttler", "timer"), an.IsNil)
	}
	isReset := func(in ssa.Instruction) bool {
		call, ok := in.(*ssa.Call)
		if !ok || !an.IsCall(call, "time.Timer.Reset") {
			return false
		}
		return an.MentionsField(call.Call.Args[0], "Throttler", "timer") && an.MentionsField(call.Call.Args[1], "Throttler", "idleTimeout")
	}
	must := an.LiftE(isReset, nilTimer, 2, core.InModule)
	for _, name := range []string{"Signal", "Release"} {
		fn := c.Fn("C36.d", "store/throttler", "(*Throttler)."+name)
		if fn == nil {
			continue
		}
		h := an.Ungated(an.CutSpec{Fn: fn, GateInstr: must, GateEdge: nilTimer(fn), Sink: func(in ssa.Instruction) bool {
			r, ok := in.(*ssa.Return)
			return ok && (fn.Recover == nil || r.Block() != fn.Recover)
		}})
		c.Result(len(h) == 0, "C36.d", "DOM", "Throttler."+name+":re-arms-idle-timer", c.P.Pos(fn.Pos()),
			name+" restarts the idle timer (with idleTimeout) on every path, unless there is no timer",
			"Throttler."+name+" can return without restarting the idle timer although one is configured: after the last signal nothing resets the level, and it stays above zero for ever instead of returning to zero after the idle timeout", nil)
	}
}
