package props

import (
	"sort"
	"strings"

	"golang.org/x/tools/go/ssa"

	"rqverif/checker/internal/an"
	"rqverif/checker/internal/core"
)

func init() {
	register(&core.Check{
		ID:    "C37",
		Title: "Automatic backups upload every change and never mislabel",
		Explanation: "C37.a DECIDE+ORD: Uploader.upload is interpreted for all valuations of {index read ok, index vs last uploaded, temp file ok, provide ok, first upload, remote id read ok, remote id equals label, seek ok, upload ok}: the applied index is read before the data is produced, the skip branch is exactly index <= lastIndex, the same index value (SSA identity) labels the upload, and lastIndex is assigned that value only after Upload returned nil. " +
			"C37.b TABLE: in Store.Backup's direct-copy path the pre-backup snapshot's error is tolerated only for the reference reasons {ErrNothingNewToSnapshot, 'wait until the configuration entry at'}; any other tolerated error (continuing to copy a main file that lacks WAL contents) is reported; the database file is opened only after the snapshot step and with the snapshot gate held. " +
			"C37.c WHO: Provider.LastIndex returns Store.DBAppliedIndex, and dbAppliedIdx is stored only by the apply path (on a mutating entry, with the entry's index), restore, and open. " +
			"C37.d ORD: the file storage client renames the metadata file that carries the backup ID (what CurrentID reports, and what makes the uploader skip a round) into place only on the success edge of the data file's rename. " +
			"C37.e CONST: Store.Backup fills the *os.File it is given — it never renames another file over that file's path (the uploader reads back through its own descriptor).",
		NotCovered: []string{"contents of the uploaded object", "behaviour of the S3 and GCS clients and services"},
		Run:        runC37,
	})
}

func runC37(c *core.Ctx) {
	c37d(c)
	c37e(c)
	if fn := c.Fn("C37.a", "auto/backup", "(*Uploader).upload"); fn != nil {
		var liCall ssa.Value
		for _, call := range an.CallsTo(fn, false, "auto/backup.DataProvider.LastIndex") {
			liCall = call.Value()
		}
		isLi := func(v ssa.Value) bool {
			e, ok := an.Unwrap(v).(*ssa.Extract)
			return ok && e.Tuple == liCall && e.Index == 0
		}
		label := func(v ssa.Value) string {
			call, ok := v.(*ssa.Call)
			if ok && an.IsCall(call, "strconv.FormatUint") && isLi(call.Common().Args[0]) {
				return "li"
			}
			return "?"
		}
		spec := an.DecideSpec{Fn: fn,
			Vars: []an.Var{an.Bool("indexOK"), an.Sign("liVsLast"), an.Bool("tempOK"), an.Bool("provideOK"), an.Bool("first"), an.Bool("idOK"), an.Bool("sameID"), an.Bool("seekOK"), an.Bool("uploadOK")},
			Conds: []an.CondMatcher{
				an.NilCond("indexOK", func(v ssa.Value) bool { e, ok := v.(*ssa.Extract); return ok && e.Tuple == liCall && e.Index == 1 }),
				an.CmpCond("liVsLast", isLi, an.IsFieldLoad("Uploader", "lastIndex")),
				errOf("tempOK", "auto/backup.tempFD"),
				errOf("provideOK", "auto/backup.DataProvider.Provide"),
				func(cond ssa.Value) (func(an.Val) bool, bool) {
					ev, ok := an.CmpCond("_", an.IsFieldLoad("Uploader", "lastIndex"), an.IsConstInt(0))(cond)
					if !ok {
						return nil, false
					}
					return func(v an.Val) bool { return ev(an.Val{"_": 1 - v["first"]}) }, true
				},
				errOf("idOK", "auto/backup.StorageClient.CurrentID"),
				func(cond ssa.Value) (func(an.Val) bool, bool) {
					b, ok := cond.(*ssa.BinOp)
					if !ok || b.Op.String() != "==" {
						return nil, false
					}
					if callResult(b.X, 0, "auto/backup.StorageClient.CurrentID") && label(b.Y) == "li" {
						return func(v an.Val) bool { return v["sameID"] == 1 }, true
					}
					return nil, false
				},
				errOf("seekOK", "os.File.Seek"),
				errOf("uploadOK", "auto/backup.StorageClient.Upload"),
			},
			Effect: func(in ssa.Instruction) (string, bool) {
				switch x := in.(type) {
				case *ssa.Call:
					switch {
					case an.IsCall(x, "auto/backup.DataProvider.LastIndex"):
						return "readIndex", true
					case an.IsCall(x, "auto/backup.DataProvider.Provide"):
						return "provide", true
					case an.IsCall(x, "auto/backup.StorageClient.CurrentID"):
						return "remoteID", true
					case an.IsCall(x, "auto/backup.StorageClient.Upload"):
						return "upload(" + label(x.Common().Args[2]) + ")", true
					}
				case *ssa.Store:
					if t, f, _, ok := an.FieldOf(x.Addr); ok && t == "Uploader" && f == "lastIndex" {
						if isLi(x.Val) {
							return "lastIndex=li", true
						}
						return "lastIndex=?", true
					}
				}
				return "", false
			},
			Ret: func(r *ssa.Return, resolve func(ssa.Value) ssa.Value) string {
				if an.IsNilConst(resolve(r.Results[0])) {
					return "nil"
				}
				return "err"
			},
			Ref: func(v an.Val) string {
				switch {
				case v["indexOK"] == 0:
					return "readIndex => err"
				case v["liVsLast"] <= 0:
					return "readIndex => nil"
				case v["tempOK"] == 0:
					return "readIndex => err"
				case v["provideOK"] == 0:
					return "readIndex;provide => err"
				}
				eff := "readIndex;provide"
				if v["first"] == 1 {
					eff += ";remoteID"
					if v["idOK"] == 1 && v["sameID"] == 1 {
						return eff + " => nil"
					}
				}
				if v["seekOK"] == 0 {
					return eff + " => err"
				}
				eff += ";upload(li)"
				if v["uploadOK"] == 0 {
					return eff + " => err"
				}
				return eff + ";lastIndex=li => nil"
			},
		}
		reportDecide(c, "C37.a", "(*Uploader).upload", c.P.Pos(fn.Pos()), an.Decide(spec, c.P.Pos))
	}

	// C37.b tolerated snapshot errors in Backup
	if fn := c.Fn("C37.b", "store", "(*Store).Backup"); fn != nil {
		snaps := an.CallsTo(fn, false, "store.Store.Snapshot")
		if len(snaps) != 1 {
			c.Unk("C37.b", "TABLE", "Store.Backup:pre-backup-snapshot", c.P.Pos(fn.Pos()), "expected one pre-backup Snapshot call")
		} else {
			errv := an.ErrResult(snaps[0])
			mentionsErr := func(v ssa.Value) bool {
				for _, e := range errv {
					if an.MentionsValue(v, e) {
						return true
					}
				}
				return false
			}
			var tol []string
			for _, b := range fn.Blocks {
				if len(b.Instrs) == 0 {
					continue
				}
				ifi, ok := b.Instrs[len(b.Instrs)-1].(*ssa.If)
				if !ok || !mentionsErr(ifi.Cond) {
					continue
				}
				cond := ifi.Cond
				if u, ok := cond.(*ssa.UnOp); ok {
					cond = u.X
				}
				switch x := cond.(type) {
				case *ssa.BinOp:
					if an.IsNilConst(x.Y) || an.IsNilConst(x.X) {
						continue // the err != nil test itself
					}
					tol = append(tol, "cmp:"+an.Canon(x.Y))
				case *ssa.Call:
					switch {
					case an.IsCall(x, "errors.Is"):
						tol = append(tol, "is:"+errName(x.Common().Args[1]))
					case an.IsCall(x, "strings.Contains"):
						s, _ := an.ConstString(x.Common().Args[1])
						tol = append(tol, "contains:"+s)
					default:
						tol = append(tol, "call:"+an.CalleeID(x))
					}
				default:
					tol = append(tol, an.Canon(cond))
				}
			}
			sort.Strings(tol)
			got := strings.Join(tol, " | ")
			want := "contains:wait until the configuration entry at | is:ErrNothingNewToSnapshot"
			c.Result(got == want, "C37.b", "TABLE", "Store.Backup:tolerated-snapshot-errors", c.P.Pos(snaps[0].Pos()),
				"the pre-backup snapshot may fail only with 'nothing new' or 'configuration entry pending'",
				"the pre-backup snapshot's failure is tolerated for {"+got+"}, reference {"+want+"}: a backup taken after a skipped snapshot copies a main file that lacks the WAL contents but is labelled with the applied index", nil)
			// the file open comes after the snapshot step and under the gate
			for _, op := range an.CallsTo(fn, false, "os.Open") {
				if !an.MentionsField(op.Common().Args[0], "Store", "dbPath") {
					continue
				}
				gate := map[an.Edge]bool{}
				for _, a := range an.CallsTo(fn, false, "internal/rsync.CheckAndSet.BeginWithRetry", "internal/rsync.CheckAndSet.Begin") {
					for e := range an.SenseEdges(fn, an.ErrResult(a), an.IsNil) {
						gate[e] = true
					}
				}
				opi := op.(ssa.Instruction)
				h1 := an.Ungated(an.CutSpec{Fn: fn, GateEdge: gate, Sink: func(in ssa.Instruction) bool { return in == opi }})
				// WAL size consulted before
				h2 := an.Ungated(an.CutSpec{Fn: fn, GateInstr: func(in ssa.Instruction) bool { return an.IsCall(in, "db.SwappableDB.WALSize") }, Sink: func(in ssa.Instruction) bool { return in == opi }})
				c.Result(len(h1) == 0 && len(h2) == 0, "C37.b", "DOM", "Store.Backup:open-after-snapshot-under-gate", c.P.Pos(op.Pos()),
					"the database file is opened only after the WAL/snapshot step, with the snapshot gate held",
					"the database file can be opened for copying without the snapshot gate or before the WAL was folded in", nil)
			}
		}
	}

	// C37.c
	if fn := c.Fn("C37.c", "store", "(*Provider).LastIndex"); fn != nil {
		ok := false
		for _, r := range an.Returns(fn) {
			if callResult(r.Results[0], -1, "store.Store.DBAppliedIndex") {
				ok = true
			}
		}
		c.Result(ok, "C37.c", "WHO", "Provider.LastIndex", c.P.Pos(fn.Pos()), "the label is the store's DB applied index", "Provider.LastIndex no longer returns Store.DBAppliedIndex", nil)
	}
	writers := map[string]bool{}
	sp := c.P.SPkg("store")
	if sp != nil {
		for _, fn := range pkgFuncs(sp) {
			an.Instrs(fn, func(in ssa.Instruction) {
				call, ok := in.(*ssa.Call)
				if !ok || !strings.HasSuffix(an.CalleeID(call), ".Store") || len(call.Common().Args) < 2 {
					return
				}
				if an.MentionsField(call.Common().Args[0], "Store", "dbAppliedIdx") {
					for _, n := range accountable(c, fn, func(n string) bool {
						return n == "(*store.Store).Open" || n == "(*store.Store).fsmApply" || n == "(*store.Store).fsmRestore"
					}) {
						writers[n] = true
					}
				}
			})
		}
	}
	var ws []string
	for w := range writers {
		ws = append(ws, w)
	}
	sort.Strings(ws)
	got := strings.Join(ws, ",")
	c.Result(got == "(*store.Store).Open,(*store.Store).fsmApply,(*store.Store).fsmRestore" || got == "(*store.Store).fsmApply,(*store.Store).fsmRestore", "C37.c", "WHO", "Store.dbAppliedIdx:writers", "",
		"dbAppliedIdx is stored only by apply, restore (and open): "+got, "dbAppliedIdx is stored by "+got+"; reference: fsmApply, fsmRestore (and Open)", nil)
	if fn := c.Fn("C37.c", "store", "(*Store).fsmApply"); fn != nil {
		// stored with the entry's index on the mutated edge
		ok := false
		an.Instrs(fn, func(in ssa.Instruction) {
			call, isC := in.(*ssa.Call)
			if !isC || !strings.HasSuffix(an.CalleeID(call), ".Store") || len(call.Common().Args) < 2 || !an.MentionsField(call.Common().Args[0], "Store", "dbAppliedIdx") {
				return
			}
			ok = an.MentionsField(call.Common().Args[1], "Log", "Index")
		})
		c.Result(ok, "C37.c", "WHO", "fsmApply:dbAppliedIdx=entry-index", c.P.Pos(fn.Pos()), "apply records the entry's own index", "apply does not record the entry's own index as the DB applied index", nil)
	}
}
