package props

import (
	"golang.org/x/tools/go/ssa"

	"rqverif/checker/internal/an"
	"rqverif/checker/internal/core"
)

// C37.d: the file storage client publishes the backup's ID (the metadata file
// that CurrentID reads) only after the data file is in place. The uploader
// skips a round when CurrentID equals the index it would upload: an ID
// published for data that never arrived marks a change as uploaded for good.
// c37e: the uploader reads the backup back through the descriptor it handed to
// Provide/Backup. When Store.Backup is given an *os.File it must fill that file:
// replacing the path (rename over dst.Name()) leaves the caller's descriptor on
// the old, empty inode, and an empty object is uploaded and recorded as done.
func c37e(c *core.Ctx) {
	fn := c.Fn("C37.e", "store", "(*Store).Backup")
	if fn == nil {
		return
	}
	names := 0
	bad := false
	var pos ssa.Instruction
	for _, f := range an.WithClosures(fn) {
		names += len(an.CallsTo(f, false, "os.File.Name"))
		for _, call := range an.CallsTo(f, false, "os.Rename") {
			args := call.Common().Args
			if len(args) == 2 && an.MentionsCall(args[1], "os.File.Name") {
				bad = true
				pos = call.(ssa.Instruction)
			}
		}
	}
	c.Count("uses of the destination file's name in Store.Backup", names)
	c.Min("uses of the destination file's name in Store.Backup", 1)
	p := c.P.Pos(fn.Pos())
	if pos != nil {
		p = c.P.Pos(pos.Pos())
	}
	c.Sites++
	c.Result(!bad, "C37.e", "CONST", "Store.Backup:fills-the-callers-file", p,
		"a backup into an *os.File writes that file; its path is never replaced",
		"Store.Backup renames another file over the destination file's path: the caller still holds a descriptor of the replaced (empty) file, so the automatic backup uploads an empty object and records the change as uploaded", nil)
}

func c37d(c *core.Ctx) {
	fn := c.Fn("C37.d", "auto/file", "(*Client).Upload")
	if fn == nil {
		return
	}
	var meta, data []ssa.CallInstruction
	for _, call := range an.CallsTo(fn, false, "os.Rename") {
		args := call.Common().Args
		if len(args) != 2 {
			continue
		}
		if an.LoadedField(an.Unwrap(args[1]), "Client", "metaPath") {
			meta = append(meta, call)
		} else {
			data = append(data, call)
		}
	}
	c.Count("publishing renames in file.Client.Upload", len(meta)+len(data))
	c.Min("publishing renames in file.Client.Upload", 2)
	if len(meta) == 0 || len(data) == 0 {
		return
	}
	gate := map[an.Edge]bool{}
	for _, d := range data {
		for e := range an.SenseEdges(fn, an.ErrResult(d), an.IsNil) {
			gate[e] = true
		}
	}
	isMeta := func(in ssa.Instruction) bool {
		for _, m := range meta {
			if in == m.(ssa.Instruction) {
				return true
			}
		}
		return false
	}
	h := an.Ungated(an.CutSpec{Fn: fn, GateEdge: gate, NoLift: true, Sink: isMeta})
	c.Sites += len(meta)
	c.Result(len(gate) > 0 && len(h) == 0, "C37.d", "ORD", "file.Client.Upload:id-published-after-data", c.P.Pos(meta[0].Pos()),
		"the metadata file carrying the backup ID is renamed into place only after the data file's rename succeeded",
		"file.Client.Upload can publish the metadata file (the ID CurrentID reports) before the data file is in place: if the data rename then fails, the next round sees the ID it wanted to upload, skips, and that change is never uploaded", nil)
}
