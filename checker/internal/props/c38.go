package props

import (
	"fmt"
	"go/types"
	"sort"
	"strings"

	"golang.org/x/tools/go/ssa"

	"rqverif/checker/internal/an"
	"rqverif/checker/internal/core"
)

func init() {
	register(&core.Check{
		ID:          "C38",
		Title:       "Linearizable reads complete without further writes",
		Explanation: "C38.a WHO+TABLE across the raft boundary: a linearizable read waits on Store.fsmTarget for the index returned by raft.CommitIndex(), which counts every entry type. The rule (1) re-derives from hashicorp/raft's runFSM (module cache source, SSA) which FSM callbacks receive which entry types — FSM.Apply/ApplyBatch for commands, ConfigurationStore.StoreConfiguration for configuration changes when the FSM implements it, none for noop/barrier; (2) requires that store.FSM implements raft.ConfigurationStore (go/types) and that each callback — FSM.Apply → fsmApply, FSM.Restore → fsmRestore, FSM.StoreConfiguration — signals fsmTarget on every path to its return, with the entry's own index; (3) for the entry types without a callback: raft.Barrier has no caller in non-test module code other than the exported Store.Barrier, which itself has none, and a leader's initial noop is followed by a command before any linearizable read is attempted (C02.a's strong-read-term test).",
		NotCovered:  []string{"timing (how long the wait takes)", "a Barrier issued through Store.Barrier by an embedding program: the read then waits for the next command (documented residual)"},
		Run:         runC38,
		NeedsCG:     false,
	})
}

func runC38(c *core.Ctx) {
	const raftPkg = "github.com/hashicorp/raft"
	// (1) dispatch facts re-derived from raft
	run := c.P.Func(raftPkg, "(*Raft).runFSM")
	if run == nil {
		c.Unk("C38.a", "TABLE", "raft.runFSM", "", "hashicorp/raft (*Raft).runFSM not found: the entry-type → callback table cannot be re-derived")
		return
	}
	c.Touch(run)
	invoked := map[string]bool{}
	for _, f := range an.WithClosures(run) {
		an.Instrs(f, func(in ssa.Instruction) {
			if ci, ok := in.(ssa.CallInstruction); ok && ci.Common().IsInvoke() {
				invoked[an.CalleeID(ci)] = true
			}
		})
	}
	want := []string{raftPkg + ".FSM.Apply", raftPkg + ".ConfigurationStore.StoreConfiguration", raftPkg + ".FSM.Restore"}
	for _, w := range want {
		ok := invoked[w]
		if w == raftPkg+".FSM.Restore" {
			// Restore is invoked from fsmRestoreAndMeasure
			if f := c.P.Func(raftPkg, "fsmRestoreAndMeasure"); f != nil {
				an.Instrs(f, func(in ssa.Instruction) {
					if ci, isC := in.(ssa.CallInstruction); isC && ci.Common().IsInvoke() && an.CalleeID(ci) == w {
						ok = true
					}
				})
			}
		}
		c.Result(ok, "C38.a", "TABLE", "raft.runFSM:invokes:"+strings.TrimPrefix(w, raftPkg+"."), c.P.Pos(run.Pos()),
			"raft's FSM loop invokes "+strings.TrimPrefix(w, raftPkg+"."), "raft's FSM loop no longer invokes "+w+"; the entry-type table of DESIGN.md A.3 is out of date", nil)
	}

	// (2) the store's FSM implements ConfigurationStore
	sp := c.P.SPkg("store")
	rp := c.P.SPkg(raftPkg)
	if sp == nil || rp == nil {
		c.Unk("C38.a", "TABLE", "packages", "", "store or raft package not loaded")
		return
	}
	fsmObj := sp.Pkg.Scope().Lookup("FSM")
	csObj := rp.Pkg.Scope().Lookup("ConfigurationStore")
	if fsmObj == nil || csObj == nil {
		c.Unk("C38.a", "TABLE", "FSM/ConfigurationStore", "", "store.FSM or raft.ConfigurationStore not found")
		return
	}
	iface, _ := csObj.Type().Underlying().(*types.Interface)
	impl := iface != nil && types.Implements(types.NewPointer(fsmObj.Type()), iface)
	c.Result(impl, "C38.a", "TABLE", "store.FSM:implements:ConfigurationStore", c.P.Pos(fsmObj.Pos()),
		"*store.FSM implements raft.ConfigurationStore, so committed configuration changes reach the store",
		"*store.FSM does not implement raft.ConfigurationStore: a committed configuration change (join/remove) advances the commit index but never the FSM target, so a linearizable read issued after it waits until the next write or times out", nil)

	// callbacks signal the target with their own index
	type cb struct {
		method string
		inner  string // store method doing the work ("" = the FSM method itself)
		idx    func(fn *ssa.Function) func(ssa.Value) bool
		desc   string
	}
	logIndex := func(fn *ssa.Function) func(ssa.Value) bool {
		return func(v ssa.Value) bool { return an.MentionsField(v, "Log", "Index") }
	}
	cbs := []cb{
		{"(*FSM).Apply", "(*Store).fsmApply", logIndex, "command entries"},
		{"(*FSM).Restore", "(*Store).fsmRestore", func(fn *ssa.Function) func(ssa.Value) bool {
			return func(v ssa.Value) bool { return true }
		}, "snapshot restore"},
	}
	if impl {
		cbs = append(cbs, cb{"(*FSM).StoreConfiguration", "", func(fn *ssa.Function) func(ssa.Value) bool { return isParamN(fn, 1) }, "configuration entries"})
	}
	covered := 0
	for _, k := range cbs {
		m := c.Fn("C38.a", "store", k.method)
		if m == nil {
			continue
		}
		target := m
		if k.inner != "" {
			in := c.Fn("C38.a", "store", k.inner)
			if in == nil {
				continue
			}
			// the FSM method must delegate unconditionally
			calls := an.CallsTo(m, false, "store.Store."+strings.TrimPrefix(strings.TrimPrefix(k.inner, "(*Store)."), "."))
			deleg := len(calls) == 1 && len(an.Ungated(an.CutSpec{Fn: m,
				GateInstr: func(x ssa.Instruction) bool { return x == ssa.Instruction(calls[0].(*ssa.Call)) },
				Sink:      func(x ssa.Instruction) bool { _, ok := x.(*ssa.Return); return ok }})) == 0
			c.Result(deleg, "C38.a", "DOM", k.method+":delegates", c.P.Pos(m.Pos()), k.method+" always calls "+k.inner, k.method+" does not always call "+k.inner, nil)
			target = in
		}
		// Signal on fsmTarget, in the function or in a closure it defers
		var sigs []ssa.CallInstruction
		for _, f := range an.WithClosures(target) {
			for _, call := range an.CallsTo(f, false, "internal/rsync.ReadyTarget.Signal") {
				if an.MentionsField(call.Common().Args[0], "Store", "fsmTarget") {
					sigs = append(sigs, call)
				}
			}
		}
		// the signal may have been moved, with the statements around it, into a private helper:
		// the helper's call site then stands for the signal (every successful path of the helper signals)
		standIn := map[ssa.CallInstruction]ssa.CallInstruction{}
		if len(sigs) == 0 && an.StepPolicy != nil {
			isSig := func(x ssa.Instruction) bool {
				call, ok := x.(*ssa.Call)
				return ok && an.IsCall(call, "internal/rsync.ReadyTarget.Signal") && an.MentionsField(call.Call.Args[0], "Store", "fsmTarget")
			}
			for _, hc := range an.AllCalls(target, false) {
				g := hc.Common().StaticCallee()
				if g == nil || len(g.Blocks) == 0 || !an.StepPolicy(g) {
					continue
				}
				res := g.Signature.Results()
				onlySucc := res.Len() > 0 && an.IsErrorType(res.At(res.Len()-1).Type())
				if !an.MustDo(g, isSig, 1, onlySucc, core.InModule) {
					continue
				}
				for _, real := range an.CallsTo(g, false, "internal/rsync.ReadyTarget.Signal") {
					if isSig(real.(ssa.Instruction)) {
						standIn[hc] = real
					}
				}
				if standIn[hc] != nil {
					sigs = append(sigs, hc)
					c.Touch(g)
				}
			}
		}
		if len(sigs) == 0 {
			c.Bad("C38.a", "WHO", k.method+":signals-fsmTarget", c.P.Pos(target.Pos()), k.desc+" never advance the FSM target a linearizable read waits on", nil)
			continue
		}
		ok := true
		why := ""
		for _, s := range sigs {
			owner := s.Parent()
			idxArg, idxHost := ssa.Value(nil), owner
			if real := standIn[s]; real != nil {
				idxArg, idxHost = real.Common().Args[1], real.Parent()
			} else {
				idxArg = s.Common().Args[1]
			}
			idxOK := k.idx(target)(idxArg) || k.idx(idxHost)(idxArg)
			if k.method == "(*FSM).StoreConfiguration" {
				idxOK = isParamN(target, 1)(idxArg)
			}
			if !idxOK {
				ok = false
				why = "the signalled index is " + an.Canon(idxArg) + ", not the entry's index"
			}
			if owner == target {
				// every successful return passes the signal
				sig := s
				if k.method == "(*FSM).Restore" {
					// only success returns matter
					for _, r := range an.SuccessReturns(target) {
						rr := r
						if len(an.Ungated(an.CutSpec{Fn: target, GateInstr: func(x ssa.Instruction) bool { return x == sig.(ssa.Instruction) }, Sink: func(x ssa.Instruction) bool { return x == ssa.Instruction(rr) }})) > 0 {
							ok = false
							why = "a successful return does not pass the signal"
						}
					}
				} else if len(an.Ungated(an.CutSpec{Fn: target, GateInstr: func(x ssa.Instruction) bool { return x == sig.(ssa.Instruction) }, Sink: func(x ssa.Instruction) bool { _, isR := x.(*ssa.Return); return isR }})) > 0 {
					ok = false
					why = "a return does not pass the signal"
				}
			} else {
				// in a closure: it must be deferred at function entry (before any return)
				deferred := false
				an.Instrs(target, func(x ssa.Instruction) {
					if d, isD := x.(*ssa.Defer); isD {
						if mc, isM := d.Call.Value.(*ssa.MakeClosure); isM && mc.Fn == ssa.Value(owner) {
							if len(an.Ungated(an.CutSpec{Fn: target, GateInstr: func(y ssa.Instruction) bool { return y == x }, Sink: func(y ssa.Instruction) bool { _, isR := y.(*ssa.Return); return isR }})) == 0 {
								deferred = true
							}
						}
					}
				})
				// and unconditional inside the closure
				uncond := len(an.Ungated(an.CutSpec{Fn: owner, GateInstr: func(x ssa.Instruction) bool { return x == s.(ssa.Instruction) }, Sink: func(x ssa.Instruction) bool { _, isR := x.(*ssa.Return); return isR }})) == 0
				if !deferred || !uncond {
					ok = false
					why = "the signal sits in a closure that is not deferred unconditionally"
				}
			}
		}
		if ok {
			covered++
		}
		c.Result(ok, "C38.a", "WHO", k.method+":signals-fsmTarget", c.P.Pos(sigs[0].Pos()), k.desc+" always advance the FSM target with their own index", k.desc+": "+why, nil)
	}
	c.Count("raft callbacks advancing the FSM target", covered)
	c.Min("raft callbacks advancing the FSM target", 2)

	// (3) Barrier has no production caller
	var callers []string
	for _, fn := range moduleFuncs(c) {
		for _, call := range an.CallsTo(fn, false, raftPkg+".Raft.Barrier") {
			_ = call
			callers = append(callers, core.FuncName(fn))
		}
	}
	sort.Strings(callers)
	okB := len(callers) == 0 || (len(callers) == 1 && callers[0] == "(*store.Store).Barrier")
	if okB && len(callers) == 1 {
		for _, fn := range moduleFuncs(c) {
			if len(an.CallsTo(fn, false, "store.Store.Barrier")) > 0 {
				okB = false
				callers = append(callers, core.FuncName(fn))
			}
		}
	}
	c.Result(okB, "C38.a", "WHO", "raft.Barrier:callers", "", "no production code issues a raft barrier (barrier entries have no FSM callback)",
		fmt.Sprintf("a barrier entry is issued by %v: it advances the commit index without any FSM callback, so a following linearizable read cannot complete until the next command", callers), nil)
}
