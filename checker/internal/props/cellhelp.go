package props

import (
	"go/token"

	"golang.org/x/tools/go/ssa"
)

// deCell resolves a load of a local cell that is stored exactly once (a local
// captured by a closure) to the stored value.
func deCell(v ssa.Value) ssa.Value {
	u, ok := v.(*ssa.UnOp)
	if !ok || u.Op != token.MUL {
		return v
	}
	al, ok := u.X.(*ssa.Alloc)
	if !ok {
		return v
	}
	var val ssa.Value
	n := 0
	for _, r := range *al.Referrers() {
		if st, ok := r.(*ssa.Store); ok && st.Addr == ssa.Value(al) {
			n++
			val = st.Val
		}
	}
	if n == 1 {
		return val
	}
	return v
}
