package props

import (
	"go/token"
	"strings"

	"golang.org/x/tools/go/ssa"

	"rqverif/checker/internal/an"
)

// callResult reports whether v is the result (or extracted result idx) of a
// call to one of ids; idx < 0 accepts any.
func callResult(v ssa.Value, idx int, ids ...string) bool {
	v = an.Unwrap(v)
	if e, ok := v.(*ssa.Extract); ok {
		if idx >= 0 && e.Index != idx {
			return false
		}
		v = e.Tuple
	}
	call, ok := v.(*ssa.Call)
	return ok && an.IsCall(call, ids...)
}

// errOf matches `<error result of call to ids> ==/!= nil`; variable is 1 when
// the error is nil (the call succeeded).
func errOf(name string, ids ...string) an.CondMatcher {
	return an.NilCond(name, func(v ssa.Value) bool { return callResult(v, -1, ids...) })
}

// anyErrNil matches `x == nil` / `x != nil` where x is the error-typed result
// of a call whose callee id has one of the given prefixes; variable = 1 when nil.
func errOfPrefix(name string, prefixes ...string) an.CondMatcher {
	return an.NilCond(name, func(v ssa.Value) bool {
		v = an.Unwrap(v)
		if e, ok := v.(*ssa.Extract); ok {
			v = e.Tuple
		}
		call, ok := v.(*ssa.Call)
		if !ok {
			return false
		}
		id := an.CalleeID(call)
		for _, p := range prefixes {
			if strings.HasPrefix(id, p) {
				return true
			}
		}
		return false
	})
}

// boolOf matches a condition that is the (idx-th) result of a call to ids.
func boolOf(name string, idx int, ids ...string) an.CondMatcher {
	return an.BoolCond(name, func(v ssa.Value) bool { return callResult(v, idx, ids...) })
}

// eqGlobal matches `x == G` / `x != G` where x is the result of a call to one
// of ids and G a package-level variable named global; variable `name` holds an
// enumerated result and want is the value meaning "x is G".
func eqGlobal(name string, want int, global string, ids ...string) an.CondMatcher {
	return func(cond ssa.Value) (func(an.Val) bool, bool) {
		b, ok := cond.(*ssa.BinOp)
		if !ok || (b.Op != token.EQL && b.Op != token.NEQ) {
			return nil, false
		}
		isG := func(v ssa.Value) bool {
			u, ok := an.Unwrap(v).(*ssa.UnOp)
			if !ok || u.Op != token.MUL {
				return false
			}
			g, ok := u.X.(*ssa.Global)
			return ok && g.Name() == global
		}
		isX := func(v ssa.Value) bool { return callResult(v, -1, ids...) }
		if !(isX(b.X) && isG(b.Y)) && !(isX(b.Y) && isG(b.X)) {
			return nil, false
		}
		eq := b.Op == token.EQL
		return func(v an.Val) bool { return (v[name] == want) == eq }, true
	}
}

// neNil matches `x != nil` / `x == nil` for x the result of a call to ids,
// where the enumerated variable is 0 exactly when x is nil.
func enumNil(name string, ids ...string) an.CondMatcher {
	return func(cond ssa.Value) (func(an.Val) bool, bool) {
		ev, ok := an.NilCond("_", func(v ssa.Value) bool { return callResult(v, -1, ids...) })(cond)
		if !ok {
			return nil, false
		}
		return func(v an.Val) bool {
			isNil := 0
			if v[name] == 0 {
				isNil = 1
			}
			return ev(an.Val{"_": isNil})
		}, true
	}
}

// errName renders an error-typed return value: nil, a package-level error
// variable's name, or "err(<callee>)" for the error of a call.
func errName(v ssa.Value) string {
	v = an.Unwrap(v)
	if an.IsNilConst(v) {
		return "nil"
	}
	if u, ok := v.(*ssa.UnOp); ok && u.Op == token.MUL {
		if g, ok := u.X.(*ssa.Global); ok {
			return g.Name()
		}
		if fa, ok := u.X.(*ssa.FieldAddr); ok {
			_, f, _, _ := an.FieldOf(fa)
			return "field:" + f
		}
	}
	if e, ok := v.(*ssa.Extract); ok {
		v = e.Tuple
	}
	if call, ok := v.(*ssa.Call); ok {
		id := an.CalleeID(call)
		if i := strings.LastIndex(id, "."); i >= 0 {
			id = id[i+1:]
		}
		return "err(" + id + ")"
	}
	return "err"
}

// lastErr renders the last result of a return.
func lastErr(r *ssa.Return, resolve func(ssa.Value) ssa.Value) string {
	if len(r.Results) == 0 {
		return ""
	}
	return errName(resolve(r.Results[len(r.Results)-1]))
}
