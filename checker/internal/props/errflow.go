package props

import (
	"go/token"

	"golang.org/x/tools/go/ssa"

	"rqverif/checker/internal/an"
)

// errReachesReturn reports whether the error result of call can reach a return
// value of the enclosing function: directly, through phis and interface
// conversions, through a local or named-result cell, or wrapped by a call that
// itself yields an error (fmt.Errorf and the like). A function without an error
// result cannot propagate: any use then counts (the caller reports it another
// way, e.g. an HTTP status).
func errReachesReturn(call *ssa.Call) bool {
	fn := call.Parent()
	res := fn.Signature.Results()
	hasErr := false
	for i := 0; i < res.Len(); i++ {
		if an.IsErrorType(res.At(i).Type()) {
			hasErr = true
		}
	}
	evs := an.ErrResult(call)
	if !hasErr {
		for _, ev := range evs {
			if refs := ev.Referrers(); refs != nil {
				for _, r := range *refs {
					if _, isDbg := r.(*ssa.DebugRef); !isDbg {
						return true
					}
				}
			}
		}
		return false
	}
	seen := map[ssa.Value]bool{}
	var work []ssa.Value
	push := func(v ssa.Value) {
		if v != nil && !seen[v] {
			seen[v] = true
			work = append(work, v)
		}
	}
	for _, ev := range evs {
		push(ev)
	}
	for len(work) > 0 {
		v := work[len(work)-1]
		work = work[:len(work)-1]
		refs := v.Referrers()
		if refs == nil {
			continue
		}
		for _, r := range *refs {
			switch x := r.(type) {
			case *ssa.Return:
				return true
			case *ssa.Phi:
				push(x)
			case *ssa.MakeInterface:
				push(x)
			case *ssa.ChangeInterface:
				push(x)
			case *ssa.ChangeType:
				push(x)
			case *ssa.Extract:
				push(x)
			case *ssa.TypeAssert:
				push(x)
			case *ssa.Slice:
				push(x) // variadic argument array
			case *ssa.Store:
				if x.Val != v {
					continue
				}
				switch a := x.Addr.(type) {
				case *ssa.Alloc:
					// a cell: every load of it, and a cell captured by a closure (a deferred
					// function may return it through a named result) counts as propagated
					for _, ar := range *a.Referrers() {
						switch y := ar.(type) {
						case *ssa.UnOp:
							if y.Op == token.MUL {
								push(y)
							}
						case *ssa.MakeClosure:
							return true
						}
					}
				case *ssa.IndexAddr:
					// element of a variadic argument array
					push(a.X)
					if al, ok := a.X.(*ssa.Alloc); ok {
						for _, ar := range *al.Referrers() {
							if sl, isSl := ar.(*ssa.Slice); isSl {
								push(sl)
							}
						}
					}
				case *ssa.FreeVar:
					return true // a named result or local of the enclosing function
				case *ssa.FieldAddr:
					return true // recorded in a structure (sticky error)
				}
			case *ssa.Call:
				// wrapped: the callee yields an error built from it
				if returnsError(x) {
					for _, ev := range an.ErrResult(x) {
						push(ev)
					}
					if an.IsErrorType(x.Type()) {
						push(x)
					}
				}
			case *ssa.Send:
				return true // handed to another goroutine
			}
		}
	}
	return false
}
