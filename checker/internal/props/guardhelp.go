package props

import (
	"fmt"
	"go/token"
	"sort"
	"strings"

	"golang.org/x/tools/go/ssa"

	"rqverif/checker/internal/an"
	"rqverif/checker/internal/core"
)

// guardCheck runs the lock-set rule on every method of a type. Private
// methods that are only called with the lock held are analysed with the lock
// held at entry (the weakest state over their call sites).
func guardCheck(c *core.Ctx, clause, pkgRel string, spec an.GuardSpec, minMethods int) {
	methods := an.MethodsOf(c.P.AllFunctions(), pkgRel, spec.TypeName)
	sort.Slice(methods, func(i, j int) bool { return methods[i].Name() < methods[j].Name() })
	// the vacuity floor counts the exported methods only: unexported helpers
	// come and go with refactors (inlining, extraction) without changing behaviour
	nExp := 0
	for _, m := range methods {
		if isExported(m.Name()) {
			nExp++
		}
	}
	c.Count("exported methods of "+spec.TypeName+" analysed for lock discipline", nExp)
	c.Min("exported methods of "+spec.TypeName+" analysed for lock discipline", minMethods)
	c.Count("methods of "+spec.TypeName+" analysed for lock discipline (all)", len(methods))
	byName := map[string]*ssa.Function{}
	for _, m := range methods {
		byName[m.Name()] = m
	}
	accesses := 0
	for _, m := range methods {
		c.Touch(m)
		for _, f := range an.WithClosures(m) {
			entry := 0
			vs := an.CheckGuard(f, spec, entry)
			if len(vs) > 0 && f == m {
				// weakest lock state over the call sites inside the type's methods
				weakest := -1
				for _, g := range methods {
					for _, gg := range an.WithClosures(g) {
						an.Instrs(gg, func(in ssa.Instruction) {
							ci, ok := in.(ssa.CallInstruction)
							if !ok {
								return
							}
							sc := ci.Common().StaticCallee()
							if sc == nil || (sc != m && (sc.Origin() == nil || sc.Origin() != m.Origin() || m.Origin() == nil) && sc.Name() != m.Name()) {
								return
							}
							if sc.Signature.Recv() == nil || !strings.Contains(sc.Signature.Recv().Type().String(), spec.TypeName) {
								return
							}
							if _, isDefer := in.(*ssa.Defer); isDefer {
								return
							}
							h := an.HeldAt(gg, spec, 0, in)
							if weakest < 0 || h < weakest {
								weakest = h
							}
						})
					}
				}
				if weakest > 0 && !isExported(m.Name()) {
					vs = an.CheckGuard(f, spec, weakest)
				}
			}
			an.Instrs(f, func(in ssa.Instruction) {
				if fa, ok := in.(*ssa.FieldAddr); ok {
					if t, fl, _, ok := an.FieldOf(fa); ok && t == spec.TypeName {
						for _, g := range spec.Fields {
							if g == fl {
								accesses++
							}
						}
					}
				}
			})
			for _, v := range vs {
				kind := "read"
				if v.Write {
					kind = "write"
				}
				held := []string{"not held", "held shared (RLock)", "held"}[v.Held]
				c.Bad(clause, "GUARD", fmt.Sprintf("%s.%s:%s:%s", spec.TypeName, f.Name(), v.Field, kind), c.P.Pos(v.Instr.Pos()),
					fmt.Sprintf("%s of %s.%s in %s with %s.%s %s", kind, spec.TypeName, v.Field, f.Name(), spec.TypeName, spec.Mutex, held), nil)
			}
		}
	}
	c.Sites += accesses
	c.Count("accesses to guarded fields of "+spec.TypeName, accesses)
	c.Min("accesses to guarded fields of "+spec.TypeName, 1)
	bad := false
	for _, o := range c.Obls {
		if o.Clause == clause && o.Rule == "GUARD" && o.Verdict == core.Violated && strings.HasPrefix(o.Key, clause+"/GUARD:"+spec.TypeName+".") {
			bad = true
		}
	}
	if !bad {
		c.OK(clause, "GUARD", spec.TypeName+":"+strings.Join(spec.Fields, ","), "", fmt.Sprintf("%d accesses in %d methods, all under %s.%s (writes exclusively)", accesses, len(methods), spec.TypeName, spec.Mutex))
	}
}

func isExported(name string) bool { return name != "" && name[0] >= 'A' && name[0] <= 'Z' }

// syncEffects labels lock operations, field stores, close(), Broadcast and
// Wait, for decision tables of the coordination primitives.
func syncEffects(typeName string) func(ssa.Instruction) (string, bool) {
	return func(in ssa.Instruction) (string, bool) {
		switch x := in.(type) {
		case *ssa.Call:
			id := an.CalleeID(x)
			switch id {
			case "sync.Mutex.Lock", "sync.RWMutex.Lock":
				return "lock", true
			case "sync.RWMutex.RLock":
				return "rlock", true
			case "sync.Mutex.Unlock", "sync.RWMutex.Unlock", "sync.RWMutex.RUnlock":
				return "unlock", true
			case "sync.Cond.Broadcast":
				return "broadcast", true
			case "sync.Cond.Signal":
				return "signal-one", true
			case "sync.Cond.Wait":
				return "wait", true
			case "builtin.close":
				return "close", true
			}
		case *ssa.Defer:
			id := an.DeferredCalleeID(x)
			if id == "sync.Mutex.Unlock" || id == "sync.RWMutex.Unlock" || id == "sync.RWMutex.RUnlock" {
				return "defer-unlock", true
			}
		case *ssa.Store:
			if t, f, _, ok := an.FieldOf(x.Addr); ok && t == typeName {
				return f + "=" + an.CanonPos(x.Val), true
			}
		case *ssa.Panic:
			return "panic", true
		}
		return "", false
	}
}

// strEmptyCond matches `x == ""` / `x != ""` for x satisfying pred; variable
// is 1 when x is the empty string.
func strEmptyCond(name string, pred func(ssa.Value) bool) an.CondMatcher {
	return func(cond ssa.Value) (func(an.Val) bool, bool) {
		b, ok := cond.(*ssa.BinOp)
		if !ok || (b.Op != token.EQL && b.Op != token.NEQ) {
			return nil, false
		}
		var x ssa.Value
		if s, ok := an.ConstString(b.Y); ok && s == "" {
			x = b.X
		} else if s, ok := an.ConstString(b.X); ok && s == "" {
			x = b.Y
		} else {
			return nil, false
		}
		if !pred(x) {
			return nil, false
		}
		eq := b.Op == token.EQL
		return func(v an.Val) bool { return (v[name] == 1) == eq }, true
	}
}

// cmpConst matches a comparison of a value satisfying pred with integer
// constant k; variable holds sign(x-k) restricted to its declared domain.
func cmpConst(name string, pred func(ssa.Value) bool, k int64) an.CondMatcher {
	return an.CmpCond(name, pred, an.IsConstInt(k))
}
