package props

import (
	"sort"
	"sync"

	"golang.org/x/tools/go/ssa"

	"rqverif/checker/internal/an"
	"rqverif/checker/internal/core"
)

// Who-may-call rules name the functions accountable for an action. An
// unexported helper that is only ever called directly (never used as a value,
// never started as a goroutine) is not accountable by itself: extracting a few
// statements into such a helper, or inlining one, does not change who performs
// the action. ownersOf attributes a helper to its static callers, transitively.

type callIndex struct {
	callers   map[*ssa.Function][]*ssa.Function // callee → top-level callers (static calls, incl. from closures)
	addrTaken map[*ssa.Function]bool
}

var (
	callIdxMu sync.Mutex
	callIdx   = map[*core.Program]*callIndex{}
)

func indexOf(c *core.Ctx) *callIndex {
	callIdxMu.Lock()
	defer callIdxMu.Unlock()
	if ix, ok := callIdx[c.P]; ok {
		return ix
	}
	ix := &callIndex{callers: map[*ssa.Function][]*ssa.Function{}, addrTaken: map[*ssa.Function]bool{}}
	var fns []*ssa.Function
	seenFn := map[*ssa.Function]bool{}
	for _, fn := range moduleFuncs(c) {
		if !seenFn[fn] {
			seenFn[fn] = true
			fns = append(fns, fn)
		}
	}
	// instantiations of generic functions and methods are not package members
	for fn := range c.P.AllFunctions() {
		if !seenFn[fn] && core.InModule(fn) && len(fn.Blocks) > 0 && fn.Synthetic == "" {
			seenFn[fn] = true
			fns = append(fns, fn)
		}
	}
	for _, fn := range fns {
		top := an.TopFunc(fn)
		an.Instrs(fn, func(in ssa.Instruction) {
			var callee *ssa.Function
			if ci, ok := in.(ssa.CallInstruction); ok {
				if _, isGo := in.(*ssa.Go); !isGo {
					callee = ci.Common().StaticCallee()
					if callee != nil && ci.Common().IsInvoke() {
						callee = nil
					}
				}
				if callee != nil {
					// a call of a closure literal is not a call of a named helper
					if _, isMC := ci.Common().Value.(*ssa.MakeClosure); isMC {
						callee = nil
					}
				}
				if callee != nil {
					ix.callers[originOf(callee)] = append(ix.callers[originOf(callee)], originOf(top))
				}
			}
			// any other appearance of a function value takes its address
			for _, op := range in.Operands(nil) {
				if *op == nil {
					continue
				}
				f, isF := (*op).(*ssa.Function)
				if !isF {
					if mc, isMC := (*op).(*ssa.MakeClosure); isMC {
						f, _ = mc.Fn.(*ssa.Function)
						if f != nil && f.Parent() != nil {
							continue // an ordinary function literal
						}
					} else {
						continue
					}
				}
				if f == nil {
					continue
				}
				if ci, ok := in.(ssa.CallInstruction); ok && ci.Common().Value == *op {
					if _, isGo := in.(*ssa.Go); !isGo {
						continue // in call position
					}
				}
				// bound-method wrappers stand for the method
				if f.Synthetic != "" {
					continue
				}
				ix.addrTaken[originOf(f)] = true
			}
		})
	}
	callIdx[c.P] = ix
	return ix
}

func isHelperName(fn *ssa.Function) bool {
	n := fn.Name()
	return n != "" && !(n[0] >= 'A' && n[0] <= 'Z') && n != "init" && n != "main"
}

// ownersOf returns the accountable functions for fn (see above), as top-level functions.
func ownersOf(c *core.Ctx, fn *ssa.Function) []*ssa.Function {
	ix := indexOf(c)
	seen := map[*ssa.Function]bool{}
	out := map[*ssa.Function]bool{}
	var walk func(f *ssa.Function, depth int)
	walk = func(f *ssa.Function, depth int) {
		f = originOf(an.TopFunc(f))
		if seen[f] {
			return
		}
		seen[f] = true
		cs := ix.callers[f]
		if depth >= 4 || !isHelperName(f) || ix.addrTaken[f] || len(cs) == 0 || !core.InModule(f) {
			out[f] = true
			return
		}
		for _, cl := range cs {
			if cl == f {
				continue
			}
			walk(cl, depth+1)
		}
	}
	walk(fn, 0)
	var res []*ssa.Function
	for f := range out {
		res = append(res, f)
	}
	sort.Slice(res, func(i, j int) bool { return core.FuncName(res[i]) < core.FuncName(res[j]) })
	return res
}

// ownerNames: core.FuncName of the owners.
func ownerNames(c *core.Ctx, fn *ssa.Function) []string {
	var out []string
	for _, f := range ownersOf(c, fn) {
		out = append(out, core.FuncName(f))
	}
	return out
}

// accountable resolves fn against a rule's list of reviewed functions: fn
// itself when it is reviewed (or is not a liftable helper), otherwise the
// accountable functions of its static callers. Names are core.FuncName.
func accountable(c *core.Ctx, fn *ssa.Function, reviewed func(name string) bool) []string {
	ix := indexOf(c)
	seen := map[*ssa.Function]bool{}
	out := map[string]bool{}
	var walk func(f *ssa.Function, depth int)
	walk = func(f *ssa.Function, depth int) {
		f = originOf(an.TopFunc(f))
		if seen[f] {
			return
		}
		seen[f] = true
		name := core.FuncName(f)
		cs := ix.callers[f]
		if reviewed(name) || depth >= 4 || !isHelperName(f) || ix.addrTaken[f] || len(cs) == 0 || !core.InModule(f) {
			out[name] = true
			return
		}
		for _, cl := range cs {
			if cl != f {
				walk(cl, depth+1)
			}
		}
	}
	walk(fn, 0)
	var res []string
	for n := range out {
		res = append(res, n)
	}
	sort.Strings(res)
	return res
}

// originOf maps an instantiation of a generic function to the generic function.
func originOf(f *ssa.Function) *ssa.Function {
	if f == nil {
		return nil
	}
	if o := f.Origin(); o != nil {
		return o
	}
	return f
}

// SetStepPolicy installs the DECIDE interpreter's stepping policy for this
// program: unexported, never-address-taken functions with exactly one call site.
func SetStepPolicy(c *core.Ctx) {
	ix := indexOf(c)
	an.StepPolicy = func(g *ssa.Function) bool {
		g = originOf(g)
		if !isHelperName(g) || ix.addrTaken[g] || !core.InModule(g) {
			return false
		}
		// every call site lies in one function (an extracted block may be used more than once there)
		cs := ix.callers[g]
		if len(cs) == 0 || len(cs) > 4 {
			return false
		}
		for _, x := range cs {
			if x != cs[0] {
				return false
			}
		}
		return true
	}
	// the interpreter's second view may also step into a small private helper
	// that several functions share (a sequence factored out of sibling
	// functions): inlining it is the same code whoever else calls it
	an.DecideStepPolicy = func(g *ssa.Function) bool {
		g = originOf(g)
		if !isHelperName(g) || ix.addrTaken[g] || !core.InModule(g) {
			return false
		}
		cs := ix.callers[g]
		return len(cs) > 0 && len(cs) <= 8 && len(g.Blocks) <= 24
	}
}

// anchorCalls finds the calls of ids in fn. When fn has none, a call of a
// private helper with all its call sites in one function (the step policy) that
// may perform such a call stands in for it: an extract-function refactor moved
// the anchor, the helper's call site is where it now happens. Rules that gate,
// order or pair by the identity of the anchor instruction work unchanged on
// the stand-in; its error result is the helper's.
func anchorCalls(fn *ssa.Function, ids ...string) []ssa.CallInstruction {
	direct := an.CallsTo(fn, false, ids...)
	if len(direct) > 0 || an.StepPolicy == nil {
		return direct
	}
	var out []ssa.CallInstruction
	for _, call := range an.AllCalls(fn, false) {
		if _, isGo := call.(*ssa.Go); isGo {
			continue
		}
		g := call.Common().StaticCallee()
		if g == nil || g == fn || len(g.Blocks) == 0 || !an.StepPolicy(g) {
			continue
		}
		if an.MayDo(g, func(in ssa.Instruction) bool { return an.IsCall(in, ids...) }, 2, core.InModule) {
			out = append(out, call)
		}
	}
	return out
}

// hostOf returns fn when has(fn) holds, otherwise the private helper (step
// policy, called from fn, up to two levels) for which it holds — the function
// that now hosts a block moved out of fn — or nil.
func hostOf(fn *ssa.Function, has func(*ssa.Function) bool) *ssa.Function {
	if fn == nil || has(fn) {
		return fn
	}
	if an.StepPolicy == nil {
		return nil
	}
	seen := map[*ssa.Function]bool{fn: true}
	level := []*ssa.Function{fn}
	for depth := 0; depth < 2; depth++ {
		var next []*ssa.Function
		for _, f := range level {
			for _, call := range an.AllCalls(f, true) {
				g := call.Common().StaticCallee()
				if g == nil || seen[g] || len(g.Blocks) == 0 || !an.StepPolicy(g) {
					continue
				}
				seen[g] = true
				if has(g) {
					return g
				}
				next = append(next, g)
			}
		}
		level = next
	}
	return nil
}

// successImplies: every successful return of the private helper h lies behind
// the nil edge of a call of one of ids made in h — "h succeeded" implies "that
// call succeeded".
func successImplies(h *ssa.Function, ids ...string) bool {
	if h == nil || len(h.Blocks) == 0 || an.StepPolicy == nil || !an.StepPolicy(h) {
		return false
	}
	edges := map[an.Edge]bool{}
	for _, call := range an.CallsTo(h, false, ids...) {
		for e := range an.SenseEdges(h, an.ErrResult(call), an.IsNil) {
			edges[e] = true
		}
	}
	if len(edges) == 0 {
		return false
	}
	succ := an.SuccessReturns(h)
	if len(succ) == 0 {
		return false
	}
	for _, r := range succ {
		ret := r
		// `return inner()` hands the inner call's verdict on
		if v := ret.Results[len(ret.Results)-1]; len(ret.Results) > 0 {
			if call, ok := v.(*ssa.Call); ok && an.IsCall(call, ids...) {
				continue
			}
		}
		if len(an.Ungated(an.CutSpec{Fn: h, GateEdge: edges, NoLift: true, Sink: func(in ssa.Instruction) bool { return in == ssa.Instruction(ret) }})) > 0 {
			return false
		}
	}
	return true
}

// c01viaCaller: fn is a private helper (all call sites in one function F) that
// hands statements to replication; F runs sql.Process on a slice and passes that
// slice to fn, and fn sends exactly the parameter it received.
func c01viaCaller(c *core.Ctx, fn *ssa.Function, sink ssa.CallInstruction) bool {
	if an.StepPolicy == nil || !an.StepPolicy(fn) {
		return false
	}
	ix := indexOf(c)
	cs := ix.callers[originOf(fn)]
	if len(cs) == 0 {
		return false
	}
	F := cs[0]
	procs := an.CallsTo(F, false, "command/sql.Process")
	if len(procs) == 0 {
		return false
	}
	stmts := an.Unwrap(procs[0].Common().Args[0])
	var noParse []ssa.Value
	for _, np := range an.CallsTo(F, false, "http.QueryParams.NoParse") {
		noParse = append(noParse, np.Value())
	}
	bypass := an.SenseEdges(F, noParse, an.IsTrue)
	okAll := false
	for _, call := range an.AllCalls(F, false) {
		if call.Common().StaticCallee() != fn {
			continue
		}
		ci := call.(ssa.Instruction)
		if len(an.Ungated(an.CutSpec{Fn: F, GateEdge: bypass, NoLift: true,
			GateInstr: func(in ssa.Instruction) bool { return an.IsCall(in, "command/sql.Process") },
			Sink:      func(in ssa.Instruction) bool { return in == ci }})) > 0 {
			return false
		}
		// which parameter of fn receives the processed slice
		pidx := -1
		for i, a := range call.Common().Args {
			if an.Unwrap(a) == stmts {
				pidx = i
			}
		}
		if pidx < 0 || pidx >= len(fn.Params) {
			return false
		}
		p := ssa.Value(fn.Params[pidx])
		same := false
		if an.IsCall(sink.(ssa.Instruction), "queue.Queue.Write") {
			same = an.Unwrap(sink.Common().Args[1]) == p
		} else {
			an.Instrs(fn, func(in ssa.Instruction) {
				if st, ok := in.(*ssa.Store); ok && an.Unwrap(st.Val) == p {
					if t, f, _, ok := an.FieldOf(st.Addr); ok && t == "Request" && f == "Statements" {
						same = true
					}
				}
			})
		}
		if !same {
			return false
		}
		okAll = true
	}
	return okAll
}

// successBehind: every successful return of the private helper h lies behind
// one of the edges edgesOf(h) — "h succeeded" implies the tested fact.
func successBehind(h *ssa.Function, edgesOf func(*ssa.Function) map[an.Edge]bool) bool {
	if h == nil || len(h.Blocks) == 0 || an.StepPolicy == nil || !an.StepPolicy(h) {
		return false
	}
	edges := edgesOf(h)
	if len(edges) == 0 {
		return false
	}
	succ := an.SuccessReturns(h)
	if len(succ) == 0 {
		return false
	}
	for _, r := range succ {
		ret := r
		if len(an.Ungated(an.CutSpec{Fn: h, GateEdge: edges, NoLift: true, Sink: func(in ssa.Instruction) bool { return in == ssa.Instruction(ret) }})) > 0 {
			return false
		}
	}
	return true
}
