package props

import (
	"go/types"
	"strings"

	"golang.org/x/tools/go/ssa"

	"rqverif/checker/internal/an"
	"rqverif/checker/internal/core"
)

// OWN rule: memory owned by a sync.Pool object must not escape from a function
// that puts the object back. A slice obtained from a pooled buffer
// (bytes.Buffer.Bytes and friends) aliases the buffer; if the function returns
// it — directly or inside a value it returns — after Put (deferred or not),
// the next user of the pooled object overwrites what the caller holds.
//
// poolEscapes reports, for fn, the Put call and the escaping instruction.
func poolEscapes(fn *ssa.Function) (put ssa.Instruction, escape ssa.Instruction) {
	// pooled objects: results of sync.Pool.Get (through the type assertion)
	pooled := map[ssa.Value]bool{}
	an.Instrs(fn, func(in ssa.Instruction) {
		call, ok := in.(*ssa.Call)
		if !ok || !an.IsCall(call, "sync.Pool.Get") {
			return
		}
		pooled[call] = true
		for _, r := range *call.Referrers() {
			switch x := r.(type) {
			case *ssa.TypeAssert:
				pooled[x] = true
				for _, rr := range *x.Referrers() {
					if ex, isEx := rr.(*ssa.Extract); isEx && ex.Index == 0 {
						pooled[ex] = true
					}
				}
			}
		}
	})
	if len(pooled) == 0 {
		return nil, nil
	}
	an.Instrs(fn, func(in ssa.Instruction) {
		ci, ok := in.(ssa.CallInstruction)
		if !ok || !an.IsCall(in, "sync.Pool.Put") {
			return
		}
		for _, a := range ci.Common().Args {
			if an.Mentions(a, func(v ssa.Value) bool { return pooled[v] }) {
				put = in
			}
		}
	})
	if put == nil {
		return nil, nil
	}
	fromPool := func(v ssa.Value) bool { return an.Mentions(v, func(x ssa.Value) bool { return pooled[x] }) }
	// aliases: slices handed out by a pooled object
	tainted := map[ssa.Value]bool{}
	var work []ssa.Value
	an.Instrs(fn, func(in ssa.Instruction) {
		call, ok := in.(*ssa.Call)
		if !ok || len(call.Call.Args) == 0 {
			return
		}
		id := an.CalleeID(call)
		if !(strings.HasSuffix(id, ".Bytes") || strings.HasSuffix(id, ".Next") || strings.HasSuffix(id, ".AvailableBuffer")) {
			return
		}
		if _, isSlice := call.Type().Underlying().(*types.Slice); !isSlice {
			return
		}
		if fromPool(call.Call.Args[0]) {
			tainted[call] = true
			work = append(work, call)
		}
	})
	holders := map[ssa.Value]bool{} // allocations that hold an alias
	for len(work) > 0 {
		v := work[0]
		work = work[1:]
		refs := v.Referrers()
		if refs == nil {
			continue
		}
		for _, r := range *refs {
			switch x := r.(type) {
			case *ssa.Return:
				escape = x
				return
			case *ssa.Slice, *ssa.Phi, *ssa.ChangeType, *ssa.MakeInterface:
				xv := x.(ssa.Value)
				if !tainted[xv] {
					tainted[xv] = true
					work = append(work, xv)
				}
			case *ssa.UnOp:
				// a load from a cell that holds the alias (a result cell spilled because of a defer)
				if _, isHolder := v.(*ssa.Alloc); isHolder && x.X == v && !tainted[x] {
					tainted[x] = true
					work = append(work, x)
				}
			case *ssa.Convert:
				// []byte → string copies
				if _, toSlice := x.Type().Underlying().(*types.Slice); toSlice && !tainted[x] {
					tainted[x] = true
					work = append(work, x)
				}
			case *ssa.Call:
				// append(alias, …) may return the alias's array; append(other, alias...) copies
				if b, isB := x.Call.Value.(*ssa.Builtin); isB && b.Name() == "append" && len(x.Call.Args) > 0 && x.Call.Args[0] == v && !tainted[x] {
					tainted[x] = true
					work = append(work, x)
				}
				// library functions that return a sub-slice of their first argument
				switch an.CalleeID(x) {
				case "bytes.TrimRight", "bytes.TrimLeft", "bytes.Trim", "bytes.TrimSpace", "bytes.TrimSuffix", "bytes.TrimPrefix", "bytes.TrimFunc", "bytes.TrimRightFunc", "bytes.TrimLeftFunc":
					if len(x.Call.Args) > 0 && x.Call.Args[0] == v && !tainted[x] {
						tainted[x] = true
						work = append(work, x)
					}
				}
			case *ssa.Store:
				if x.Val != v {
					continue
				}
				// stored into a field/element of a local object: the object now holds the alias
				base := x.Addr
				for {
					switch b := base.(type) {
					case *ssa.FieldAddr:
						base = b.X
						continue
					case *ssa.IndexAddr:
						base = b.X
						continue
					}
					break
				}
				if al, isAl := base.(*ssa.Alloc); isAl && !holders[al] {
					holders[al] = true
					tainted[al] = true
					work = append(work, al)
				}
			}
		}
	}
	return put, nil
}

// checkPoolOwnership applies the OWN rule to the given functions.
func checkPoolOwnership(c *core.Ctx, clause string, fns []*ssa.Function, consequence string) int {
	n := 0
	for _, fn := range fns {
		put, esc := poolEscapes(fn)
		if put == nil {
			continue
		}
		n++
		c.Sites++
		c.Touch(fn)
		name := core.FuncName(fn)
		if esc == nil {
			c.OK(clause, "OWN", name+":pooled-memory-escapes", c.P.Pos(put.Pos()), "no slice of the pooled object is returned after it is put back")
			continue
		}
		pos := c.P.Pos(esc.Pos())
		if len(pos) < 3 {
			pos = c.P.Pos(put.Pos())
		}
		c.Bad(clause, "OWN", name+":pooled-memory-escapes", pos,
			name+" returns (directly or inside the value it returns) a slice that aliases an object it puts back into a sync.Pool: the next user of the pooled object overwrites the bytes the caller still holds — "+consequence, nil)
	}
	return n
}
