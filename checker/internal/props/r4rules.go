package props

import (
	"fmt"
	"go/ast"
	"sort"

	"golang.org/x/tools/go/ssa"

	"rqverif/checker/internal/an"
	"rqverif/checker/internal/core"
)

// c07g: NewStore resumes an interrupted plan (Store.check) before anything
// reads the catalogue: a directory that a crash left half-reaped is valid
// input for the resume and an error for a scan.
func c07g(c *core.Ctx) {
	fn := c.Fn("C07.g", "snapshot", "NewStore")
	if fn == nil {
		return
	}
	checks := an.CallsTo(fn, false, "snapshot.Store.check")
	if len(checks) == 0 {
		c.Bad("C07.g", "ORD", "NewStore:check-before-scan", c.P.Pos(fn.Pos()), "NewStore does not call Store.check: an interrupted reap or upgrade is never resumed", nil)
		return
	}
	chk := checks[0].(ssa.Instruction)
	scans := func(in ssa.Instruction) bool {
		return an.IsCall(in, "snapshot.Store.getSnapshots", "snapshot.SnapshotCatalog.Scan", "snapshot.Store.List", "snapshot.Store.ListAll", "snapshot.Store.Len", "snapshot.Store.snapshotCount")
	}
	h := an.Ungated(an.CutSpec{Fn: fn, GateInstr: func(in ssa.Instruction) bool { return in == chk }, LiftSinks: true, Sink: scans})
	c.Sites++
	c.Result(len(h) == 0, "C07.g", "ORD", "NewStore:check-before-scan", c.P.Pos(chk.Pos()),
		"the store resumes a persisted plan before it scans its directory",
		"NewStore scans the snapshot directory before Store.check has resumed a persisted plan: the half-reaped layout a crash leaves (a snapshot directory whose files were already consolidated) fails the scan, and the store refuses to open on every start instead of finishing the plan", nil)
}

// c09g: whether a full snapshot is needed is what the FULL_NEEDED file says:
// DueNext tests that path. A copy of the flag kept anywhere else has to be
// re-established on every start; the file is the only state that survives one.
func c09g(c *core.Ctx) {
	fn := c.Fn("C09.g", "snapshot", "(*Store).DueNext")
	if fn == nil {
		return
	}
	tests := 0
	for _, f := range append([]*ssa.Function{fn}, stepHelpersOf(fn)...) {
		for _, call := range an.AllCalls(f, false) {
			id := an.CalleeID(call)
			if id != "internal/fsutil.FileExists" && id != "os.Stat" && id != "os.Lstat" && id != "internal/fsutil.PathExists" {
				continue
			}
			for _, a := range call.Common().Args {
				if an.LoadedField(an.Unwrap(a), "Store", "fullNeededPath") {
					tests++
				}
			}
		}
	}
	c.Sites++
	c.Result(tests > 0, "C09.g", "CONST", "Store.DueNext:reads-the-flag-file", c.P.Pos(fn.Pos()),
		"DueNext answers from the presence of the FULL_NEEDED file",
		"Store.DueNext no longer tests the FULL_NEEDED file: a full-needed requirement recorded before a restart is forgotten (an in-memory copy starts empty), and the next snapshot is accepted as an incremental on top of a chain it does not belong to", nil)
}

// c19c: the credentials the store answers for are the ones written in the
// file: what NewCredentialsStoreFromFile hands to Load is the file's content,
// carried (file handle, byte/string conversions, readers over the bytes) but
// not rewritten — no call that can change the text (environment expansion,
// replacement, trimming, case folding) lies between the file and the decoder.
func c19c(c *core.Ctx) {
	fn := c.Fn("C19.c", "auth", "NewCredentialsStoreFromFile")
	if fn == nil {
		return
	}
	loads := an.CallsTo(fn, false, "auth.CredentialsStore.Load")
	c.Count("Load calls in NewCredentialsStoreFromFile", len(loads))
	c.Min("Load calls in NewCredentialsStoreFromFile", 1)
	carriers := map[string]bool{"strings.NewReader": true, "bytes.NewReader": true, "bytes.NewBuffer": true, "bytes.NewBufferString": true, "bufio.NewReader": true, "io.NopCloser": true, "io.LimitReader": true}
	sources := map[string]bool{"os.Open": true, "os.ReadFile": true, "os.OpenFile": true, "io.ReadAll": true}
	for i, ld := range loads {
		args := ld.Common().Args
		bad := ""
		fromFile := false
		seen := map[ssa.Value]bool{}
		var walk func(v ssa.Value)
		walk = func(v ssa.Value) {
			if v == nil || seen[v] || bad != "" {
				return
			}
			seen[v] = true
			switch x := v.(type) {
			case *ssa.MakeInterface:
				walk(x.X)
			case *ssa.ChangeInterface:
				walk(x.X)
			case *ssa.ChangeType:
				walk(x.X)
			case *ssa.Convert:
				walk(x.X)
			case *ssa.Phi:
				for _, e := range x.Edges {
					walk(e)
				}
			case *ssa.Extract:
				walk(x.Tuple)
			case *ssa.Call:
				id := an.CalleeID(x)
				switch {
				case sources[id]:
					fromFile = true
					if id == "io.ReadAll" {
						walk(x.Call.Args[0])
					}
				case carriers[id]:
					walk(x.Call.Args[0])
				default:
					bad = id
				}
			case *ssa.UnOp:
				walk(x.X)
			case *ssa.Alloc:
				for _, r := range *x.Referrers() {
					if st, ok := r.(*ssa.Store); ok && st.Addr == ssa.Value(x) {
						walk(st.Val)
					}
				}
			case *ssa.Const, *ssa.Parameter:
				// a literal or the caller's value: not the file
			default:
				bad = fmt.Sprintf("%T", v)
			}
		}
		walk(args[len(args)-1])
		c.Sites++
		c.Result(bad == "" && fromFile, "C19.c", "TAINT", fmt.Sprintf("NewCredentialsStoreFromFile:Load#%d:file-content-unmodified", i+1), c.P.Pos(ld.Pos()),
			"Load parses the content of the credentials file as it is on disk",
			"what NewCredentialsStoreFromFile hands to Load is not the file's content as written (it passes through "+bad+"): user names, passwords or permissions that contain the rewritten characters no longer match what the operator configured — the configured password is refused and a different text is accepted", nil)
	}
}

// qpReadsOnly: the QueryParams getter named method reads exactly the request
// parameter key (directly or through HasKey) and asks no other getter. Each
// getter of http.QueryParams stands for one documented parameter; a getter
// whose answer also depends on another parameter silently changes what that
// other parameter's absence or value means for every caller.
func qpReadsOnly(c *core.Ctx, clause, method, key, badMsg string) {
	fn := c.Fn(clause, "http", "QueryParams."+method)
	if fn == nil {
		return
	}
	keys := map[string]bool{}
	others := map[string]bool{}
	for _, f := range an.WithClosures(fn) {
		an.Instrs(f, func(in ssa.Instruction) {
			switch x := in.(type) {
			case *ssa.Lookup:
				if s, ok := an.ConstString(x.Index); ok {
					keys[s] = true
				} else {
					keys["<non-constant>"] = true
				}
			case ssa.CallInstruction:
				id := an.CalleeID(x)
				if id == "http.QueryParams.HasKey" {
					args := x.Common().Args
					if s, ok := an.ConstString(args[len(args)-1]); ok {
						keys[s] = true
					} else {
						keys["<non-constant>"] = true
					}
				} else if len(id) > len("http.QueryParams.") && id[:len("http.QueryParams.")] == "http.QueryParams." {
					name := id[len("http.QueryParams."):]
					// an unexported lookup helper shared by the getters (durationOr(key, def), …):
					// the constant strings it is handed are the parameters read
					g := x.Common().StaticCallee()
					if g != nil && !ast.IsExported(name) {
						consts := 0
						for _, a := range x.Common().Args {
							if s, ok := an.ConstString(a); ok {
								keys[s] = true
								consts++
							}
						}
						if consts == 0 {
							keys["<non-constant>"] = true
						}
						// the helper itself must not look at any other fixed parameter
						for _, hf := range an.WithClosures(g) {
							an.Instrs(hf, func(hin ssa.Instruction) {
								switch y := hin.(type) {
								case *ssa.Lookup:
									if s, ok := an.ConstString(y.Index); ok {
										keys[s] = true
									}
								case ssa.CallInstruction:
									hid := an.CalleeID(y)
									if hid == "http.QueryParams.HasKey" {
										if s, ok := an.ConstString(y.Common().Args[len(y.Common().Args)-1]); ok {
											keys[s] = true
										}
									} else if len(hid) > len("http.QueryParams.") && hid[:len("http.QueryParams.")] == "http.QueryParams." && ast.IsExported(hid[len("http.QueryParams."):]) {
										others[hid[len("http.QueryParams."):]] = true
									}
								}
							})
						}
					} else {
						others[name] = true
					}
				}
			}
		})
	}
	ks, os := sortedKeys(keys), sortedKeys(others)
	c.Sites++
	c.Result(len(ks) == 1 && ks[0] == key && len(os) == 0, clause, "TABLE", "QueryParams."+method+":reads-only-"+key, c.P.Pos(fn.Pos()),
		"QueryParams."+method+" reads the "+key+" parameter only",
		fmt.Sprintf("QueryParams.%s reads parameters %v and asks the getters %v instead of the %s parameter alone: %s", method, ks, os, key, badMsg), nil)
}

func sortedKeys(m map[string]bool) []string {
	out := make([]string, 0, len(m))
	for k := range m {
		out = append(out, k)
	}
	sort.Strings(out)
	return out
}

// c26d: the FIFO relies on bbolt iterating its keys in index order (First, Seek,
// Next, range deletes): bbolt compares keys bytewise, which is numeric order
// only for fixed-width big-endian integers. Every integer ↔ key conversion in
// package cdc is big-endian.
func c26d(c *core.Ctx) {
	sp := c.P.SPkg("cdc")
	if sp == nil {
		return
	}
	big := 0
	for _, fn := range pkgFuncs(sp) {
		for _, ci := range an.AllCalls(fn, false) {
			id := an.CalleeID(ci)
			if len(id) < len("encoding/binary.") || id[:len("encoding/binary.")] != "encoding/binary." {
				continue
			}
			switch {
			case len(id) > 26 && id[:26] == "encoding/binary.bigEndian.":
				big++
			case len(id) > 29 && id[:29] == "encoding/binary.littleEndian.":
				c.Bad("C26.d", "CONST", core.FuncName(fn)+":key-byte-order", c.P.Pos(ci.Pos()),
					core.FuncName(fn)+" converts an index to or from a bbolt key little-endian: bbolt orders keys bytewise, so indexes that differ in a higher byte (255 and 256) are stored out of numeric order — FirstKey, the read cursor and DeleteRange then skip, reorder or keep the wrong items", nil)
			default:
				if cc := ci.Common(); cc.IsInvoke() {
					c.Bad("C26.d", "CONST", core.FuncName(fn)+":key-byte-order", c.P.Pos(ci.Pos()), core.FuncName(fn)+" converts an index with a byte order chosen at run time", nil)
				}
			}
		}
	}
	c.Count("big-endian key conversions in package cdc", big)
	c.Min("big-endian key conversions in package cdc", 2)
	if big >= 2 {
		c.OK("C26.d", "CONST", "cdc:key-byte-order", "", "indexes are converted to bbolt keys big-endian (bytewise order = numeric order)")
	}
}

// c27c: the column names of a changed row are looked up from inside the commit
// hook; an event whose lookup fails is delivered without its before/after
// images. Nothing on that path gives the lookup a deadline of its own (the only
// way it can fail while the table exists is by being cut short).
func c27c(c *core.Ctx) {
	hook := c.Fn("C27.e", "db", "(*CDCStreamer).CommitHook")
	if hook == nil {
		return
	}
	roots := []*ssa.Function{hook}
	if cn := c.P.Func("db", "(*DB).ColumnNames"); cn != nil && len(cn.Blocks) > 0 {
		roots = append(roots, cn)
	} else {
		c.Unk("C27.e", "ANCHOR", "db.(*DB).ColumnNames", "", "anchor function not found")
		return
	}
	n := 0
	for _, fn := range roots {
		for _, f := range an.WithClosures(fn) {
			c.Touch(f)
			for _, ci := range an.AllCalls(f, false) {
				n++
				if an.IsCall(ci.(ssa.Instruction), "context.WithTimeout", "context.WithDeadline") {
					c.Bad("C27.e", "CONST", core.FuncName(f)+":no-deadline-on-column-lookup", c.P.Pos(ci.Pos()),
						core.FuncName(f)+" puts a deadline on the column-name lookup the commit hook depends on: when the read pool is busy for longer the lookup fails, and the events of a write that committed normally are delivered without column names and row images", nil)
				}
			}
		}
	}
	c.Count("calls on the commit hook's column lookup path", n)
	c.Min("calls on the commit hook's column lookup path", 3)
	ok := true
	for _, o := range c.Obls {
		if o.Clause == "C27.e" && o.Verdict != core.Discharged {
			ok = false
		}
	}
	if ok {
		c.OK("C27.e", "CONST", "CommitHook:column-lookup-has-no-deadline", c.P.Pos(hook.Pos()), "the column-name lookup of the commit hook runs without a deadline of its own")
	}
}

// c36e: the throttle wait is bounded by the caller's context, and a request
// whose context ended while it waited is not written: from every call of
// Throttler.Delay in the store's write paths, each path to the consensus step
// passes the nil edge of Delay's own error or of a ctx.Err() test made after
// the wait.
func c36e(c *core.Ctx) {
	n := 0
	for _, name := range []string{"(*Store).Execute", "(*Store).Request"} {
		fn := c.Fn("C36.e", "store", name)
		if fn == nil {
			continue
		}
		for i, d := range an.CallsTo(fn, false, "store/throttler.Throttler.Delay") {
			n++
			gate := an.SenseEdges(fn, an.ErrResult(d), an.IsNil)
			for _, e := range an.CallsTo(fn, false, "context.Context.Err") {
				for ed := range an.SenseEdges(fn, []ssa.Value{e.Value()}, an.IsNil) {
					gate[ed] = true
				}
			}
			h := an.Ungated(an.CutSpec{Fn: fn, Start: d.(ssa.Instruction), GateEdge: gate, LiftSinks: true,
				Sink: func(in ssa.Instruction) bool {
					return an.IsCall(in, "store.Store.execute", "github.com/hashicorp/raft.Raft.Apply")
				}})
			c.Sites++
			c.Result(len(h) == 0, "C36.e", "ORD", fmt.Sprintf("%s:Delay#%d:context-checked-after-wait", name, i+1), c.P.Pos(d.Pos()),
				"after the throttle wait the request goes on only if the wait (or a later ctx.Err test) reports the context still live",
				name+" can hand the write to consensus after Throttler.Delay without looking at the wait's error or at ctx.Err(): a request whose context ended during the throttle wait is still committed and acknowledged", nil)
		}
	}
	c.Count("throttle waits in the store's write paths", n)
	c.Min("throttle waits in the store's write paths", 2)
}

// c32e: the two reap timeouts reach the store as configured: in cmd/rqlited the
// read-only-node timeout is assigned from its own setting and from nothing else
// (unset means "never reap read-only nodes"), likewise the voter timeout.
func c32e(c *core.Ctx) {
	sp := c.P.SPkg("cmd/rqlited")
	if sp == nil {
		c.Unk("C32.e", "ANCHOR", "cmd/rqlited", "", "package not loaded")
		return
	}
	want := map[string]string{"ReapReadOnlyTimeout": "RaftReapReadOnlyNodeTimeout", "ReapTimeout": "RaftReapNodeTimeout"}
	n := 0
	for _, fn := range pkgFuncs(sp) {
		an.Instrs(fn, func(in ssa.Instruction) {
			st, ok := in.(*ssa.Store)
			if !ok {
				return
			}
			t, f, _, ok := an.FieldOf(st.Addr)
			if !ok || t != "Store" || want[f] == "" {
				return
			}
			n++
			c.Sites++
			c.Result(an.LoadedField(an.Unwrap(st.Val), "Config", want[f]), "C32.e", "CONST", core.FuncName(fn)+":"+f+":from-its-own-setting", c.P.Pos(in.Pos()),
				"Store."+f+" is the configured "+want[f],
				core.FuncName(fn)+" assigns Store."+f+" something other than the configured "+want[f]+": an unset timeout (\"never reap this kind of node\") is replaced by another value and nodes of that kind are removed from the cluster", nil)
		})
	}
	c.Count("reap timeout assignments in cmd/rqlited", n)
	c.Min("reap timeout assignments in cmd/rqlited", 2)
}

// c35e: running out of file descriptors (EMFILE/ENFILE, which any client can
// provoke by holding connections open) must not end the inter-node listener for
// good: Mux.Serve asks the Accept error whether it is temporary and, on the true
// edge, reaches Accept again without closing the listeners.
func c35e(c *core.Ctx) {
	fn := c.Fn("C35.e", "tcp", "(*Mux).Serve")
	if fn == nil {
		return
	}
	var accepts []ssa.CallInstruction
	var temps []ssa.Value
	for _, ci := range an.AllCalls(fn, false) {
		cc := ci.Common()
		if cc.IsInvoke() && cc.Method.Name() == "Accept" {
			accepts = append(accepts, ci)
		}
		if cc.IsInvoke() && cc.Method.Name() == "Temporary" && ci.Value() != nil {
			temps = append(temps, ci.Value())
		}
	}
	c.Count("Accept calls in Mux.Serve", len(accepts))
	c.Min("Accept calls in Mux.Serve", 1)
	ok := false
	if len(accepts) > 0 && len(temps) > 0 {
		acc := accepts[0].(ssa.Instruction)
		for e := range an.SenseEdges(fn, temps, an.IsTrue) {
			// from the "temporary" edge Accept is reached again before any return
			h := an.Ungated(an.CutSpec{Fn: fn, StartBlocks: []*ssa.BasicBlock{e.To}, NoLift: true,
				GateInstr: func(in ssa.Instruction) bool { return in == acc },
				Sink:      func(in ssa.Instruction) bool { _, isRet := in.(*ssa.Return); return isRet }})
			if len(h) == 0 {
				ok = true
			}
		}
	}
	c.Sites++
	c.Result(ok, "C35.e", "DOM", "Mux.Serve:temporary-accept-error-retried", c.P.Pos(fn.Pos()),
		"a temporary Accept error (EMFILE, ENFILE, ECONNABORTED …) is retried",
		"Mux.Serve no longer retries Accept errors that report Temporary(): when the process runs out of file descriptors — which a client holding idle connections can cause — Serve closes every listener and returns, and the node stops serving the inter-node port until it is restarted", nil)
}

// stepHelpersOf: the step-policy helpers fn calls (one level).
func stepHelpersOf(fn *ssa.Function) []*ssa.Function {
	var out []*ssa.Function
	if an.StepPolicy == nil {
		return nil
	}
	for _, call := range an.AllCalls(fn, false) {
		if g := call.Common().StaticCallee(); g != nil && len(g.Blocks) > 0 && an.StepPolicy(g) {
			out = append(out, g)
		}
	}
	return out
}

// c10g: a fixed-size prefix is read completely or not at all. On the snapshot
// transfer path (transport compression, sinks, restore, WAL codec) no call of
// an io.Reader's Read discards the byte count: a transport may deliver fewer
// bytes than asked for, and a prefix decoded from a partly filled buffer
// rejects (or mis-sizes) a perfectly good stream. io.ReadFull is the idiom.
func c10g(c *core.Ctx) {
	n := 0
	for _, pkg := range []string{"internal/rarchive/zstd", "snapshot", "snapshot/plan", "db/wal", "internal/rsum"} {
		sp := c.P.SPkg(pkg)
		if sp == nil {
			continue
		}
		for _, fn := range pkgFuncs(sp) {
			for i, ci := range an.AllCalls(fn, false) {
				cc := ci.Common()
				name := ""
				if cc.IsInvoke() {
					name = cc.Method.Name()
				} else if g := cc.StaticCallee(); g != nil && g.Signature.Recv() != nil {
					name = g.Name()
				}
				if name != "Read" || cc.Signature().Results().Len() != 2 || cc.Signature().Params().Len() != 1 || !an.IsErrorType(cc.Signature().Results().At(1).Type()) {
					continue
				}
				v := ci.Value()
				if v == nil {
					continue
				}
				n++
				used := false
				for _, r := range *v.Referrers() {
					if ex, ok := r.(*ssa.Extract); ok && ex.Index == 0 {
						for _, rr := range *ex.Referrers() {
							if _, dbg := rr.(*ssa.DebugRef); !dbg {
								used = true
							}
						}
					}
				}
				c.Sites++
				c.Result(used, "C10.g", "ERR", fmt.Sprintf("%s:Read#%d:count-used", core.FuncName(fn), i+1), c.P.Pos(ci.Pos()),
					"the number of bytes Read returned is used",
					core.FuncName(fn)+" calls Read and discards the byte count: a short read (legal for any io.Reader, usual for a network transport) leaves part of the buffer unfilled and what is decoded from it is not what the sender wrote — io.ReadFull reads a fixed-size prefix", nil)
			}
		}
	}
	c.Count("direct Read calls on the snapshot transfer path", n)
}
