package props

import (
	"fmt"
	"sort"

	"golang.org/x/tools/go/ssa"

	"rqverif/checker/internal/an"
	"rqverif/checker/internal/core"
)

// c07g: NewStore resumes an interrupted plan (Store.check) before anything
// reads the catalogue: a directory that a crash left half-reaped is valid
// input for the resume and an error for a scan.
func c07g(c *core.Ctx) {
	fn := c.Fn("C07.g", "snapshot", "NewStore")
	if fn == nil {
		return
	}
	checks := an.CallsTo(fn, false, "snapshot.Store.check")
	if len(checks) == 0 {
		c.Bad("C07.g", "ORD", "NewStore:check-before-scan", c.P.Pos(fn.Pos()), "NewStore does not call Store.check: an interrupted reap or upgrade is never resumed", nil)
		return
	}
	chk := checks[0].(ssa.Instruction)
	scans := func(in ssa.Instruction) bool {
		return an.IsCall(in, "snapshot.Store.getSnapshots", "snapshot.SnapshotCatalog.Scan", "snapshot.Store.List", "snapshot.Store.ListAll", "snapshot.Store.Len", "snapshot.Store.snapshotCount")
	}
	h := an.Ungated(an.CutSpec{Fn: fn, GateInstr: func(in ssa.Instruction) bool { return in == chk }, LiftSinks: true, Sink: scans})
	c.Sites++
	c.Result(len(h) == 0, "C07.g", "ORD", "NewStore:check-before-scan", c.P.Pos(chk.Pos()),
		"the store resumes a persisted plan before it scans its directory",
		"NewStore scans the snapshot directory before Store.check has resumed a persisted plan: the half-reaped layout a crash leaves (a snapshot directory whose files were already consolidated) fails the scan, and the store refuses to open on every start instead of finishing the plan", nil)
}

// c09g: whether a full snapshot is needed is what the FULL_NEEDED file says:
// DueNext tests that path. A copy of the flag kept anywhere else has to be
// re-established on every start; the file is the only state that survives one.
func c09g(c *core.Ctx) {
	fn := c.Fn("C09.g", "snapshot", "(*Store).DueNext")
	if fn == nil {
		return
	}
	tests := 0
	for _, f := range append([]*ssa.Function{fn}, stepHelpersOf(fn)...) {
		for _, call := range an.AllCalls(f, false) {
			id := an.CalleeID(call)
			if id != "internal/fsutil.FileExists" && id != "os.Stat" && id != "os.Lstat" && id != "internal/fsutil.PathExists" {
				continue
			}
			for _, a := range call.Common().Args {
				if an.LoadedField(an.Unwrap(a), "Store", "fullNeededPath") {
					tests++
				}
			}
		}
	}
	c.Sites++
	c.Result(tests > 0, "C09.g", "CONST", "Store.DueNext:reads-the-flag-file", c.P.Pos(fn.Pos()),
		"DueNext answers from the presence of the FULL_NEEDED file",
		"Store.DueNext no longer tests the FULL_NEEDED file: a full-needed requirement recorded before a restart is forgotten (an in-memory copy starts empty), and the next snapshot is accepted as an incremental on top of a chain it does not belong to", nil)
}

// c19c: the credentials the store answers for are the ones written in the
// file: what NewCredentialsStoreFromFile hands to Load is the file's content,
// carried (file handle, byte/string conversions, readers over the bytes) but
// not rewritten — no call that can change the text (environment expansion,
// replacement, trimming, case folding) lies between the file and the decoder.
func c19c(c *core.Ctx) {
	fn := c.Fn("C19.c", "auth", "NewCredentialsStoreFromFile")
	if fn == nil {
		return
	}
	loads := an.CallsTo(fn, false, "auth.CredentialsStore.Load")
	c.Count("Load calls in NewCredentialsStoreFromFile", len(loads))
	c.Min("Load calls in NewCredentialsStoreFromFile", 1)
	carriers := map[string]bool{"strings.NewReader": true, "bytes.NewReader": true, "bytes.NewBuffer": true, "bytes.NewBufferString": true, "bufio.NewReader": true, "io.NopCloser": true, "io.LimitReader": true}
	sources := map[string]bool{"os.Open": true, "os.ReadFile": true, "os.OpenFile": true, "io.ReadAll": true}
	for i, ld := range loads {
		args := ld.Common().Args
		bad := ""
		fromFile := false
		seen := map[ssa.Value]bool{}
		var walk func(v ssa.Value)
		walk = func(v ssa.Value) {
			if v == nil || seen[v] || bad != "" {
				return
			}
			seen[v] = true
			switch x := v.(type) {
			case *ssa.MakeInterface:
				walk(x.X)
			case *ssa.ChangeInterface:
				walk(x.X)
			case *ssa.ChangeType:
				walk(x.X)
			case *ssa.Convert:
				walk(x.X)
			case *ssa.Phi:
				for _, e := range x.Edges {
					walk(e)
				}
			case *ssa.Extract:
				walk(x.Tuple)
			case *ssa.Call:
				id := an.CalleeID(x)
				switch {
				case sources[id]:
					fromFile = true
					if id == "io.ReadAll" {
						walk(x.Call.Args[0])
					}
				case carriers[id]:
					walk(x.Call.Args[0])
				default:
					bad = id
				}
			case *ssa.UnOp:
				walk(x.X)
			case *ssa.Alloc:
				for _, r := range *x.Referrers() {
					if st, ok := r.(*ssa.Store); ok && st.Addr == ssa.Value(x) {
						walk(st.Val)
					}
				}
			case *ssa.Const, *ssa.Parameter:
				// a literal or the caller's value: not the file
			default:
				bad = fmt.Sprintf("%T", v)
			}
		}
		walk(args[len(args)-1])
		c.Sites++
		c.Result(bad == "" && fromFile, "C19.c", "TAINT", fmt.Sprintf("NewCredentialsStoreFromFile:Load#%d:file-content-unmodified", i+1), c.P.Pos(ld.Pos()),
			"Load parses the content of the credentials file as it is on disk",
			"what NewCredentialsStoreFromFile hands to Load is not the file's content as written (it passes through "+bad+"): user names, passwords or permissions that contain the rewritten characters no longer match what the operator configured — the configured password is refused and a different text is accepted", nil)
	}
}

// qpReadsOnly: the QueryParams getter named method reads exactly the request
// parameter key (directly or through HasKey) and asks no other getter. Each
// getter of http.QueryParams stands for one documented parameter; a getter
// whose answer also depends on another parameter silently changes what that
// other parameter's absence or value means for every caller.
func qpReadsOnly(c *core.Ctx, clause, method, key, badMsg string) {
	fn := c.Fn(clause, "http", "QueryParams."+method)
	if fn == nil {
		return
	}
	keys := map[string]bool{}
	others := map[string]bool{}
	for _, f := range an.WithClosures(fn) {
		an.Instrs(f, func(in ssa.Instruction) {
			switch x := in.(type) {
			case *ssa.Lookup:
				if s, ok := an.ConstString(x.Index); ok {
					keys[s] = true
				} else {
					keys["<non-constant>"] = true
				}
			case ssa.CallInstruction:
				id := an.CalleeID(x)
				if id == "http.QueryParams.HasKey" {
					args := x.Common().Args
					if s, ok := an.ConstString(args[len(args)-1]); ok {
						keys[s] = true
					} else {
						keys["<non-constant>"] = true
					}
				} else if len(id) > len("http.QueryParams.") && id[:len("http.QueryParams.")] == "http.QueryParams." {
					others[id[len("http.QueryParams."):]] = true
				}
			}
		})
	}
	ks, os := sortedKeys(keys), sortedKeys(others)
	c.Sites++
	c.Result(len(ks) == 1 && ks[0] == key && len(os) == 0, clause, "TABLE", "QueryParams."+method+":reads-only-"+key, c.P.Pos(fn.Pos()),
		"QueryParams."+method+" reads the "+key+" parameter only",
		fmt.Sprintf("QueryParams.%s reads parameters %v and asks the getters %v instead of the %s parameter alone: %s", method, ks, os, key, badMsg), nil)
}

func sortedKeys(m map[string]bool) []string {
	out := make([]string, 0, len(m))
	for k := range m {
		out = append(out, k)
	}
	sort.Strings(out)
	return out
}

// stepHelpersOf: the step-policy helpers fn calls (one level).
func stepHelpersOf(fn *ssa.Function) []*ssa.Function {
	var out []*ssa.Function
	if an.StepPolicy == nil {
		return nil
	}
	for _, call := range an.AllCalls(fn, false) {
		if g := call.Common().StaticCallee(); g != nil && len(g.Blocks) > 0 && an.StepPolicy(g) {
			out = append(out, g)
		}
	}
	return out
}

// c10g: a fixed-size prefix is read completely or not at all. On the snapshot
// transfer path (transport compression, sinks, restore, WAL codec) no call of
// an io.Reader's Read discards the byte count: a transport may deliver fewer
// bytes than asked for, and a prefix decoded from a partly filled buffer
// rejects (or mis-sizes) a perfectly good stream. io.ReadFull is the idiom.
func c10g(c *core.Ctx) {
	n := 0
	for _, pkg := range []string{"internal/rarchive/zstd", "snapshot", "snapshot/plan", "db/wal", "internal/rsum"} {
		sp := c.P.SPkg(pkg)
		if sp == nil {
			continue
		}
		for _, fn := range pkgFuncs(sp) {
			for i, ci := range an.AllCalls(fn, false) {
				cc := ci.Common()
				name := ""
				if cc.IsInvoke() {
					name = cc.Method.Name()
				} else if g := cc.StaticCallee(); g != nil && g.Signature.Recv() != nil {
					name = g.Name()
				}
				if name != "Read" || cc.Signature().Results().Len() != 2 || cc.Signature().Params().Len() != 1 || !an.IsErrorType(cc.Signature().Results().At(1).Type()) {
					continue
				}
				v := ci.Value()
				if v == nil {
					continue
				}
				n++
				used := false
				for _, r := range *v.Referrers() {
					if ex, ok := r.(*ssa.Extract); ok && ex.Index == 0 {
						for _, rr := range *ex.Referrers() {
							if _, dbg := rr.(*ssa.DebugRef); !dbg {
								used = true
							}
						}
					}
				}
				c.Sites++
				c.Result(used, "C10.g", "ERR", fmt.Sprintf("%s:Read#%d:count-used", core.FuncName(fn), i+1), c.P.Pos(ci.Pos()),
					"the number of bytes Read returned is used",
					core.FuncName(fn)+" calls Read and discards the byte count: a short read (legal for any io.Reader, usual for a network transport) leaves part of the buffer unfilled and what is decoded from it is not what the sender wrote — io.ReadFull reads a fixed-size prefix", nil)
			}
		}
	}
	c.Count("direct Read calls on the snapshot transfer path", n)
}
