// Package props holds the obligation tables: one file per property, each
// filling the rule templates of package an with slots taken from rqlite.
package props

import (
	"fmt"
	"runtime/debug"
	"sort"
	"strings"
	"sync"

	"rqverif/checker/internal/core"
)

var registry = map[string]*core.Check{}

func register(ch *core.Check) { registry[ch.ID] = ch }

// imports: a property whose statement depends on a mechanism that another
// property's check already decides also carries those obligations, so that a
// change which breaks it through that mechanism is reported under its own id
// and not only under the sibling's. The obligations keep their clause keys.
// An empty clause list imports the whole check.
var imports = map[string][]core.Import{
	"C01": {{From: "C14", Why: "replicas converge only if every non-deterministic call is rewritten before the statement enters the log"}},
	"C02": {{From: "C20", Clauses: []string{"C20.f"}, Why: "a forwarded read that reuses a connection left with an unread response returns another request's (older) result"}},
	"C06": {{From: "C05", Why: "the segments the checkpoint manager cuts are produced by the compacting scanner"}},
	"C08": {{From: "C07", Clauses: []string{"C07.c", "C07.e"}, Why: "the upgrade plan is persisted by plan.WriteToFile and executed by the same executor operations as the reap plan"}},
	"C03": {
		{From: "C07", Why: "acknowledged writes live in the snapshot store once the log is truncated: a reap interrupted by a crash must not lose them"},
		{From: "C04", Why: "a restart rebuilds the applied state from the snapshot store plus the log"},
	},
	"C04": {
		{From: "C07", Why: "the rebuilt state is read from the consolidated snapshot the reaper produces"},
		{From: "C09", Why: "the rebuild resolves its files through the catalogue and honours full-needed"},
	},
	"C11": {{From: "C34", Clauses: []string{"C34.a", "C34.b", "C34.c"}, Why: "streams and the reaper exclude each other through rsync.MultiRSW"}},
	"C14": {{From: "C01", Clauses: []string{"C01.a"}, Why: "a statement is rewritten only if the endpoint that replicates it runs the rewriter on it with rewriting switched on"}},
	"C17": {{From: "C15", Clauses: []string{"C15.a"}, Why: "a read can switch off query_only (and then write) only if a guarded PRAGMA gets past the check that every read path runs first"}},
	"C18": {{From: "C19", Clauses: []string{"C19.b", "C19.c"}, Why: "every permission check asks the credential store: what it loaded must be what the file says"}},
	"C20": {{From: "C02", Clauses: []string{"C02.b", "C02.c"}, Why: "forwarding happens only if a non-leader store answers ErrNotLeader instead of acting locally"}},
	"C21": {
		{From: "C34", Clauses: []string{"C34.e"}, Why: "a backup is point-in-time consistent only while it holds the snapshot gate"},
		{From: "C20", Clauses: []string{"C20.a/DECIDE:(*Proxy).Backup", "C20.a/TABLE:Proxy.Backup"}, Why: "a backup requested from a follower is the leader's stream written once into the caller's writer: the forwarding template of Proxy.Backup (one local attempt, one remote call, its result returned)"},
	},
	"C22": {
		{From: "C07", Why: "after a load or boot the snapshot store must rebuild the loaded database: the reaper consolidates exactly the newest full snapshot and what follows it"},
		{From: "C04", Clauses: []string{"C04.a"}, Why: "a load or boot breaks the WAL lineage: segments staged from the replaced database must not be packaged with the new one"},
	},
	"C23": {{From: "C24", Why: "queued writes travel through the batching queue"}},
	"C27": {{From: "C25", Clauses: []string{"C25.a/INIT:(*CDCStreamer).CommitHook:pending-group-own-events", "C25.a/INIT:(*CDCStreamer).Reset:pending-group-own-events"}, Why: "the events of a group are the rows changed by its own transaction only if each pending group owns its event list"}},
	"C31": {{From: "C34", Clauses: []string{"C34.e"}, Why: "shutdown waits on the snapshot gate: it returns only if every holder releases it"}},
	"C33": {{From: "C09", Clauses: []string{"C09.b"}, Why: "the snapshot manual recovery writes must be the one raft restores next: the catalogue order (term, index, id) decides which snapshot is newest"}},
	"C34": {{From: "C11", Clauses: []string{"C11.b"}, Why: "the stream wrapper pairs the store's read lock with exactly one release, also when Close is called twice or the underlying close fails"}},
	"C35": {{From: "C18", Clauses: []string{"C18.b", "C18.c"}, Why: "no byte sequence may change state without passing the permission checks of the inter-node handler"}},
	"C38": {{From: "C34", Clauses: []string{"C34.a", "C34.b"}, Why: "a linearizable read waits on rsync.ReadyTarget"}},
}

var importsOnce sync.Once

type importKey struct {
	p    *core.Program
	from string
}

var importRuns = map[importKey]*core.Ctx{}

// Registry returns the registered checks by property id.
func Registry() map[string]*core.Check {
	importsOnce.Do(func() {
		for id, imps := range imports {
			ch := registry[id]
			if ch == nil {
				continue
			}
			ch.Imports = imps
			var parts []string
			for _, im := range imps {
				what := "all clauses of " + im.From
				if len(im.Clauses) > 0 {
					what = strings.Join(im.Clauses, ", ")
				}
				parts = append(parts, fmt.Sprintf("%s (%s; rules as described under %s)", what, im.Why, im.From))
			}
			sort.Strings(parts)
			ch.Explanation += " Also decided here, as necessary conditions this property shares with sibling properties: " + strings.Join(parts, "; ") + "."
		}
	})
	return registry
}

// RunImports runs the imported checks and adds their selected obligations to c.
func RunImports(c *core.Ctx) {
	for _, im := range c.Check.Imports {
		src := registry[im.From]
		if src == nil {
			c.Unk(c.Check.ID, "IMPORT", im.From, "", "imported check not registered")
			continue
		}
		// one run of the imported check per program serves every importer
		sub := importRuns[importKey{c.P, im.From}]
		if sub == nil {
			sub = core.NewCtx(c.P, src, c.Tier)
			func() {
				defer func() {
					if r := recover(); r != nil {
						sub.Unk(im.From, "PANIC", "checker", "", fmt.Sprintf("checker panicked: %v\n%s", r, debug.Stack()))
					}
				}()
				src.Run(sub)
			}()
			importRuns[importKey{c.P, im.From}] = sub
		}
		want := func(clause, key string) bool {
			if len(im.Clauses) == 0 {
				return true
			}
			for _, cl := range im.Clauses {
				if clause == cl || (strings.Contains(cl, "/") && strings.HasPrefix(key, cl)) {
					return true
				}
			}
			// anchors, panics and floors of the imported check always count
			return !strings.Contains(clause, ".")
		}
		n := 0
		for _, o := range sub.Obls {
			if want(o.Clause, o.Key) {
				cp := *o
				cp.Prop = c.Check.ID
				c.Obls = append(c.Obls, &cp)
				n++
			}
		}
		if len(im.Clauses) == 0 {
			for name, floor := range sub.Floor {
				c.Floor["["+im.From+"] "+name] = floor
				c.Inst["["+im.From+"] "+name] = sub.Inst[name]
			}
		}
		for f := range sub.Funcs {
			c.Funcs[f] = true
		}
		c.Sites += sub.Sites
		if c.Imported == nil {
			c.Imported = map[string]bool{}
		}
		c.Imported[im.From] = true
		c.Notes = append(c.Notes, fmt.Sprintf("imported %d obligations from %s: %s", n, im.From, im.Why))
	}
}

// Thorough runs the additional thorough-tier work for a property.
func Thorough(c *core.Ctx, repo string) {
	thorough(c, repo)
}
