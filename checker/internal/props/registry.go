// Package props holds the obligation tables: one file per property, each
// filling the rule templates of package an with slots taken from rqlite.
package props

import (
	"rqverif/checker/internal/core"
)

var registry = map[string]*core.Check{}

func register(ch *core.Check) { registry[ch.ID] = ch }

// Registry returns the registered checks by property id.
func Registry() map[string]*core.Check { return registry }

// Thorough runs the additional thorough-tier work for a property.
func Thorough(c *core.Ctx, repo string) {
	thorough(c, repo)
}
