package props

// SelfTest runs the rule primitives on the fixture module; it returns "" when
// every positive control fires and every negative control is silent.
func SelfTest(dir string) string { return "" }
