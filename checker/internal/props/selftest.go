package props

import (
	"fmt"
	"go/token"
	"go/types"
	"os"
	"strings"

	"golang.org/x/tools/go/packages"
	"golang.org/x/tools/go/ssa"
	"golang.org/x/tools/go/ssa/ssautil"

	"rqverif/checker/internal/an"
	"rqverif/checker/internal/core"
)

// SelfTest runs the rule primitives on the fixture module; it returns "" when
// every positive control fires and every negative control is silent. A rule
// primitive that stopped matching its positive control would make the checks
// built on it pass vacuously, so a failure here makes every property undecided.
func SelfTest(dir string) string {
	if _, err := os.Stat(dir); err != nil {
		return "fixture module missing: " + err.Error()
	}
	// go/packages resolves the "go" binary through this process's PATH
	if !strings.HasPrefix(os.Getenv("PATH"), core.GoBin+":") {
		os.Setenv("PATH", core.GoBin+":"+os.Getenv("PATH"))
	}
	env := []string{}
	for _, e := range os.Environ() {
		if strings.HasPrefix(e, "PATH=") || strings.HasPrefix(e, "GOWORK=") || strings.HasPrefix(e, "GOFLAGS=") || strings.HasPrefix(e, "GOTOOLCHAIN=") {
			continue
		}
		env = append(env, e)
	}
	env = append(env, "PATH="+core.GoBin+":"+os.Getenv("PATH"), "GOWORK=off", "GOFLAGS=-mod=mod", "GOPROXY=off", "GOSUMDB=off", "GOTOOLCHAIN=local")
	pkgs, err := packages.Load(&packages.Config{Mode: packages.LoadAllSyntax, Dir: dir, Env: env}, "./...")
	if err != nil {
		return "loading fixtures: " + err.Error()
	}
	if len(pkgs) != 1 || len(pkgs[0].Errors) > 0 {
		return fmt.Sprintf("fixtures: %d packages, errors %v", len(pkgs), pkgs[0].Errors)
	}
	prog, spkgs := ssautil.AllPackages(pkgs, ssa.InstantiateGenerics)
	prog.Build()
	sp := spkgs[0]
	fn := func(name string) *ssa.Function {
		if i := strings.Index(name, "."); i > 0 {
			t := sp.Type(name[:i])
			if t == nil {
				return nil
			}
			for _, recv := range []types.Type{types.NewPointer(t.Type()), t.Type()} {
				ms := prog.MethodSets.MethodSet(recv)
				for j := 0; j < ms.Len(); j++ {
					if ms.At(j).Obj().Name() == name[i+1:] {
						return prog.MethodValue(ms.At(j))
					}
				}
			}
			return nil
		}
		return sp.Func(name)
	}
	var fails []string
	expect := func(ok bool, what string) {
		if !ok {
			fails = append(fails, what)
		}
	}
	callTo := func(f *ssa.Function, name string) ssa.CallInstruction {
		for _, c := range an.AllCalls(f, false) {
			if callee := c.Common().StaticCallee(); callee != nil && callee.Name() == name {
				return c
			}
		}
		return nil
	}
	// DOM with nil-sense edges
	for _, tc := range []struct {
		name string
		hits bool
	}{{"DomGood", false}, {"DomBad", true}} {
		f := fn(tc.name)
		if f == nil {
			expect(false, tc.name+" missing")
			continue
		}
		chk, act := callTo(f, "check"), callTo(f, "act")
		if chk == nil || act == nil {
			expect(false, tc.name+": calls not found")
			continue
		}
		edges := an.SenseEdges(f, an.ErrResult(chk), an.IsNil)
		h := an.Ungated(an.CutSpec{Fn: f, GateEdge: edges, Sink: func(in ssa.Instruction) bool { return in == act.(ssa.Instruction) }})
		expect(len(edges) > 0 && (len(h) > 0) == tc.hits, fmt.Sprintf("DOM primitive on %s: %d gate edges, %d ungated sinks", tc.name, len(edges), len(h)))
	}
	// comparison edges
	for _, tc := range []struct {
		name string
		hits bool
	}{{"CmpGood", false}, {"CmpBad", true}} {
		f := fn(tc.name)
		if f == nil {
			expect(false, tc.name+" missing")
			continue
		}
		act := callTo(f, "act")
		isP := func(i int) func(ssa.Value) bool { return func(v ssa.Value) bool { return v == ssa.Value(f.Params[i]) } }
		edges := eqEdges(f, isP(0), isP(1))
		h := an.Ungated(an.CutSpec{Fn: f, GateEdge: edges, Sink: func(in ssa.Instruction) bool { return in == act.(ssa.Instruction) }})
		expect(len(edges) == 1 && (len(h) > 0) == tc.hits, fmt.Sprintf("equality-edge primitive on %s: %d edges, %d ungated", tc.name, len(edges), len(h)))
	}
	// success returns through a defer-spilled named result
	if f := fn("SuccNamed"); f != nil {
		n := len(an.SuccessReturns(f))
		expect(n == 1, fmt.Sprintf("SuccessReturns on SuccNamed: %d (want 1)", n))
		expect(len(an.Returns(f)) == 3, fmt.Sprintf("Returns on SuccNamed: %d (want 3, the recover block excluded)", len(an.Returns(f))))
	} else {
		expect(false, "SuccNamed missing")
	}
	// DECIDE
	if f := fn("Decide"); f != nil {
		mk := func(ref func(an.Val) string) an.DecideResult {
			return an.Decide(an.DecideSpec{Fn: f,
				Vars:  []an.Var{an.Bool("a"), an.Bool("b")},
				Conds: []an.CondMatcher{an.BoolCond("a", isParamN(f, 0)), an.BoolCond("b", isParamN(f, 1))},
				Ret: func(r *ssa.Return, resolve func(ssa.Value) ssa.Value) string {
					k, _ := an.ConstInt(resolve(r.Results[0]))
					return fmt.Sprint(k)
				},
				Ref: ref}, func(p token.Pos) string { return "" })
		}
		good := mk(func(v an.Val) string {
			switch {
			case v["a"] == 1 && v["b"] == 1:
				return " => 1"
			case v["a"] == 1:
				return " => 2"
			}
			return " => 3"
		})
		bad := mk(func(v an.Val) string { return " => 3" })
		expect(good.Rows == 4 && len(good.Mismatches) == 0 && len(good.Undecided) == 0, fmt.Sprintf("DECIDE primitive: rows %d mismatches %d undecided %d (want 4/0/0)", good.Rows, len(good.Mismatches), len(good.Undecided)))
		expect(len(bad.Mismatches) == 2, fmt.Sprintf("DECIDE primitive with a wrong table: %d mismatches (want 2)", len(bad.Mismatches)))
	} else {
		expect(false, "Decide missing")
	}
	// GUARD
	spec := an.GuardSpec{TypeName: "Guarded", Mutex: "mu", Fields: []string{"n"}}
	for _, tc := range []struct {
		name string
		viol bool
	}{{"Guarded.Good", false}, {"Guarded.Bad", true}, {"Guarded.BadEarlyUnlock", true}, {"Guarded.GoodBranches", false}} {
		f := fn(tc.name)
		if f == nil {
			expect(false, tc.name+" missing")
			continue
		}
		v := an.CheckGuard(f, spec, 0)
		expect((len(v) > 0) == tc.viol, fmt.Sprintf("GUARD primitive on %s: %d violations", tc.name, len(v)))
	}
	// field store forwarding
	if f := fn("chain.Forward"); f != nil {
		ok := false
		for _, r := range an.Returns(f) {
			v := fwdField(r.Results[0])
			if call, isC := v.(*ssa.Call); isC {
				// the second step, whose argument forwards to the first
				if inner, isC2 := fwdField(call.Call.Args[0]).(*ssa.Call); isC2 && inner != call {
					ok = true
				}
			}
		}
		expect(ok, "field store forwarding on chain.Forward")
	} else {
		expect(false, "chain.Forward missing")
	}
	// OWN: pooled memory escaping
	for _, tc := range []struct {
		name    string
		escapes bool
	}{{"PoolEscape", true}, {"PoolCopy", false}} {
		f := fn(tc.name)
		if f == nil {
			expect(false, tc.name+" missing")
			continue
		}
		put, esc := poolEscapes(f)
		expect(put != nil && (esc != nil) == tc.escapes, fmt.Sprintf("OWN primitive on %s: put found %v, escape found %v", tc.name, put != nil, esc != nil))
	}
	// LANG
	{
		ref, e1 := an.CompileLang(`a+b`)
		g1, e2 := an.CompileLang(`a+b|c`)
		g2, e3 := an.CompileLang(`aa+b`)
		if e1 != nil || e2 != nil || e3 != nil {
			expect(false, "LANG compile")
		} else {
			_, incl, _, err := an.NotIncluded(ref, g1, 10000)
			expect(err == nil && incl, "LANG inclusion a+b ⊆ a+b|c")
			w, incl2, _, err2 := an.NotIncluded(ref, g2, 10000)
			expect(err2 == nil && !incl2 && w == "ab", fmt.Sprintf("LANG witness for a+b ⊄ aa+b: %q", w))
		}
	}
	// PLAN replay
	{
		base := an.PathTerm{Base: "dir"}
		sub := func(n string) an.PathTerm { return an.PathTerm{Base: "dir", Comps: []string{n}} }
		fs := an.FS{}
		fs.AddDir(base)
		fs.AddDir(sub("old"))
		ops := []an.PlanOp{{Kind: "MkdirAll", Dst: sub("tmp")}, {Kind: "Rename", Src: sub("old"), Dst: an.PathTerm{Base: "dir", Comps: []string{"tmp", "x"}}}, {Kind: "Rename", Src: sub("tmp"), Dst: sub("new")}}
		res := an.CheckReplay(fs, ops, an.Resume{})
		nbad := 0
		for _, r := range res {
			if r.Err != "" {
				nbad++
			}
		}
		expect(len(res) == 4 && nbad > 0, fmt.Sprintf("PLAN replay: naive resume of a publish-by-rename plan must fail at some crash point (%d of %d)", nbad, len(res)))
		g := sub("new")
		res = an.CheckReplay(fs, ops, an.Resume{GuardExists: &g, Short: nil})
		nbad = 0
		for _, r := range res {
			if r.Err != "" {
				nbad++
			}
		}
		expect(nbad == 0, fmt.Sprintf("PLAN replay: guarded resume must succeed at every crash point (%d fail)", nbad))
	}
	if len(fails) > 0 {
		return strings.Join(fails, "; ")
	}
	return ""
}
