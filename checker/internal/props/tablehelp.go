package props

import (
	"strings"

	"golang.org/x/tools/go/ssa"

	"rqverif/checker/internal/an"
	"rqverif/checker/internal/core"
)

// constStringsOf returns the constant strings of a []string value: a literal
// built in the function itself, or a package-level variable that is initialised
// once with a literal in the package's init and never stored to elsewhere.
func constStringsOf(c *core.Ctx, v ssa.Value) ([]string, bool) {
	elems := func(x ssa.Value) ([]string, bool) {
		el := sliceElems(x)
		if len(el) == 0 {
			return nil, false
		}
		var out []string
		for _, e := range el {
			s, ok := an.ConstString(e)
			if !ok {
				return nil, false
			}
			out = append(out, s)
		}
		return out, true
	}
	if out, ok := elems(v); ok {
		return out, true
	}
	u, ok := v.(*ssa.UnOp)
	if !ok {
		return nil, false
	}
	g, ok := u.X.(*ssa.Global)
	if !ok || g.Pkg == nil {
		return nil, false
	}
	var out []string
	stores := 0
	for _, fn := range pkgFuncs(g.Pkg) {
		an.Instrs(fn, func(in ssa.Instruction) {
			st, isSt := in.(*ssa.Store)
			if !isSt || st.Addr != ssa.Value(g) {
				return
			}
			stores++
			if fn.Name() == "init" {
				out, _ = elems(st.Val)
			}
		})
	}
	if init := g.Pkg.Func("init"); init != nil {
		an.Instrs(init, func(in ssa.Instruction) {
			st, isSt := in.(*ssa.Store)
			if !isSt || st.Addr != ssa.Value(g) {
				return
			}
			if out == nil {
				stores++
				out, _ = elems(st.Val)
			}
		})
	}
	return out, stores == 1 && len(out) > 0
}

// isParamOrItsSpill: v is the parameter p, or a load of the cell p was spilled
// to because a closure captures it (the cell's only store is p itself).
func isParamOrItsSpill(v ssa.Value, p *ssa.Parameter) bool {
	v = an.Unwrap(v)
	if v == ssa.Value(p) {
		return true
	}
	u, ok := v.(*ssa.UnOp)
	if !ok {
		return false
	}
	al, ok := u.X.(*ssa.Alloc)
	if !ok {
		return false
	}
	stores := 0
	for _, r := range *al.Referrers() {
		if st, isSt := r.(*ssa.Store); isSt && st.Addr == ssa.Value(al) {
			stores++
			if st.Val != ssa.Value(p) {
				return false
			}
		}
	}
	// a closure that captures the cell could store to it as well
	for _, r := range *al.Referrers() {
		if mc, isMC := r.(*ssa.MakeClosure); isMC {
			if g, isFn := mc.Fn.(*ssa.Function); isFn {
				for i, b := range mc.Bindings {
					if b != ssa.Value(al) || i >= len(g.FreeVars) {
						continue
					}
					for _, fr := range *g.FreeVars[i].Referrers() {
						if st, isSt := fr.(*ssa.Store); isSt && st.Addr == ssa.Value(g.FreeVars[i]) {
							return false
						}
					}
				}
			}
		}
	}
	return stores == 1
}

// equalFoldTable recognises slices.ContainsFunc(T, func(n string) bool { return
// strings.EqualFold(<x>, n) }) with T a constant string table and <x> accepted
// by subject: "x equals, ignoring case, one of T". It returns T.
func equalFoldTable(c *core.Ctx, call *ssa.Call, subject func(ssa.Value) bool) ([]string, bool) {
	if call == nil || !strings.HasPrefix(an.CalleeID(call), "slices.ContainsFunc") || len(call.Call.Args) != 2 {
		return nil, false
	}
	mc, ok := an.Unwrap(call.Call.Args[1]).(*ssa.MakeClosure)
	if !ok {
		return nil, false
	}
	g, ok := mc.Fn.(*ssa.Function)
	if !ok || len(g.Params) != 1 {
		return nil, false
	}
	rets := an.Returns(g)
	if len(rets) != 1 || len(rets[0].Results) != 1 {
		return nil, false
	}
	ef, ok := an.Unwrap(rets[0].Results[0]).(*ssa.Call)
	if !ok || !an.IsCall(ef, "strings.EqualFold") {
		return nil, false
	}
	a, b := ef.Call.Args[0], ef.Call.Args[1]
	p := ssa.Value(g.Params[0])
	if an.Unwrap(b) != p {
		a, b = b, a
	}
	if an.Unwrap(b) != p || !subject(a) {
		return nil, false
	}
	return constStringsOf(c, call.Call.Args[0])
}
