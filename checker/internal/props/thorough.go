package props

import (
	"encoding/json"
	"fmt"
	"os"
	"os/exec"
	"path/filepath"
	"regexp"
	"sort"
	"strings"

	"rqverif/checker/internal/core"
)

// thorough adds, for the property of c, a sensitivity run of the checker: every
// seeded change under <verif>/seeded whose meta.json says this property's check
// detects it is applied to a scratch copy of the analysed tree (outside the
// repository and outside /verif, removed afterwards) and the quick check is run
// on the copy in a fresh process. A seeded change that applies and is no longer
// detected means the checker lost sensitivity; it is reported in the evidence
// and on stdout, it does not change the verdict on the analysed tree.
func thorough(c *core.Ctx, repo string) {
	verif := os.Getenv("RQCHECK_VERIF")
	if verif == "" {
		verif = "/verif"
	}
	if os.Getenv("RQCHECK_NO_SENSITIVITY") != "" {
		return
	}
	metas, _ := filepath.Glob(filepath.Join(verif, "seeded", "*", "meta.json"))
	sort.Strings(metas)
	type meta struct {
		Seed       string   `json:"seed"`
		Property   string   `json:"property"`
		DetectedBy []string `json:"detected_by"`
	}
	self, err := os.Executable()
	if err != nil {
		c.Note("sensitivity run skipped: %v", err)
		return
	}
	nApplied, nDetected := 0, 0
	for _, mp := range metas {
		b, err := os.ReadFile(mp)
		if err != nil {
			continue
		}
		var m meta
		if json.Unmarshal(b, &m) != nil {
			continue
		}
		mine := false
		for _, d := range m.DetectedBy {
			if d == c.Check.ID {
				mine = true
			}
		}
		// the changes seeded for this property (those seeded for a sibling and
		// reported here through an import are exercised by the sibling's run)
		if !mine || m.Property != c.Check.ID {
			continue
		}
		patch := filepath.Join(filepath.Dir(mp), "patch.diff")
		scratch, err := os.MkdirTemp("", "rqcheck-sens-")
		if err != nil {
			c.Note("sensitivity run skipped: %v", err)
			return
		}
		func() {
			defer os.RemoveAll(scratch)
			tree := filepath.Join(scratch, "tree")
			if out, err := exec.Command("rsync", "-a", "--exclude", ".git", strings.TrimRight(repo, "/")+"/", tree+"/").CombinedOutput(); err != nil {
				c.Note("sensitivity %s: copy failed: %v %s", m.Seed, err, out)
				return
			}
			ap := exec.Command("git", "apply", "--whitespace=nowarn", patch)
			ap.Dir = tree
			if out, err := ap.CombinedOutput(); err != nil {
				c.Note("sensitivity %s: seeded change does not apply to this tree (%s): skipped", m.Seed, strings.TrimSpace(firstLine(string(out))))
				fmt.Printf("SENSITIVITY property=%s seed=%s not-applicable\n", c.Check.ID, m.Seed)
				return
			}
			nApplied++
			sv := filepath.Join(scratch, "verif")
			os.MkdirAll(filepath.Join(sv, "evidence"), 0o755)
			if kf, err := os.ReadFile(filepath.Join(verif, "known_findings.json")); err == nil {
				os.WriteFile(filepath.Join(sv, "known_findings.json"), kf, 0o644)
			}
			// the fixtures are read from the real verification directory
			os.MkdirAll(filepath.Join(sv, "checker", "testdata"), 0o755)
			os.Symlink(filepath.Join(verif, "checker", "testdata", "fixtures"), filepath.Join(sv, "checker", "testdata", "fixtures"))
			run := exec.Command(self, "-prop", c.Check.ID, "-tier", "quick", "-repo", tree, "-verif", sv)
			run.Env = append(os.Environ(), "RQCHECK_NO_SENSITIVITY=1")
			out, _ := run.CombinedOutput()
			re := regexp.MustCompile(`(?m)^` + c.Check.ID + `: .* (\d+) failing`)
			mm := re.FindStringSubmatch(string(out))
			detected := mm != nil && mm[1] != "0"
			if detected {
				nDetected++
				fmt.Printf("SENSITIVITY property=%s seed=%s detected\n", c.Check.ID, m.Seed)
				c.Note("sensitivity %s: seeded change applied to a scratch copy is detected (%s failing obligation(s))", m.Seed, mm[1])
			} else {
				fmt.Printf("SENSITIVITY property=%s seed=%s MISSED\n", c.Check.ID, m.Seed)
				c.Note("sensitivity %s: seeded change applied to a scratch copy is NOT detected — the check lost sensitivity on this tree", m.Seed)
			}
		}()
	}
	c.Inst["seeded changes applied to a scratch copy"] += nApplied
	c.Inst["seeded changes detected on the scratch copy"] += nDetected
}

func firstLine(s string) string {
	if i := strings.Index(s, "\n"); i >= 0 {
		return s[:i]
	}
	return s
}
