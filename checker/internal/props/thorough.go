package props

import "rqverif/checker/internal/core"

func thorough(c *core.Ctx, repo string) {}
