package props

import "go/types"

func structOf(t types.Type) *types.Struct {
	if p, ok := t.Underlying().(*types.Pointer); ok {
		t = p.Elem()
	}
	st, _ := t.Underlying().(*types.Struct)
	return st
}
