package props

import (
	"fmt"
	"go/types"
	"sort"
	"strings"

	"golang.org/x/tools/go/ssa"

	"rqverif/checker/internal/an"
	"rqverif/checker/internal/core"
)

// pkgFuncs lists every source-level function of an SSA package: package
// functions, methods of its named types, and their closures.
func pkgFuncs(sp *ssa.Package) []*ssa.Function {
	var out []*ssa.Function
	seen := map[*ssa.Function]bool{}
	add := func(f *ssa.Function) {
		if f == nil || seen[f] || len(f.Blocks) == 0 {
			return
		}
		for _, x := range an.WithClosures(f) {
			if !seen[x] {
				seen[x] = true
				out = append(out, x)
			}
		}
	}
	names := make([]string, 0, len(sp.Members))
	for n := range sp.Members {
		names = append(names, n)
	}
	sort.Strings(names)
	for _, n := range names {
		switch m := sp.Members[n].(type) {
		case *ssa.Function:
			add(m)
		case *ssa.Type:
			for _, t := range []types.Type{m.Type(), types.NewPointer(m.Type())} {
				ms := sp.Prog.MethodSets.MethodSet(t)
				for i := 0; i < ms.Len(); i++ {
					f := sp.Prog.MethodValue(ms.At(i))
					if f != nil && f.Pkg == sp && f.Synthetic == "" {
						add(f)
					}
				}
			}
		}
	}
	return out
}

// moduleFuncs lists every source function of the analysed module.
func moduleFuncs(c *core.Ctx) []*ssa.Function {
	var out []*ssa.Function
	for _, pk := range c.P.Roots {
		if sp := c.P.SSAPkg[pk.PkgPath]; sp != nil {
			out = append(out, pkgFuncs(sp)...)
		}
	}
	return out
}

// reportDecide turns a decision-table comparison into obligations.
func reportDecide(c *core.Ctx, clause, construct, pos string, res an.DecideResult) {
	c.Count("decision rows "+construct, res.Rows)
	for _, u := range res.Undecided {
		c.Unk(clause, "DECIDE", construct+":cond", pos, u+" — the decision structure changed; the reference table must be re-derived")
	}
	if len(res.Undecided) > 0 {
		return
	}
	if len(res.Mismatches) == 0 {
		s := ""
		if len(res.Sample) > 0 {
			s = fmt.Sprintf("; e.g. [%s] ⇒ %s", res.Sample[0].Val, res.Sample[0].Got)
		}
		c.OK(clause, "DECIDE", construct, pos, fmt.Sprintf("%d valuations agree with the reference table%s", res.Rows, s))
		return
	}
	m := res.Mismatches
	if len(m) > 6 {
		m = m[:6]
	}
	c.Bad(clause, "DECIDE", construct, pos,
		fmt.Sprintf("%d of %d valuations disagree with the reference table; first: [%s] code gives %q, reference %q", len(res.Mismatches), res.Rows, m[0].Val, m[0].Got, m[0].Want), m)
}

func short(s string) string { return strings.ReplaceAll(s, core.ModPath+"/", "") }
