// Package fx holds positive and negative controls for the rule primitives of
// rqcheck. It is analysed, never executed.
package fx

import (
	"bytes"
	"errors"
	"sync"
)

var errBad = errors.New("bad")

func check(p string) error {
	if p == "" {
		return errBad
	}
	return nil
}

func act(p string) error { return nil }

func cleanup() {}

// --- DOM: act must be dominated by the nil edge of check's error

func DomGood(p string) error {
	if err := check(p); err != nil {
		return err
	}
	return act(p)
}

func DomBad(p string) error {
	if err := check(p); err != nil {
		cleanup()
	}
	return act(p)
}

// --- success returns with a named result captured by a defer

func SuccNamed(p string) (err error) {
	defer func() {
		if err != nil {
			cleanup()
		}
	}()
	if e := check(p); e != nil {
		return e
	}
	if p == "x" {
		return errBad
	}
	return nil
}

// --- DECIDE

func Decide(a, b bool) int {
	if a {
		if b {
			return 1
		}
		return 2
	}
	return 3
}

// --- GUARD

type Guarded struct {
	mu sync.Mutex
	n  int
}

func (g *Guarded) Good() {
	g.mu.Lock()
	defer g.mu.Unlock()
	g.n++
}

func (g *Guarded) Bad() {
	g.n++
}

func (g *Guarded) BadEarlyUnlock() {
	g.mu.Lock()
	g.mu.Unlock()
	g.n++
}

func (g *Guarded) GoodBranches(c bool) int {
	g.mu.Lock()
	if c {
		v := g.n
		g.mu.Unlock()
		return v
	}
	g.n = 0
	g.mu.Unlock()
	return 0
}

// --- comparison edges

func CmpGood(a, b int) error {
	if a != b {
		return errBad
	}
	return act("eq")
}

func CmpBad(a, b int) error {
	if a != b {
		cleanup()
	}
	return act("eq")
}

// --- field store forwarding

type chain struct{ c1 uint32 }

func step(s uint32) uint32 { return s + 1 }

func (c *chain) Forward() uint32 {
	c.c1 = step(c.c1)
	c.c1 = step(c.c1)
	return c.c1
}

// --- OWN: pooled memory must not escape

var bufPool = sync.Pool{New: func() any { return new(bytes.Buffer) }}

type msg struct{ Data []byte }

func PoolEscape(p []byte) *msg {
	b := bufPool.Get().(*bytes.Buffer)
	defer bufPool.Put(b)
	b.Reset()
	b.Write(p)
	return &msg{Data: b.Bytes()}
}

func PoolCopy(p []byte) *msg {
	b := bufPool.Get().(*bytes.Buffer)
	defer bufPool.Put(b)
	b.Reset()
	b.Write(p)
	return &msg{Data: append([]byte(nil), b.Bytes()...)}
}
