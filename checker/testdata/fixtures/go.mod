module fixtures

go 1.26.8
