#!/usr/bin/env python3
"""Regenerates /verif/MANIFEST.json from the checks registered in rqcheck.

Usage: python3 gen_manifest.py   (needs bin/rqcheck built)
"""
import json, os, re, subprocess

ids = [json.loads(l)["id"] for l in open("/verif/properties.jsonl")]
env = dict(os.environ, RQCHECK_LIST_JSON="1")
out = subprocess.run(["/verif/bin/rqcheck", "-list"], capture_output=True, text=True, check=True, env=env).stdout
reg = {}
for line in out.splitlines():
    d = json.loads(line)
    reg[d["id"]] = d

# optional per-property overrides
TECH = json.load(open("/verif/manifest_notes.json"))

RULES = {
    "DOM": "must-pass-through (cut) checks on the SSA block graph with value-sense gate edges",
    "ORD": "ordering (dominance) checks between calls on the SSA block graph",
    "PAIR": "acquire/release pairing on every exit path",
    "WHO": "who-may-call / who-may-write checks over resolved callees",
    "GUARD": "must-hold lockset analysis of field accesses",
    "TABLE": "table agreement between sibling implementations extracted from SSA",
    "DECIDE": "decision-table extraction: CFG interpretation under every valuation of the branch conditions, compared with a reference table",
    "CONST": "constant / argument-flow checks on resolved call sites",
    "LANG": "regular-language inclusion (guard regex vs reference grammar, product automaton, shortest witness)",
    "TAINT": "intra-procedural value-flow (taint) checks",
    "INIT": "initialisation / hand-over checks on every path",
    "PLAN": "abstract replay of the persisted file-system plan at every crash point",
    "ERR": "dropped-error checks on resolved call sites",
}

NA = {}

checks = []
na = []
for i in ids:
    if i in reg:
        n = TECH.get(i, {})
        expl = reg[i]["explanation"]
        kinds = [k for k in RULES if re.search(r"\b%s\b" % k, expl)]
        tech = n.get("technique") or ("static analysis of /repo's type-checked SSA (go/packages + go/ssa), no execution: " +
                                      "; ".join(RULES[k] for k in kinds))
        notcov = reg[i].get("not_covered") or []
        text = n.get("text") or ("Structural necessary conditions of the property, decided on every path of the current source by static analysis (no execution). " +
                                 "Clauses: " + expl[:900] + ("…" if len(expl) > 900 else "") +
                                 (" NOT decided: " + "; ".join(notcov) + "." if notcov else ""))
        checks.append({
            "property_id": i,
            "quick_cmd": "/verif/check.sh %s quick" % i,
            "thorough_cmd": "/verif/check.sh %s thorough" % i,
            "evidence_file": "/verif/evidence/%s.json" % i,
            "replay_cmd_template": "/verif/bin/rqcheck -explain {path}",
            "engine": "rqcheck",
            "level_claimed": {
                "category": "other",
                "text": text,
                "design_ref": "DESIGN.md section 4, " + i,
            },
            "level_note": n.get("note", "Trusted: go/types, go/ssa, the reference tables in the checker (DESIGN.md appendix A); hashicorp/raft, go-sqlite3, SQLite and the file system behave as documented. The behaviour itself (histories, byte equality, recovered contents) is not decided; see 'NOT decided' in the level text and the evidence file's assumptions."),
            "technique": tech,
        })
    else:
        na.append({"property_id": i, "reason": NA.get(i, "no sound static rule in reach; see DESIGN.md section 6")})

m = {
    "version": 1,
    "setup_cmd": "cd /verif/checker && env GOTOOLCHAIN=local GOFLAGS=-mod=mod GOPROXY=off GOSUMDB=off PATH=/opt/veriftools/go1.26.8/bin:$PATH go build -o /verif/bin/rqcheck ./cmd/rqcheck",
    "hooks": {
        "guard": "verif",
        "enable": "none needed: static analysis reads /repo's working tree as it is; no hook commits exist",
        "baseline_off_cmd": "cd /repo && go test -vet=off -count=1 -timeout 25m ./...",
        "source_commits": [],
        "add_only": True,
    },
    "engines": [{
        "name": "rqcheck",
        "path": "checker",
        "serves_properties": sorted(reg),
        "kind_free_text": "repository-specific static analyser: go/packages + go/ssa cut checks with value-sense edges, decision-table extraction, lockset, regular-language inclusion, plan replay, VTA call graph",
    }],
    "checks": checks,
    "notes": "All claims are level 'other': structural necessary conditions decided statically on every run from /repo's working tree. Genuine defects found are listed in known_findings.json (fixed: entries name the /repo commit).",
    "not_applicable": na,
}
json.dump(m, open("/verif/MANIFEST.json", "w"), indent=1)
print("checks:", len(checks), "not_applicable:", len(na))
