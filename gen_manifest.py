#!/usr/bin/env python3
"""Regenerates /verif/MANIFEST.json from the checks registered in rqcheck.

Usage: python3 gen_manifest.py   (needs bin/rqcheck built)
"""
import json, subprocess, sys

ids = [json.loads(l)["id"] for l in open("/verif/properties.jsonl")]
out = subprocess.run(["/verif/bin/rqcheck", "-list"], capture_output=True, text=True, check=True).stdout
reg = {}
for line in out.splitlines():
    i, _, t = line.partition("\t")
    reg[i] = t

# per-property: technique (deciding method) and what the level means
TECH = json.load(open("/verif/manifest_notes.json"))

NA = {
    "C28": "byte-for-byte round trip over all inputs and chunk sizes: truth lives in values (gzip framing, read-loop arithmetic at exact multiples), not in the shape of the code; the only structural remnants (sequence/stream-id guards, removal on abort) are pinned one-to-one by existing unit tests, so a static rule would restate the source (DESIGN.md section 6)",
}

checks = []
na = []
for i in ids:
    if i in reg:
        n = TECH.get(i, {})
        checks.append({
            "property_id": i,
            "quick_cmd": "/verif/check.sh %s quick" % i,
            "thorough_cmd": "/verif/check.sh %s thorough" % i,
            "evidence_file": "/verif/evidence/%s.json" % i,
            "replay_cmd_template": "/verif/bin/rqcheck -explain {path}",
            "engine": "rqcheck",
            "level_claimed": {
                "category": "other",
                "text": n.get("text", "Structural necessary conditions of the property, decided on every path of the current source by static analysis (no execution); the behaviour itself is not decided."),
                "design_ref": "DESIGN.md section 4, " + i,
            },
            "level_note": n.get("note", "Trusted: go/types, go/ssa, VTA call graph, the reference tables of DESIGN.md appendix A; hashicorp/raft, go-sqlite3 and SQLite behave as documented. Clauses not covered are listed in the evidence file's assumptions."),
            "technique": n.get("technique", "static analysis over typed AST / SSA / call graph (custom rules)"),
        })
    else:
        na.append({"property_id": i, "reason": NA.get(i, "check not built yet (work in progress); see DESIGN.md section 4")})

m = {
    "version": 1,
    "setup_cmd": "cd /verif/checker && env GOTOOLCHAIN=local GOFLAGS=-mod=mod GOPROXY=off GOSUMDB=off PATH=/opt/veriftools/go1.26.8/bin:$PATH go build -o /verif/bin/rqcheck ./cmd/rqcheck",
    "hooks": {
        "guard": "verif",
        "enable": "none needed: static analysis reads /repo's working tree as it is; no hook commits exist",
        "baseline_off_cmd": "cd /repo && go test -vet=off -count=1 -timeout 25m ./...",
        "source_commits": [],
        "add_only": True,
    },
    "engines": [{
        "name": "rqcheck",
        "path": "checker",
        "serves_properties": sorted(reg),
        "kind_free_text": "repository-specific static analyser: go/packages + go/ssa + go/cfg-style cut checks, value-sense edges, decision-table extraction, regular-language inclusion, VTA call graph",
    }],
    "checks": checks,
    "notes": "All claims are level 'other': structural necessary conditions decided statically on every run from /repo's working tree. Genuine defects found are listed in known_findings.json (fixed: entries name the /repo commit).",
    "not_applicable": na,
}
json.dump(m, open("/verif/MANIFEST.json", "w"), indent=1)
print("checks:", len(checks), "not_applicable:", len(na))
