#!/bin/sh
# usage: seedtest.sh <seed dir name under /verif/seeded> [prop ids, comma separated]
# Applies the seeded patch to a scratch worktree of /repo's HEAD and runs the checks there.
ID="$1"; PROPS="${2:-$(echo $1 | cut -c1-3)}"
W=/tmp/seedtest
[ -d $W ] || git -C /repo worktree add -q --detach $W HEAD
git -C $W checkout -q --detach $(git -C /repo rev-parse HEAD) && git -C $W reset -q --hard && git -C $W clean -qfd
if ! git -C $W apply /verif/seeded/$ID/patch.diff 2>/dev/null; then
  if ! git -C $W apply --3way /verif/seeded/$ID/patch.diff >/dev/null 2>&1; then echo "PATCH-DOES-NOT-APPLY $ID"; git -C $W reset -q --hard; exit 2; fi
fi
mkdir -p /tmp/vtmp && cp /verif/known_findings.json /tmp/vtmp/
/verif/bin/rqcheck -prop "$PROPS" -repo $W -verif /tmp/vtmp 2>&1 | grep -v "^VIOLATION\|^KNOWN-FINDING" | cut -c1-400
git -C $W reset -q --hard
