#!/bin/bash
# confirms every seed, 4 at a time; results in /verif/seeded/<id>/confirm.json
cd /verif
ls seeded | grep '^C' | xargs -P 4 -n 1 python3 tools/confirm_seed.py > /tmp/confirm_all.out 2>&1
