#!/bin/bash
# confirms every seed that has no confirmation against /repo's current HEAD, ${PAR:-4} at a time;
# results in /verif/seeded/<id>/confirm.json
cd /verif
HEAD=$(git -C /repo rev-parse --short HEAD)
todo=""
for d in seeded/C*/; do
  id=$(basename $d)
  if [ -f $d/confirm.json ] && grep -q '"confirmed": true' $d/confirm.json; then
    # STRICT=1: only a confirmation against the current HEAD counts
    if [ -z "$STRICT" ] || grep -q "\"repo_head\": \"$HEAD\"" $d/confirm.json; then continue; fi
  fi
  todo="$todo $id"
done
echo "to confirm: $(echo $todo | wc -w)"
printf '%s\n' $todo | xargs -P ${PAR:-4} -n 1 python3 tools/confirm_seed.py > /tmp/confirm_all.out 2>&1
grep -l '"confirmed": true' seeded/*/confirm.json | wc -l
