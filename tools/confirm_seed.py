#!/usr/bin/env python3
"""Confirms one seeded change in a scratch worktree (outside /repo and /verif) and writes
/verif/seeded/<id>/meta.json.

  1. worktree of /repo HEAD, patch applied; the module builds and every test package compiles
  2. the existing tests of the packages the patch touches pass (the demonstration is not present)
  3. the demonstration fails with the patch and passes without it
The worktree is removed afterwards.
"""
import json, os, re, subprocess, sys, shutil, time

sid = sys.argv[1]
SD = "/verif/seeded/" + sid
W = "/tmp/sc/" + sid
ENV = dict(os.environ, GOFLAGS="-mod=mod", GOPROXY="off", GOSUMDB="off", GOTOOLCHAIN="local",
           PATH="/opt/veriftools/go1.26.8/bin:" + os.environ["PATH"])
ENV.pop("GOWORK", None)

def run(cmd, cwd=W, timeout=3000):
    t = time.time()
    p = subprocess.run(cmd, shell=True, executable="/bin/bash", cwd=cwd, env=ENV, capture_output=True, text=True, timeout=timeout)
    out = (p.stdout + p.stderr)
    lines = [l for l in out.splitlines() if not l.startswith("[")]
    return p.returncode, "\n".join(lines[-25:]), round(time.time() - t, 1)

ran = []
def step(name, cmd, **kw):
    rc, out, dt = run(cmd, **kw)
    ran.append({"step": name, "cmd": cmd, "exit": rc, "seconds": dt, "tail": out[-1500:]})
    return rc, out

os.makedirs("/tmp/sc", exist_ok=True)
subprocess.run("git -C /repo worktree remove --force %s 2>/dev/null; rm -rf %s" % (W, W), shell=True)
subprocess.run("git -C /repo worktree add -q --detach %s HEAD" % W, shell=True, check=True)
head = subprocess.run("git -C /repo rev-parse --short HEAD", shell=True, capture_output=True, text=True).stdout.strip()
result = {"seed": sid, "repo_head": head}
try:
    rc, _ = step("apply", "git apply %s/patch.diff || git apply --3way %s/patch.diff" % (SD, SD))
    if rc != 0:
        raise SystemExit("patch does not apply")
    files = subprocess.run("git diff --name-only HEAD", shell=True, cwd=W, capture_output=True, text=True).stdout.split()
    subprocess.run("git reset -q", shell=True, cwd=W)
    dirs = sorted({os.path.dirname(f) or "." for f in files if f.endswith(".go")})
    result["files_changed"] = files
    # demonstration target directory
    demo = open(SD + "/zz_seeded_demo_test.go").read()
    pkg = re.search(r"^package (\w+)", demo, re.M).group(1)
    base = pkg[:-5] if pkg.endswith("_test") else pkg
    notes = open(SD + "/notes.md").read()
    m = re.search(r"([A-Za-z_][\w/]*)/zz_seeded_demo_test\.go", notes)
    ddir = None
    if os.path.exists(SD + "/demo_dir.txt"):
        ddir = open(SD + "/demo_dir.txt").read().strip()
        m = None
    if m and os.path.isdir(os.path.join(W, m.group(1))):
        ddir = m.group(1)
    if ddir is None:
        cands = [d for d in dirs if os.path.basename(d) == base]
        if not cands:
            for root, _, fs in os.walk(W):
                if "/." in root or "/vendor" in root:
                    continue
                for f in fs:
                    if f.endswith(".go") and not f.endswith("_test.go"):
                        try:
                            head_ = open(os.path.join(root, f)).read(4000)
                        except Exception:
                            continue
                        if re.search(r"^package %s\b" % base, head_, re.M):
                            cands.append(os.path.relpath(root, W))
                            break
        ddir = sorted(set(cands), key=len)[0]
    result["demo_dir"] = ddir
    tests = re.findall(r"^func (Test\w+)\(", demo, re.M)
    runre = "^(" + "|".join(tests) + ")$"
    rc1, _ = step("build with the change", "set -o pipefail; go build ./... && go test -vet=off -count=1 -run '^$' -exec /bin/true ./... 2>&1 | grep -v 'no test files' | grep -v '^ok' | head -20; test ${PIPESTATUS[0]} -eq 0", timeout=1800)
    pk = " ".join("./%s/..." % d for d in dirs)
    rc2, _ = step("existing tests of the touched packages with the change", "go test -vet=off -count=1 -timeout 25m %s 2>&1 | tail -15; test ${PIPESTATUS[0]} -eq 0" % pk, timeout=3000)
    if rc2 != 0:
        # timing-sensitive cluster tests flake on a loaded machine: one retry, packages one at a time
        rc2, _ = step("existing tests of the touched packages with the change (retry)", "go test -vet=off -count=1 -p 1 -timeout 40m %s 2>&1 | tail -15; test ${PIPESTATUS[0]} -eq 0" % pk, timeout=4000)
    shutil.copy(SD + "/zz_seeded_demo_test.go", os.path.join(W, ddir, "zz_seeded_demo_test.go"))
    rc3, out3 = step("demonstration with the change (must fail)", "go test -vet=off -count=1 -timeout 20m -run '%s' ./%s 2>&1 | tail -25; test ${PIPESTATUS[0]} -eq 0" % (runre, ddir), timeout=1500)
    subprocess.run("git checkout -q -- .", shell=True, cwd=W)
    rc4, _ = step("demonstration without the change (must pass)", "go test -vet=off -count=1 -timeout 20m -run '%s' ./%s 2>&1 | tail -8; test ${PIPESTATUS[0]} -eq 0" % (runre, ddir), timeout=1500)
    failed3 = rc3 != 0 and "build failed" not in out3 and ("--- FAIL" in out3 or "panic:" in out3 or "fatal error" in out3 or "exit status" in out3 or re.search(r"^FAIL\t", out3, re.M) is not None)
    result["confirmed"] = (rc1 == 0 and rc2 == 0 and failed3 and rc4 == 0)
    result["verdicts"] = {"builds": rc1 == 0, "existing_tests_pass": rc2 == 0, "demo_fails_with_change": failed3, "demo_passes_without_change": rc4 == 0}
except SystemExit as e:
    result["confirmed"] = False
    result["error"] = str(e)
except Exception as e:
    result["confirmed"] = False
    result["error"] = repr(e)
finally:
    subprocess.run("git -C /repo worktree remove --force %s; rm -rf %s" % (W, W), shell=True)
result["ran"] = ran
json.dump(result, open(SD + "/confirm.json", "w"), indent=1)
print(sid, "confirmed" if result.get("confirmed") else "NOT CONFIRMED", result.get("verdicts"), result.get("error", ""))
