#!/bin/bash
# usage: import_r3.sh — copy finished round-3 seeds from /tmp/r3/out/<id>/ into /verif/seeded/<id>-r3/
for d in /tmp/r3/out/C*/; do
  id=$(basename $d)
  [ -f $d/patch.diff ] && [ -f $d/notes.md ] && [ -f $d/zz_seeded_demo_test.go ] || continue
  t=/verif/seeded/$id-r3; mkdir -p $t
  cp $d/patch.diff $d/notes.md $d/zz_seeded_demo_test.go $t/
done
ls -d /verif/seeded/*-r3 | wc -l
