#!/bin/bash
# usage: import_round.sh <n> — copy finished round-n seeds from /tmp/r<n>/out/<id>/ into /verif/seeded/<id>-r<n>/
n=$1
for d in /tmp/r$n/out/C*/; do
  id=$(basename $d)
  [ -f $d/patch.diff ] && [ -f $d/notes.md ] && [ -f $d/zz_seeded_demo_test.go ] || continue
  t=/verif/seeded/$id-r$n; mkdir -p $t
  cp $d/patch.diff $d/notes.md $d/zz_seeded_demo_test.go $t/
done
ls -d /verif/seeded/*-r$n 2>/dev/null | wc -l
