#!/bin/bash
# usage: r3_try.sh <binary> <id>... — apply /tmp/r3/out/<id>/patch.diff to a scratch worktree and list which checks alarm (3 at a time)
export BIN=$1; shift
export GOFLAGS=-mod=mod GOPROXY=off GOSUMDB=off GOTOOLCHAIN=local PATH=/opt/veriftools/go1.26.8/bin:$PATH; unset GOWORK
one() {
  id=$1; d=${SRC:-/tmp/r3/out}/$id; W=/tmp/r3m_$id; V=/tmp/r3v_$id
  git -C /repo worktree remove --force $W 2>/dev/null; rm -rf $W $V
  git -C /repo worktree add -q --detach $W HEAD
  mkdir -p $V/checker/testdata && cp /verif/known_findings.json $V/ && ln -sfn /verif/checker/testdata/fixtures $V/checker/testdata/fixtures
  if ! git -C $W apply $d/patch.diff 2>/dev/null; then echo "$id PATCH-DOES-NOT-APPLY"; else
    $BIN -prop all -tier quick -repo $W -verif $V > /tmp/r3m_$id.out 2>&1
    echo "$id detected_by: $(grep -E '^C[0-9]+: ' /tmp/r3m_$id.out | grep -v ' 0 failing' | cut -d: -f1 | tr '\n' ' ')"
    grep -E 'violated|undecided' /tmp/r3m_$id.out | cut -c1-220 | head -4
  fi
  git -C /repo worktree remove --force $W 2>/dev/null; rm -rf $W $V
}
export -f one
printf '%s\n' "$@" | xargs -P 3 -I{} bash -c 'one {}'
