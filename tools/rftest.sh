#!/bin/bash
# usage: rftest.sh <area>   — applies each behaviour-preserving refactor ${RF_DIR:-/verif/refactors}/<area>/N.diff to a scratch worktree
# and runs every check; any failing property is a false alarm to triage.
export GOFLAGS=-mod=mod GOPROXY=off GOSUMDB=off GOTOOLCHAIN=local PATH=/opt/veriftools/go1.26.8/bin:$PATH; unset GOWORK
A=$1; W=/tmp/rftest
[ -d $W ] || git -C /repo worktree add -q --detach $W HEAD
mkdir -p /tmp/vtmp3/checker/testdata && cp /verif/known_findings.json /tmp/vtmp3/ && ln -sfn /verif/checker/testdata/fixtures /tmp/vtmp3/checker/testdata/fixtures
for f in ${RF_DIR:-/verif/refactors}/$A/[0-9]*.diff; do
  git -C $W checkout -q --detach $(git -C /repo rev-parse HEAD) && git -C $W reset -q --hard && git -C $W clean -qfd
  if ! git -C $W apply $f 2>/dev/null; then echo "$A/$(basename $f): DOES-NOT-APPLY"; continue; fi
  out=$(/verif/bin/rqcheck -prop all -tier quick -repo $W -verif /tmp/vtmp3 2>&1)
  bad=$(echo "$out" | grep -E '^C[0-9]+: ' | grep -v ' 0 failing' | cut -d: -f1 | tr '\n' ' ')
  if echo "$out" | grep -q 'checker broken\|load failed'; then bad="LOAD-FAILED"; fi
  echo "$A/$(basename $f): alarms: [$bad]"
  if [ -n "$bad" ]; then echo "$out" | grep -E 'violated|undecided' | cut -c1-330 | head -6; fi
done
git -C $W reset -q --hard
