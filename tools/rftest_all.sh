#!/bin/bash
# usage: rftest_all.sh [binary]  — runs every refactor patch under ${RF_DIR:-/verif/refactors}/*/ against all checks, areas in parallel.
# Output: /tmp/rfall/<area>.out ; summary on stdout.
BIN=${1:-/verif/bin/rqcheck}
export GOFLAGS=-mod=mod GOPROXY=off GOSUMDB=off GOTOOLCHAIN=local PATH=/opt/veriftools/go1.26.8/bin:$PATH; unset GOWORK
mkdir -p /tmp/rfall
HEAD=$(git -C /repo rev-parse HEAD)
run_area() {
  A=$1; W=/tmp/rfw_$A; V=/tmp/rfv_$A
  [ -d $W ] || git -C /repo worktree add -q --detach $W HEAD
  mkdir -p $V/checker/testdata && cp /verif/known_findings.json $V/ && ln -sfn /verif/checker/testdata/fixtures $V/checker/testdata/fixtures
  : > /tmp/rfall/$A.out
  for f in ${RF_DIR:-/verif/refactors}/$A/[0-9]*.diff; do
    git -C $W checkout -q --detach $HEAD && git -C $W reset -q --hard && git -C $W clean -qfd
    if ! git -C $W apply $f 2>/dev/null; then echo "$A/$(basename $f): DOES-NOT-APPLY" >> /tmp/rfall/$A.out; continue; fi
    out=$($BIN -prop all -tier quick -repo $W -verif $V 2>&1)
    bad=$(echo "$out" | grep -E '^C[0-9]+: ' | grep -v ' 0 failing' | cut -d: -f1 | tr '\n' ' ')
    echo "$out" | grep -q 'checker broken\|load failed' && bad="LOAD-FAILED"
    echo "$A/$(basename $f): alarms: [$bad]" >> /tmp/rfall/$A.out
    [ -n "$bad" ] && echo "$out" | grep -E 'violated|undecided' | cut -c1-300 | head -8 >> /tmp/rfall/$A.out
  done
  git -C $W reset -q --hard
}
export -f run_area; export BIN HEAD
ls ${RF_DIR:-/verif/refactors} | grep -E "${AREAS:-.}" | xargs -P ${PAR:-4} -I{} bash -c 'run_area {}'
total=$(cat /tmp/rfall/*.out | grep -c 'alarms:'); bad=$(cat /tmp/rfall/*.out | grep 'alarms:' | grep -vc 'alarms: \[\]')
echo "refactor patches: $total run, $bad with alarms"
cat /tmp/rfall/*.out | grep 'alarms:' | grep -v 'alarms: \[\]'
