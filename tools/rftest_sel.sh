#!/bin/bash
# usage: rftest_sel.sh <binary> "area/N:props" ...   — quick re-test of selected refactor patches for selected properties
BIN=$1; shift
W=/tmp/rftest; [ -d $W ] || git -C /repo worktree add -q --detach $W HEAD
mkdir -p /tmp/vtmp3/checker/testdata && cp /verif/known_findings.json /tmp/vtmp3/ && ln -sfn /verif/checker/testdata/fixtures /tmp/vtmp3/checker/testdata/fixtures
for spec in "$@"; do
  p=${spec%%:*}; props=${spec#*:}
  git -C $W checkout -q --detach $(git -C /repo rev-parse HEAD) && git -C $W reset -q --hard && git -C $W clean -qfd
  git -C $W apply ${RF_DIR:-/verif/refactors}/$p.diff 2>/dev/null || { echo "$p: DOES-NOT-APPLY"; continue; }
  out=$($BIN -prop $props -tier quick -repo $W -verif /tmp/vtmp3 2>&1)
  bad=$(echo "$out" | grep -E '^C[0-9]+: ' | grep -v ' 0 failing' | cut -d: -f1 | tr '\n' ' ')
  echo "$p [$props]: alarms: [$bad]"
  [ -n "$bad" ] && echo "$out" | grep -E 'violated|undecided' | cut -c1-260 | head -6
done
git -C $W reset -q --hard
