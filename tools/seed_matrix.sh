#!/bin/bash
# usage: seed_matrix.sh [binary] — for every seeded change: apply it to a scratch worktree of /repo's HEAD (outside /repo and
# /verif), run all checks there, and record which properties' checks report a violation in seeded/<id>/detected_by.txt.
# Four seeds at a time.
export BIN=${1:-/verif/bin/rqcheck}
export GOFLAGS=-mod=mod GOPROXY=off GOSUMDB=off GOTOOLCHAIN=local PATH=/opt/veriftools/go1.26.8/bin:$PATH; unset GOWORK
one() {
  id=$1; d=/verif/seeded/$id; W=/tmp/seedm_$id; V=/tmp/seedv_$id
  git -C /repo worktree remove --force $W 2>/dev/null; rm -rf $W $V
  git -C /repo worktree add -q --detach $W HEAD
  mkdir -p $V/checker/testdata && cp /verif/known_findings.json $V/ && ln -sfn /verif/checker/testdata/fixtures $V/checker/testdata/fixtures
  if ! git -C $W apply $d/patch.diff 2>/dev/null && ! git -C $W apply --3way $d/patch.diff >/dev/null 2>&1; then echo "$id PATCH-DOES-NOT-APPLY"; else
    git -C $W reset -q
    $BIN -prop all -tier quick -repo $W -verif $V 2>&1 | grep -E '^C[0-9]+: ' | grep -v ' 0 failing' | cut -d: -f1 > $d/detected_by.txt
    echo "$id detected_by: $(tr '\n' ' ' < $d/detected_by.txt)"
  fi
  git -C /repo worktree remove --force $W 2>/dev/null; rm -rf $W $V
}
export -f one
ls /verif/seeded | grep '^C' | xargs -P 4 -I{} bash -c 'one {}'
