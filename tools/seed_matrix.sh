#!/bin/bash
# For every seeded change: apply it to a scratch worktree of /repo's HEAD (outside /repo and /verif),
# run all checks there, and record which properties' checks report a violation.
# Output: /verif/seeded/<id>/detected_by.txt (one property id per line)
export GOFLAGS=-mod=mod GOPROXY=off GOSUMDB=off GOTOOLCHAIN=local PATH=/opt/veriftools/go1.26.8/bin:$PATH; unset GOWORK
W=/tmp/seedmatrix
git -C /repo worktree remove --force $W 2>/dev/null; rm -rf $W
git -C /repo worktree add -q --detach $W HEAD
mkdir -p /tmp/vtmp2 && cp /verif/known_findings.json /tmp/vtmp2/
mkdir -p /tmp/vtmp2/checker/testdata && ln -sfn /verif/checker/testdata/fixtures /tmp/vtmp2/checker/testdata/fixtures
for d in /verif/seeded/C*/; do
  id=$(basename $d)
  [ -n "$1" ] && [ "$1" != "$id" ] && continue
  git -C $W reset -q --hard && git -C $W clean -qfd
  if ! git -C $W apply $d/patch.diff 2>/dev/null && ! git -C $W apply --3way $d/patch.diff >/dev/null 2>&1; then echo "$id PATCH-DOES-NOT-APPLY"; continue; fi
  git -C $W reset -q
  /verif/bin/rqcheck -prop all -tier quick -repo $W -verif /tmp/vtmp2 2>&1 | grep -E '^C[0-9]+: ' | grep -v ' 0 failing' | cut -d: -f1 > $d/detected_by.txt
  echo "$id detected_by: $(tr '\n' ' ' < $d/detected_by.txt)"
done
git -C /repo worktree remove --force $W; rm -rf /tmp/vtmp2
