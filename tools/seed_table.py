#!/usr/bin/env python3
"""Prints the seed → detecting checks table (markdown) from /verif/seeded/*/meta.json."""
import json, glob, os, re
rows = []
for mp in sorted(glob.glob("/verif/seeded/*/meta.json")):
    m = json.load(open(mp))
    files = m.get("files_changed") or []
    if not files:
        pd = open(os.path.dirname(mp) + "/patch.diff").read()
        files = re.findall(r"^\+\+\+ b/(\S+)", pd, re.M)
    det = m.get("detected_by") or []
    own = m["property"] in det
    others = [d for d in det if d != m["property"]]
    conf = m.get("confirmed_by_me")
    rows.append((m["seed"], ", ".join(files)[:70], "yes" if conf else ("no" if conf is False else "—"),
                 ("**" + m["property"] + "**" if own else "—") + ((" + " + " ".join(others)) if others else "")))
print("| seed | files changed | confirmed | reported by (own check in bold) |")
print("|---|---|---|---|")
for r in rows:
    print("| %s | %s | %s | %s |" % r)
n = len(rows); own = sum(1 for r in rows if r[3].startswith("**")); conf = sum(1 for r in rows if r[2] == "yes")
print("\n%d seeded changes: %d reported by the property's own check, %d confirmed in a scratch worktree." % (n, own, conf))
