#!/usr/bin/env python3
"""Writes /verif/seeded/<id>/meta.json from notes.md (sub-agent), confirm.json (tools/confirm_seed.py)
and detected_by.txt (tools/seed_matrix.sh)."""
import json, os, re, glob

def section(md, *names):
    for n in names:
        m = re.search(r"^##+\s*%s.*?\n(.*?)(?=^##+\s|\Z)" % n, md, re.M | re.S | re.I)
        if m:
            return re.sub(r"\s+", " ", m.group(1)).strip()
    return ""

for d in sorted(glob.glob("/verif/seeded/*/")):
    sid = os.path.basename(d.rstrip("/"))
    if not os.path.exists(d + "patch.diff"):
        continue
    notes = open(d + "notes.md").read() if os.path.exists(d + "notes.md") else ""
    conf = json.load(open(d + "confirm.json")) if os.path.exists(d + "confirm.json") else {}
    det = open(d + "detected_by.txt").read().split() if os.path.exists(d + "detected_by.txt") else None
    prop = sid[:3]
    meta = {
        "seed": sid,
        "property": prop,
        "origin": "fresh sub-agent given only the property record and its own scratch worktree",
        "change": section(notes, "Change")[:700],
        "why_it_breaks": section(notes, "Why it breaks")[:900],
        "needs_to_manifest": section(notes, "What it needs to manifest", "What it needs")[:900],
        "files_changed": conf.get("files_changed"),
        "demonstration": {"file": "zz_seeded_demo_test.go", "package_dir": conf.get("demo_dir")},
        "confirmed_by_me": conf.get("confirmed"),
        "confirmation": {
            "repo_head": conf.get("repo_head"),
            "verdicts": conf.get("verdicts"),
            "ran": [{"step": r["step"], "cmd": r["cmd"], "exit": r["exit"], "seconds": r["seconds"]} for r in conf.get("ran", [])],
            "where": "scratch worktree /tmp/sc/%s of /repo HEAD, removed afterwards (tools/confirm_seed.py)" % sid,
        },
        "detected_by": det,
        "detected_by_own_property": (prop in det) if det is not None else None,
    }
    if os.path.exists(d + "demo_note.txt"):
        meta["demonstration"]["note"] = open(d + "demo_note.txt").read().strip()
    if conf.get("error"):
        meta["confirmation"]["error"] = conf["error"]
    json.dump(meta, open(d + "meta.json", "w"), indent=1)
    print(sid, "confirmed" if meta["confirmed_by_me"] else "unconfirmed", "detected_by", det)
